"""
C01 — transcribed dynamics are exactly the theta-method discretisation of the DAE.

Proof obligations: lean/RtcVerif/Props/C01.lean (model: Model/C01Colloc.lean).
Correspondence: synthetic DAE problems (harness/c01_synth.py, no Modelica) are transcribed by the
real `CollocatedIntegratedOptimizationProblem.transcribe()`; the rows of `nlp['g']` are compared
with the rows of the Lean model (Drivers/C01.lean) evaluated on the same instance with the layout
recovered through the public API:

* affine instances: COMPLETE comparison of (A, b, lbg, ubg) in physical coordinates
  (A, b from `ca.jacobian(g, X)`, `g(0)`; the model is evaluated exactly at 0 and at the scaled
  unit vectors), rows as multisets;
* nonlinear instances: values at N+5 random probe decision vectors, rows as multisets.

Independent oracle (plain Python / Fractions): the theta-method residual formula of the property
statement evaluated on the decoded trajectories vs the real `g` at probe points; and, for
well-posed affine instances, a real `optimize()` followed by the formula on `extract_results()`.
"""
import bisect
import copy
import math
import warnings
from fractions import Fraction

import numpy as np

from . import c01_modelica as MO
from . import c01_synth as S
from .common import fr, quiet_fd

KIND = {"v": 0, "d": 1, "D": 1, "c": 2, "t": 3, "p": 4}
ZERO_EQ = {"c": 0.0, "t": []}


# -------------------------------------------------------------------------------------------------
# running the implementation


class Case:
    pass


def run_code(inst, prob=None):
    """transcribe the instance with the real code; returns a Case (or raises).  `prob`: an
    already transcribed problem object built on this (live) instance dict: transcribe it again
    (the cached residual functions are reused)"""
    import casadi as ca
    from rtctools._internal.casadi_helpers import is_affine

    cs = Case()
    cs.inst = inst
    if prob is None:
        prob = MO.build(inst) if inst.get("modelica") else S.make_problem(inst)
    cs.prob = prob
    _d, _lbx, _ubx, lbg, ubg, _x0, nlp = S.transcribe(cs.prob)
    X, g = nlp["x"], nlp["g"]
    cs.N = X.size1()
    cs.R = g.size1()
    cs.L = S.recover_layout(cs.prob, inst, X)
    cs.gfun = ca.Function("g", [X], [g])
    cs.lb = np.array(ca.veccat(*lbg)).ravel() if cs.R else np.zeros(0)
    cs.ub = np.array(ca.veccat(*ubg)).ravel() if cs.R else np.zeros(0)
    cs.affine = bool(is_affine(g, X)) if cs.R else True
    if cs.affine and cs.R:
        J = ca.Function("J", [X], [ca.jacobian(g, X), g])
        A, b = J(np.zeros(cs.N))
        cs.A = np.array(ca.DM(A).full())
        cs.b = np.array(b).ravel()
    # column scale: nominal of the variable that owns each decision-vector entry
    scale = np.ones(cs.N)
    owner = {}
    vs = S.var_names(inst)
    for (m, v), inds in cs.L["idx"].items():
        for i, j in enumerate(inds):
            owner.setdefault(j, set()).add((v, i))
            scale[j] = cs.L["nom"][v]
    for (m, s), j in cs.L["didx"].items():
        owner.setdefault(j, set()).add(("der", s))
        scale[j] = cs.L["dnom"][(m, s)]
    cs.scale = scale
    cs.owner = owner
    cs.vs = vs
    return cs


def g_at(cs, Xv):
    return np.array(cs.gfun(Xv)).ravel() if cs.R else np.zeros(0)


# -------------------------------------------------------------------------------------------------
# the instance on the wire


def wire_eqs(eqs):
    return [{"c": fr(eq["c"]), "t": [{"a": fr(co), "f": [[KIND[f[0]], (f[1] if len(f) > 1 else 0)] for f in facs]}
                                     for co, facs in eq["t"]]} for eq in eqs]


def model_init_eqs(inst):
    """initial equations handed to the model; a path constraint of the history probe is appended
    as additional 'initial equations' (its t0 instance receives exactly the initial inputs)"""
    ie = inst.get("init_eqs")
    pc = inst.get("pc") or []
    if not pc:
        return None if ie is None else wire_eqs(ie)
    return wire_eqs((ie if ie is not None else [ZERO_EQ]) + pc)


def pc_positions(inst):
    """positions of the path-constraint rows inside the model's / oracle's row list"""
    pc = inst.get("pc") or []
    if not pc:
        return []
    ne = len(inst["eqs"])
    ni = len(inst["init_eqs"]) if inst.get("init_eqs") is not None else 1
    B = ne + ni + len(pc)
    return [m * B + ne + ni + q for m in range(inst["E"]) for q in range(len(pc))]


def wire_series(s):
    return None if s is None else {"t": [fr(x) for x in s["times"]], "v": [fr(x) for x in s["values"]]}


def driver_line(cs, probes):
    inst, L = cs.inst, cs.L
    vs = cs.vs
    E = inst["E"]
    ts = inst["ts"]
    own = []
    for v in vs:
        o = (inst.get("own_times") or {}).get(v)
        own.append(None if o is None else {"times": [fr(ts[i]) for i in o], "mode": (inst.get("modes") or {}).get(v, 0)})
    hist = inst.get("history") or [{} for _ in range(E)]
    return dict(
        op="rows", k=len(vs), nd=inst["ns"], nc=inst["nci"], npar=inst["npar"], E=E, N=cs.N,
        ts=[fr(t) for t in ts], theta=fr(inst["theta"]),
        nom=[fr(L["nom"][v]) for v in vs],
        dnom=[fr(L["dnom"][(0, s)]) for s in range(inst["ns"])],
        own=own,
        idx=[[L["idx"][(m, v)] for v in vs] for m in range(E)],
        didx=[[L["didx"][(m, s)] for s in range(inst["ns"])] for m in range(E)],
        pvals=[[fr(x) for x in inst["pvals"][m]] for m in range(E)],
        dyn=[(j in (inst.get("dyn") or [])) for j in range(inst["npar"])],
        cmode=[(inst.get("modes") or {}).get("c%d" % j, 0) for j in range(inst["nci"])],
        cin=[[wire_series(inst["cin"][m][j]) for j in range(inst["nci"])] for m in range(E)],
        hist=[[wire_series(hist[m].get(v)) for v in vs] for m in range(E)],
        eqs=wire_eqs(inst["eqs"]),
        init_eqs=model_init_eqs(inst),
        probes=probes,
    )


# -------------------------------------------------------------------------------------------------
# probes


def unit_probes(cs):
    """0 and the unit vectors scaled to one physical unit (exact rationals)"""
    probes = [[]]
    for j in range(cs.N):
        probes.append([[j, fr(1 / Fraction(float(cs.scale[j])))]])
    return probes


def random_probes(cs, rng, count):
    """decision vectors whose physical values are small dyadic numbers"""
    out = []
    for _ in range(count):
        phys = np.array([rng.randint(-32, 32) / 16 for _ in range(cs.N)])
        out.append(phys / cs.scale)
    return out


def wire_dense(Xv):
    return [[j, fr(float(x))] for j, x in enumerate(Xv) if x != 0]


# -------------------------------------------------------------------------------------------------
# multiset comparison of rows


def match_rows(ref, got, ref_b, got_b, subset=False, anysign=False):
    """ref, got: 2-D float arrays (rows x features); *_b: list of (lb, ub) per row.
    Returns None when the two are equal as multisets: 1e-9 relative to the entry's OWN magnitude,
    plus 1e-12 of the row scale for entries that cancel in binary64 (a coefficient of size 1e-9
    that differs by 1e-9 is therefore a difference), else a short description."""
    if ref.shape[0] != got.shape[0] and not subset:
        return "row count %d vs %d" % (ref.shape[0], got.shape[0])
    if got.shape[0] == 0 and ref.shape[0]:
        return "no candidate rows for %d reference rows" % ref.shape[0]
    if ref.shape[0] == 0:
        return None
    used = np.zeros(got.shape[0], dtype=bool)
    for r in range(ref.shape[0]):
        a = ref[r]
        rowmax = max(1.0, float(np.max(np.abs(a))) if a.size else 1.0)
        tol = 1e-9 * np.maximum(np.abs(a)[None, :], np.abs(got)) + 1e-12 * rowmax
        ok = np.all(np.abs(got - a[None, :]) <= tol, axis=1) & ~used
        if anysign:  # an equality row and its negative are the same equation
            ok = ok | (np.all(np.abs(got + a[None, :]) <= tol, axis=1) & ~used)
        for q in np.nonzero(ok)[0]:
            if tuple(ref_b[r]) == tuple(got_b[q]):
                used[q] = True
                break
        else:
            # closest unmatched row for the report
            d = np.max(np.abs(got - a[None, :]), axis=1)
            d[used] = np.inf
            q = int(np.argmin(d))
            return "row %d of the reference has no counterpart (closest candidate %d differs by %.3g; bounds %s vs %s)" % (
                r, q, float(d[q]), tuple(ref_b[r]), tuple(got_b[q]))
    return None


# -------------------------------------------------------------------------------------------------
# the independent oracle: the property statement in plain Python


def interp_own(mode, ts, fs, t):
    """documented interpolation of a variable given on its own stamps (clamped at the ends)"""
    if t <= ts[0]:
        return fs[0]
    if t >= ts[-1]:
        return fs[-1]
    j = bisect.bisect_right(ts, t) - 1
    if ts[j] == t:
        return fs[j]
    if mode == 1:
        return fs[j]
    if mode == 2:
        return fs[j + 1]
    return fs[j] + (fs[j + 1] - fs[j]) * (t - ts[j]) / (ts[j + 1] - ts[j])


def input_at(mode, ts, fs, t):
    """constant input series at time t: interpolated inside its range, 0 outside"""
    if t < ts[0] or t > ts[-1]:
        return Fraction(0)
    return interp_own(mode, ts, fs, t)


def hist_der(h, t0):
    """initial derivative of a non-differentiated variable from its history"""
    if h is None:
        return Fraction(0)
    t = [Fraction(x) for x in h["times"]]
    v = [Fraction(x) for x in h["values"]]
    if len(v) < 2 or t[0] == t0:
        return Fraction(0)
    return (v[-1] - v[-2]) / (t[-1] - t[-2])


def spec_rows(inst, traj, dinit):
    """theta-method residuals of the property statement.
    traj[m][v][i]: physical value of collocated variable v of member m at collocation time i;
    dinit[m][s]: initial derivative of state s.  Everything in Fractions."""
    ts = [Fraction(t) for t in inst["ts"]]
    t0 = ts[0]
    n = len(ts)
    th = Fraction(inst["theta"])
    ns, nv = inst["ns"], inst["ns"] + inst["na"] + inst["nc"]
    modes = inst.get("modes") or {}
    rows = []
    for m in range(inst["E"]):
        p = [Fraction(x) for x in inst["pvals"][m]]

        def c_at(i):
            out = []
            for j in range(inst["nci"]):
                s = inst["cin"][m][j]
                out.append(input_at(modes.get("c%d" % j, 0), [Fraction(x) for x in s["times"]],
                                    [Fraction(x) for x in s["values"]], ts[i]))
            return out

        z = lambda i: [traj[m][v][i] for v in range(nv)]  # noqa: E731
        # t0: F = 0 and the initial equations with the free initial derivatives (differentiated
        # states); algebraic states and controls: backward difference of the last two history
        # points when the history has at least two points, else 0
        hist = (inst.get("history") or [{}] * inst["E"])[m]
        d0 = [dinit[m][s] for s in range(ns)] + [hist_der(hist.get(v), t0) for v in S.var_names(inst)[ns:]]
        init = S.eval_eqs(inst["eqs"], z(0), d0, c_at(0), Fraction(0), p)
        init += (S.eval_eqs(inst["init_eqs"], z(0), d0, c_at(0), Fraction(0), p)
                 if inst.get("init_eqs") is not None else [Fraction(0)])
        rows.append(("init", m, init))
        if inst.get("pc"):
            # history probe: the t0 instance of a path constraint sees the same initial inputs
            rows.append(("pc", m, S.eval_eqs(inst["pc"], z(0), d0, c_at(0), Fraction(0), p)))
        for i in range(n - 1):
            dt = ts[i + 1] - ts[i]
            zd = [(traj[m][v][i + 1] - traj[m][v][i]) / dt for v in range(nv)]
            f0 = S.eval_eqs(inst["eqs"], z(i), zd, c_at(i), ts[i] - t0, p)
            f1 = S.eval_eqs(inst["eqs"], z(i + 1), zd, c_at(i + 1), ts[i + 1] - t0, p)
            rows.append(("step", m, i, [(1 - th) * a + th * b for a, b in zip(f0, f1)]))
    return rows


def decode(cs, Xv):
    """physical trajectories on the collocation grid from a decision vector, using only the
    recovered layout and nominals"""
    inst, L = cs.inst, cs.L
    ts = [Fraction(t) for t in inst["ts"]]
    n = len(ts)
    Xf = [Fraction(float(x)) for x in Xv]
    traj, dinit = [], []
    for m in range(inst["E"]):
        tm = []
        for v in cs.vs:
            inds = L["idx"][(m, v)]
            vals = [Fraction(L["nom"][v]) * Xf[j] for j in inds]
            o = (inst.get("own_times") or {}).get(v)
            if o is None:
                if len(vals) != n:
                    raise S.LayoutError("variable %s has %d entries for %d time stamps" % (v, len(vals), n))
                tm.append(vals)
            else:
                ot = [ts[i] for i in o]
                mode = (inst.get("modes") or {}).get(v, 0)
                tm.append([interp_own(mode, ot, vals, t) for t in ts])
        traj.append(tm)
        dinit.append([Fraction(L["dnom"][(m, s)]) * Xf[L["didx"][(m, s)]] for s in range(inst["ns"])])
    return traj, dinit


def oracle_values(cs, probes):
    """spec rows at each probe: arrays (rows x probes) of the model rows and of the t0
    path-constraint rows of the history probe"""
    cols, pcols = [], []
    for Xv in probes:
        traj, dinit = decode(cs, Xv)
        vals, pvals = [], []
        for r in spec_rows(cs.inst, traj, dinit):
            (pvals if r[0] == "pc" else vals).extend(r[-1])
        cols.append([float(x) for x in vals])
        pcols.append([float(x) for x in pvals])
    P = len(probes)
    main = np.array(cols, dtype=float).T.reshape((-1, P)) if cols else np.zeros((0, 0))
    pc = np.array(pcols, dtype=float).T.reshape((-1, P)) if pcols else np.zeros((0, 0))
    return main, pc


# -------------------------------------------------------------------------------------------------


def case_key(inst, affine):
    return (inst["kind"], inst["ns"], inst["na"], inst["nc"], inst["nci"], inst["npar"], inst["E"],
            len(inst["ts"]), inst["theta"], inst["ts"][0], affine, bool(inst.get("own_times")),
            inst.get("init_eqs") is not None)


def slim(inst):
    return inst


def shrunk(c, inst):
    """shrink the first few failing instances (bounded), keep the others as generated"""
    n = c.extra.setdefault("shrunk_failures", 0)
    if n >= 2:
        return inst
    c.extra["shrunk_failures"] = n + 1
    try:
        return shrink(inst)
    except Exception:
        return inst


def prepare(c, inst, rng, prob=None):
    """run the code on the instance, build the driver line; returns (case, line) or None"""
    try:
        cs = run_code(inst, prob)
    except Exception as e:  # a valid instance must transcribe
        c.fail("transcribe() raised %s on a valid synthetic instance" % type(e).__name__, slim(inst), repr(e)[:400])
        return None
    spec_aff = S.is_affine_spec(inst)
    if spec_aff and not cs.affine:
        c.disagree("g is not affine in X although the residual description is", slim(inst))
    cs.complete = cs.affine and spec_aff
    if cs.complete:
        cs.dense = random_probes(cs, rng, 4)
        probes = unit_probes(cs) + [wire_dense(x) for x in cs.dense]
    else:
        cs.dense = random_probes(cs, rng, cs.N + 5)
        probes = [wire_dense(x) for x in cs.dense]
    return cs, driver_line(cs, probes)


def compare(c, cs, out):
    inst = cs.inst
    c.count(case_key(inst, cs.complete))
    c.hit("kind/" + inst["kind"])
    c.hit("compare/" + ("complete(A,b)" if cs.complete else "probes"))
    c.hit("theta/%g" % inst["theta"])
    c.hit("E/%d" % inst["E"])
    c.hit("steps/%d" % (len(inst["ts"]) - 1))
    if inst.get("own_times"):
        c.hit("own-grid controls")
        if any(not v.startswith("u") for v in inst["own_times"]):
            c.hit("own-grid states/algebraics")
    if getattr(cs, "second", False):
        if getattr(cs, "cleared", False):
            c.hit("second transcribe() after clear_transcription_cache() (all parameters / inputs changed)")
        else:
            c.hit("second transcribe() on the same object (cached functions, dynamic parameters changed)")
    if inst.get("dyn"):
        c.hit("dynamic parameters")
    if inst.get("equidistant"):
        c.hit("equidistant flag set" + (" + own grid" if inst.get("own_times") else ""))
    if inst.get("npv") or inst.get("nev") or inst.get("nxc"):
        c.hit("path/extra variables or extra inputs present")
    if any(len(set(col)) < len(col) for col in zip(*inst["pvals"])) and inst["E"] > 1:
        c.hit("parameter coincidence between members")
    for j in range(inst["nci"]):
        st, grid = list(inst["cin"][0][j]["times"]), list(inst["ts"])
        used = any(f == ["c", j] for eq in inst["eqs"] for _c, facs in eq["t"] for f in facs)
        if st == grid:
            c.hit("constant input stamps/the grid")
        elif st[0] == grid[0] and st[-1] == grid[-1]:
            c.hit("constant input stamps/own, same first and last stamp, %s count%s"
                  % ("same" if len(st) == len(grid) else "other", " (in the residual)" if used else ""))
        else:
            c.hit("constant input stamps/own, other end points")
    c.sample({"kind": inst["kind"], "sizes": [inst["ns"], inst["na"], inst["nc"], inst["nci"], inst["npar"]],
              "E": inst["E"], "ts": inst["ts"], "theta": inst["theta"], "rows": cs.R, "N": cs.N,
              "eqs": inst["eqs"][:2]})
    code_b = list(zip(cs.lb.tolist(), cs.ub.tolist()))
    gd = np.array([g_at(cs, x) for x in cs.dense]).T if cs.R else np.zeros((0, len(cs.dense)))
    # rows of g that belong to the model: all of them, except (history probe only) the rows of
    # the probe's path constraint, which carry the bounds (-7, 9)
    pcpos = pc_positions(inst)
    if pcpos:
        c.hit("history probe (initial derivatives of algebraics/controls)")
        pcb = tuple(float(x) for x in inst["pc_bounds"])
        code_pc = [r for r in range(cs.R) if code_b[r] == pcb]
        code_main = [r for r in range(cs.R) if code_b[r] != pcb]
    else:
        code_pc, code_main = [], list(range(cs.R))

    def sel(M, rows):
        return M[rows, :] if len(rows) else np.zeros((0, M.shape[1]))

    def split(M, bounds):
        """(main rows, pc rows) of a model / oracle row matrix in the model's row order"""
        main = [r for r in range(M.shape[0]) if r not in set(pcpos)]
        return (sel(M, main), [bounds[r] for r in main]), (sel(M, pcpos), [bounds[r] for r in pcpos])

    def both(M, bounds, C, what_main, what_pc, report, parts=None):
        (Mm, bm), (Mp, _bp) = parts if parts is not None else split(M, bounds)
        anys = bool(inst.get("anysign"))
        why = match_rows(Mm, sel(C, code_main), bm, [code_b[r] for r in code_main], anysign=anys)
        if why:
            report(what_main + why)
        elif pcpos:
            why = match_rows(Mp, sel(C, code_pc), [pcb] * len(pcpos), [code_b[r] for r in code_pc], subset=True)
            if why:
                report(what_pc + why)

    # ---- independent oracle: the property statement on decoded trajectories vs the real g
    try:
        ov = oracle_values(cs, cs.dense)
    except S.LayoutError as e:
        c.disagree("layout could not be decoded: %s" % e, slim(inst))
        ov = None
    if ov is not None:
        om, op = ov
        both(None, None, gd,
             "rows of g are not the theta-method residuals (missing / extra / mis-weighted / mis-timed row): ",
             "initial derivatives handed to the t0 instance differ from the specification: ",
             lambda why: c.fail(why, shrunk(c, inst), {"rows_spec": int(om.shape[0]), "rows_g": int(cs.R),
                                                        "note": "case = shrunk instance when shrinking succeeded"}),
             parts=((om, [(0.0, 0.0)] * om.shape[0]), (op, None)))
    # ---- correspondence with the Lean model
    if out is None:
        return
    if not isinstance(out, dict):
        c.disagree("model driver rejected the instance", slim(inst), out)
        return
    mb = [(float(Fraction(a)), float(Fraction(b))) for a, b in zip(out["lb"], out["ub"])]
    vals = [[Fraction(x) for x in row] for row in out["vals"]]
    if cs.complete:
        nu = cs.N + 1
        b_m = vals[0]
        R = len(b_m)
        A_m = np.zeros((R, cs.N))
        for j in range(cs.N):
            col = vals[1 + j]
            for r in range(R):
                A_m[r, j] = float(col[r] - b_m[r])
        M = np.hstack([np.array([float(x) for x in b_m]).reshape(R, 1), A_m])
        if cs.R:
            Cm = np.hstack([cs.b.reshape(-1, 1), cs.A / cs.scale[None, :]])
        else:
            Cm = np.zeros((0, cs.N + 1))
        both(M, mb, Cm, "affine system (A, b, lbg, ubg) differs: ", "affine t0 path-constraint rows differ: ",
             lambda why: c.disagree(why, slim(inst)))
        dv = vals[nu:]
    else:
        dv = vals
    Md = np.array([[float(x) for x in row] for row in dv], dtype=float).T if dv and len(dv[0]) else np.zeros((0, len(cs.dense)))
    both(Md, mb, gd, "row values at probe decision vectors differ: ", "t0 path-constraint row values differ: ",
         lambda why: c.disagree(why, slim(inst)))


# -------------------------------------------------------------------------------------------------
# shrinking of a failing instance (oracle only; bounded)


def oracle_fails(inst, seed=12345):
    """does the independent oracle (or transcribe itself) fail on this instance?"""
    import random

    try:
        cs = run_code(copy.deepcopy(inst))
    except Exception:
        return True
    rng = random.Random(seed)
    cs.dense = random_probes(cs, rng, 4 if S.is_affine_spec(inst) else cs.N + 5)
    gd = np.array([g_at(cs, x) for x in cs.dense]).T if cs.R else np.zeros((0, len(cs.dense)))
    code_b = list(zip(cs.lb.tolist(), cs.ub.tolist()))
    try:
        om, op = oracle_values(cs, cs.dense)
    except Exception:
        return True
    pcb = tuple(float(x) for x in (inst.get("pc_bounds") or (-7.0, 9.0)))
    has_pc = bool(inst.get("pc"))
    main = [r for r in range(cs.R) if not (has_pc and code_b[r] == pcb)]
    pcs = [r for r in range(cs.R) if has_pc and code_b[r] == pcb]
    sel = lambda M, rows: M[rows, :] if len(rows) else np.zeros((0, M.shape[1]))  # noqa: E731
    if match_rows(om, sel(gd, main), [(0.0, 0.0)] * om.shape[0], [code_b[r] for r in main], anysign=bool(inst.get("anysign"))):
        return True
    if has_pc and match_rows(op, sel(gd, pcs), [pcb] * op.shape[0], [pcb] * len(pcs), subset=True):
        return True
    return False


def shrink(inst, budget=60):
    """greedy reduction of a failing instance: fewer members, stamps, equations, terms; unit
    nominals; no extras.  Every candidate is re-checked with the oracle on the real code."""
    cur = copy.deepcopy(inst)
    used = [0]

    def attempt(cand):
        if used[0] >= budget:
            return False
        used[0] += 1
        try:
            return oracle_fails(cand)
        except Exception:
            return False

    def variants(x):
        # drop a member
        for m in range(x["E"] - 1, -1, -1):
            if x["E"] > 1:
                y = copy.deepcopy(x)
                y["E"] -= 1
                for key in ("pvals", "cin", "history"):
                    if y.get(key):
                        del y[key][m]
                yield y
        # fewer stamps
        if len(x["ts"]) > 2:
            y = copy.deepcopy(x)
            y["ts"] = y["ts"][:-1]
            y["own_times"] = {}
            yield y
        for key, val in (("init_eqs", None), ("own_times", {}), ("npv", 0), ("nev", 0), ("nxc", 0), ("dyn", []),
                         ("modes", {}), ("again", False)):
            if x.get(key):
                y = copy.deepcopy(x)
                y[key] = val
                yield y
        if any(v != 1.0 for v in x["nom"].values()):
            y = copy.deepcopy(x)
            y["nom"] = {k: 1.0 for k in y["nom"]}
            yield y
        if not x.get("pc") and any(x.get("history") or []):
            y = copy.deepcopy(x)
            y["history"] = [{} for _ in range(y["E"])]
            yield y
        for e in range(len(x["eqs"]) - 1, -1, -1):
            if len(x["eqs"]) > 1:
                y = copy.deepcopy(x)
                del y["eqs"][e]
                yield y
        for e in range(len(x["eqs"])):
            for t in range(len(x["eqs"][e]["t"]) - 1, -1, -1):
                y = copy.deepcopy(x)
                del y["eqs"][e]["t"][t]
                yield y

    progress = True
    while progress and used[0] < budget:
        progress = False
        for cand in variants(cur):
            if attempt(cand):
                cur = cand
                progress = True
                break
    return cur


def solve_and_check(c, cs):
    """real optimize() with the trivial objective; the spec residual on extract_results()"""
    inst = cs.inst
    prob = cs.prob
    try:
        with quiet_fd(), warnings.catch_warnings():
            warnings.simplefilter("ignore")
            ok = prob.optimize()
    except Exception as e:
        c.hit("solve/raised")
        c.notes.append("optimize() raised %s on a solve instance" % type(e).__name__) if len(c.notes) < 3 else None
        return
    if not ok:
        c.hit("solve/not-successful (skipped)")
        return
    c.hit("solve/success")
    n = len(inst["ts"])
    ts = [Fraction(t) for t in inst["ts"]]
    traj, dinit = [], []
    big = 1.0
    for m in range(inst["E"]):
        res = prob.extract_results(m)
        tm = []
        for v in cs.vs:
            vals = [Fraction(float(x)) for x in np.asarray(res[v]).ravel()]
            o = (inst.get("own_times") or {}).get(v)
            if o is not None:
                ot = [ts[i] for i in o]
                vals = [interp_own((inst.get("modes") or {}).get(v, 0), ot, vals, t) for t in ts]
            if len(vals) != n:
                c.fail("extract_results: %s has %d values for %d time stamps" % (v, len(vals), n), slim(inst))
                return
            big = max(big, max(abs(float(x)) for x in vals))
            tm.append(vals)
        traj.append(tm)
        dinit.append([Fraction(float(np.asarray(res["initial_der(%s)" % cs.vs[s]]).ravel()[0])) for s in range(inst["ns"])])
        big = max([big] + [abs(float(x)) for x in dinit[-1]])
    # result extraction: the returned trajectories are the decoded solver output (nominal * X[index])
    try:
        dtraj, ddinit = decode(cs, np.asarray(prob.solver_output).ravel())
        for m in range(inst["E"]):
            for a, b in zip([x for tr in traj[m] for x in tr] + dinit[m], [x for tr in dtraj[m] for x in tr] + ddinit[m]):
                if abs(float(a) - float(b)) > 1e-12 * max(1.0, abs(float(b))):
                    c.fail("extract_results differs from nominal * solver_output at the recovered indices", slim(inst),
                           {"member": m, "extracted": float(a), "decoded": float(b)})
                    return
    except S.LayoutError:
        pass
    worst = 0.0
    where = None
    for r in spec_rows(inst, traj, dinit):
        for e, x in enumerate(r[-1]):
            if abs(float(x)) > worst:
                worst, where = abs(float(x)), (r[:-1], e)
    c.count(("solve",) + case_key(inst, True))
    if worst > 1e-6 * 64 * big:
        c.fail("trajectory returned by a successful solve violates the theta-method residual", slim(inst),
               {"residual": worst, "at": where, "scale": big})


# -------------------------------------------------------------------------------------------------

# F1 (fixed in 1c868dc): parameters (1.0, 2.0) and (0.0, 5.0) over two members
CORPUS = [
    dict(kind="affine", ns=1, na=1, nc=1, nci=1, npar=2, E=2, ts=[0.0, 1.0, 2.0], theta=1.0,
         nom={"x0": 1.0, "a0": 1.0, "u0": 1.0}, pvals=[[1.0, 0.0], [2.0, 5.0]],
         cin=[[{"times": [0.0, 1.0, 2.0], "values": [1.0, 1.0, 1.0]}], [{"times": [0.0, 1.0, 2.0], "values": [1.0, 1.0, 1.0]}]],
         modes={}, eqs=[{"c": 0.0, "t": [[1.0, [["d", 0]]], [1.0, [["p", 0], ["v", 0]]], [-1.0, [["v", 2]]], [-1.0, [["c", 0]]]]},
                        {"c": 0.0, "t": [[1.0, [["v", 1]]], [-1.0, [["v", 0]]], [-1.0, [["p", 1]]]]}],
         init_eqs=None, history=[{}, {}], own_times={}, bounds={}),
    dict(kind="affine", ns=1, na=0, nc=0, nci=0, npar=1, E=3, ts=[3.0, 3.5, 5.5], theta=0.25,
         nom={"x0": 10.0}, pvals=[[0.0], [0.0], [5.0]], cin=[[], [], []], modes={},
         eqs=[{"c": 1.0, "t": [[1.0, [["d", 0]]], [0.5, [["p", 0], ["v", 0]]]]}],
         init_eqs=None, history=[{}, {}, {}], own_times={}, bounds={}),
    # the instance of the non-vacuity example in Props/C01.lean
    dict(kind="affine", ns=1, na=0, nc=1, nci=1, npar=1, E=2, ts=[0.0, 1.0, 3.0], theta=0.25,
         nom={"x0": 2.0, "u0": 0.5}, pvals=[[1.0], [2.0]],
         cin=[[{"times": [0.0, 3.0], "values": [1.0, 4.0]}], [{"times": [0.0, 3.0], "values": [1.0, 5.0]}]], modes={},
         eqs=[{"c": 0.0, "t": [[1.0, [["d", 0]]], [1.0, [["p", 0], ["v", 0]]], [-1.0, [["v", 1]]], [-1.0, [["c", 0]]], [1.0, [["t"]]]]}],
         init_eqs=[{"c": -5.0, "t": [[1.0, [["v", 0]]]]}], history=[{}, {}], own_times={}, bounds={}),
    # F36 (fixed in 5a48f10): algebraic state with history [1.5, -4.5, 1.75] at [-2, -1, 0]
    dict(kind="affine", ns=1, na=1, nc=0, nci=0, npar=0, E=1, ts=[0.0, 1.0, 2.0], theta=1.0,
         nom={"x0": 1.0, "a0": 1.0}, pvals=[[]], cin=[[]], modes={},
         eqs=[{"c": 0.0, "t": [[1.0, [["d", 0]]], [1.0, [["v", 0]]]]}, {"c": 0.0, "t": [[1.0, [["v", 1]]], [-1.0, [["v", 0]]]]}],
         init_eqs=None, history=[{"a0": {"times": [-2.0, -1.0, 0.0], "values": [1.5, -4.5, 1.75]}}], own_times={}, bounds={},
         pc=[{"c": 0.0, "t": [[1.0, [["D", 1]]]]}], pc_bounds=(-7.0, 9.0)),
]


FORCED_PARAMS = [
    [1e-9, 3e-9, 5e-10], [2.0, 2.00001], [1.0, 2.0], [0.0, 5.0], [2.0, 2.0, 2.0 + 1e-8], [0.5, 0.5, 0.5000005, 0.5],
    [1e-9, 1e-9, 3e-9], [0.0, 1e-9], [1.0, 1.0 + 2 ** -40],
]


def stream_effpar(c, rng, count):
    """which parameter value does the residual of member m see?  Observed EXACTLY on the real code:
    a one-variable problem whose residual is the parameter vector itself (theta = 1), so every row
    of g is a constant equal to the value member m's residual was given; compared as exact
    multisets with the model's `effPar` and with the member's own values (the property)."""
    cases, lines = [], []
    for k in range(count):
        if k < len(FORCED_PARAMS):
            cols = [list(FORCED_PARAMS[k])]
            E = len(cols[0])
            for _ in range(rng.randint(0, 2)):
                cols.append(S.gen_param_values(rng, E)[0])
        else:
            E = rng.randint(2, 4)
            cols = [S.gen_param_values(rng, E)[0] for _ in range(rng.randint(1, 4))]
        npar = len(cols)
        t0 = rng.choice(S.T0S)
        ts = [t0 + i * 0.5 for i in range(rng.randint(2, 3))]
        inst = dict(kind="effpar", ns=0, na=1, nc=0, nci=0, npar=npar, E=E, ts=ts, theta=1.0, nom={"a0": 1.0},
                    pvals=[list(r) for r in zip(*cols)], cin=[[] for _ in range(E)], modes={},
                    eqs=[{"c": 0.0, "t": [[1.0, [["p", j]]]]} for j in range(npar)], init_eqs=None,
                    history=[{} for _ in range(E)], own_times={}, bounds={},
                    dyn=sorted(j for j in range(npar) if rng.random() < 0.2))
        cases.append(inst)
        lines.append(dict(op="effpar", E=E, npar=npar, pvals=[[fr(x) for x in row] for row in inst["pvals"]],
                          dyn=[(j in inst["dyn"]) for j in range(npar)]))
    outs = c.model(lines)
    for k, inst in enumerate(cases):
        c.count(("effpar", inst["E"], inst["npar"], tuple(tuple(r) for r in inst["pvals"])))
        c.hit("effpar stream (exact)")
        try:
            cs = run_code(inst)
            b = g_at(cs, np.zeros(cs.N))
            b2 = g_at(cs, np.ones(cs.N))
        except Exception as e:
            c.fail("transcribe() raised %s on a valid synthetic instance" % type(e).__name__, inst, repr(e)[:300])
            continue
        n = len(inst["ts"])
        got = sorted(Fraction(float(x)) for x in b)
        own = sorted([Fraction(float(v)) for row in inst["pvals"] for v in row] * n + [Fraction(0)] * inst["E"])
        if list(b) != list(b2) or got != own:
            c.fail("a member's residual was given another value than that member's own parameter value "
                   "(rows of the parameter-only residual, exact)", inst,
                   {"rows": [float(x) for x in b], "own": [float(x) for x in own]})
        if outs is not None:
            eff = outs[k]["eff"] if isinstance(outs[k], dict) else None
            model = None if eff is None else sorted([Fraction(x) for row in eff for x in row] * n + [Fraction(0)] * inst["E"])
            if model != got:
                c.disagree("effective parameter values (exact multiset)", inst, eff, [float(x) for x in b])


def run_batch(c, insts, rng, solve=False):
    prepared = []
    for inst in insts:
        p = prepare(c, inst, rng)
        if p is not None:
            prepared.append(p)
            if inst.get("again"):
                # second transcribe() of the same object: cached residual functions are reused;
                # the values of the parameters declared dynamic have changed in between
                cs1 = p[0]
                cs1.inst = copy.deepcopy(inst)
                cleared = inst["again"] == "clear"
                if cleared:
                    # clear_transcription_cache() in between: EVERY parameter (ensemble-constant ones too, also
                    # moving between "constant over the ensemble" and "per member") and the constant-input values
                    # may have changed; the next transcription must equal that of a fresh object with the new data
                    cs1.prob.clear_transcription_cache()
                    for j in range(inst["npar"]):
                        if j in (inst.get("ptiny") or []):
                            continue  # tiny values paired with huge coefficients keep their magnitude
                        r = rng.random()
                        if r < 0.45:
                            v = S.dy(rng)
                            for m in range(inst["E"]):
                                inst["pvals"][m][j] = v  # constant over the ensemble (before and/or after)
                        elif r < 0.8:
                            for m in range(inst["E"]):
                                if m == 0 or rng.random() < 0.7:
                                    inst["pvals"][m][j] = S.dy(rng)
                    for m in range(inst["E"]):
                        for ser in inst["cin"][m]:
                            if rng.random() < 0.5:
                                ser["values"] = [S.dy(rng) for _ in ser["values"]]
                else:
                    for j in inst.get("dyn") or []:
                        for m in range(inst["E"]):
                            if m == 0 or rng.random() < 0.7:
                                inst["pvals"][m][j] = S.dy(rng)
                q = prepare(c, inst, rng, prob=cs1.prob)
                if q is not None:
                    q[0].inst = copy.deepcopy(inst)
                    q[0].second = True
                    q[0].cleared = cleared
                    prepared.append(q)
                    if cleared:
                        # history-free reference: a fresh object built with the new data
                        try:
                            fresh = run_code(copy.deepcopy(inst))
                            same = fresh.R == q[0].R and fresh.N == q[0].N and all(
                                np.allclose(g_at(fresh, x), g_at(q[0], x), rtol=1e-9, atol=1e-9) for x in q[0].dense)
                            bsame = same and np.array_equal(fresh.lb, q[0].lb) and np.array_equal(fresh.ub, q[0].ub)
                        except Exception as e:
                            c.fail("transcribe() of a fresh object raised %s" % type(e).__name__, slim(inst), repr(e)[:300])
                            bsame = True
                        if not bsame:
                            c.fail("transcribe() after clear_transcription_cache() differs from the transcription of a "
                                   "fresh object with the same (new) data: equality rows / bounds", slim(inst),
                                   {"rows_second": [float(v) for v in g_at(q[0], q[0].dense[0])][:12],
                                    "rows_fresh": [float(v) for v in g_at(fresh, q[0].dense[0])][:12]})
    outs = c.model([line for _cs, line in prepared]) if prepared else []
    for k, (cs, _line) in enumerate(prepared):
        compare(c, cs, None if outs is None else outs[k])
        if solve and cs.inst["kind"] == "solve":
            solve_and_check(c, cs)
    c.programs += len(prepared)


def run(c):
    c.rule = (
        "random synthetic DAEs (0-3 states [thorough: up to 8], algebraics, 0-3 controls, 0-3 constant inputs on their "
        "own stamps (the grid itself; own stamps inside the horizon with the same first / last stamp as the grid and "
        "the same or another count, e.g. equidistant on a non-equidistant grid; wider windows; series that do not "
        "cover the horizon) with the three interpolation modes, 0-4 parameters some "
        "declared dynamic; sparse dyadic polynomial residuals (affine; x*p, x*c, x*t; nonlinear x^2, x*u, x*der), "
        "optional initial equations, optional complete histories, optional path/extra variables and extra inputs that "
        "are not part of the DAE), grids of 1-6 [12] non-equidistant steps (rarely a single stamp), t0 in {0, 3, -2.5}, "
        "theta in {0, 1/4, 1/2, 3/4, 1, 0.3}, E in 1..4 with forced coincidences between members and forced 0/1 "
        "values, nominals 2^-10..1e4 (powers of two and decimals); streams: main, variables on a coarser grid of their "
        "own, second transcribe() of the same object with changed dynamic parameters, second transcribe() after "
        "clear_transcription_cache() with every parameter / constant input changed (compared with the specification and "
        "with a fresh object), history probe (initial "
        "derivatives of algebraics/controls observed through the t0 instance of a path constraint), constant inputs "
        "forced into the residual on own stamps that share only count and end points with the grid, real solves.  "
        "distinct = (kind, sizes, E, #stamps, theta, t0, complete/probe comparison, own grids, initial equations) tuples"
    )
    c.assumptions = [
        "CasADi evaluates the residual function F, `map`, `reshape`, `jacobian`, `reduce_matvec`, `interp1d` as documented "
        "(F and Finit are parameters of the theorems; the interpolants are the C19 model)",
        "integrate_states = True (single shooting) is outside the model: there are no collocation rows to characterise",
        "lookup tables substituted inside F are part of F (not modelled separately)",
        "IPOPT returns a point within lbg/ubg to its tolerance when it reports success (theorem "
        "C01_feasible_satisfies_residuals turns that into the residual bound)",
        "rows compared with 1e-9 relative tolerance (binary64 vs exact rationals; quotients by dt and nominals are formed)",
        "delay rows, user constraints, path constraints and history-derived initial-derivative rows (NaN at t0) are other "
        "properties' rows (C16, C06, C05); the synthetic problems contain none, except the one path constraint of the "
        "history probe, whose rows are recognised by their bounds (-7, 9)",
        "non-dynamic parameter values are frozen in the cached residual function after the first transcribe() "
        "(documented contract of dynamic_parameters / clear_transcription_cache); the second-transcribe stream changes "
        "dynamic parameters only",
        "ModelicaMixin (how F, parameters, inputs and nominals are obtained from a .mo file) is covered by C14/C13, not here",
    ]
    from .translate_c01 import gen_colloc_kernels, gen_colloc_plumbing

    # + kernels and plumbing of transcribe() (and reduce_matvec) translated from the source
    c.prove(extra=gen_colloc_kernels(c) + gen_colloc_plumbing(c))
    rng = c.rng
    run_batch(c, [dict(x) for x in CORPUS], rng)
    n_main = c.n(60, 500)
    n_own = c.n(16, 100)
    n_solve = c.n(10, 60)
    insts = [S.gen_instance(rng, big=c.big and rng.random() < 0.3) for _ in range(n_main)]
    for inst in insts:
        if rng.random() < 0.2:
            inst["again"] = True
    own = []
    while len(own) < n_own:
        inst = S.gen_instance(rng, kind=rng.choice(["affine", "nonlinear"]))
        if inst["nc"] == 0:
            inst["nc"] = 1
            inst["nom"]["u0"] = rng.choice(S.NOMS)
            inst["history"] = [{} for _ in range(inst["E"])]
        if S.add_own_times(rng, inst):
            inst["equidistant"] = rng.random() < 0.6
            own.append(inst)
    # one member, every parameter dynamic, transcribed twice with changed values: a dynamic parameter
    # must never be frozen in the cached residual function, also when the ensemble has one member
    single = []
    while len(single) < c.n(5, 30):
        inst = S.gen_instance(rng, kind=rng.choice(["affine", "nonlinear"]))
        if inst["npar"] == 0 or not inst["eqs"] or len(inst["ts"]) < 2:
            continue
        inst["E"] = 1
        for key in ("pvals", "cin", "history"):
            inst[key] = inst[key][:1]
        inst["dyn"] = list(range(inst["npar"]))
        inst["eqs"][0]["t"].append([S.dy(rng), [["p", 0], ["v", 0]]])
        inst["again"] = True
        single.append(inst)
    # transcribe, clear_transcription_cache(), change ensemble-constant / per-member parameters and inputs, transcribe
    # again: every row (the t0 rows with the free initial derivatives included) must be that of a fresh object
    reclear = []
    while len(reclear) < c.n(8, 50):
        inst = S.gen_instance(rng, kind=rng.choice(["affine", "nonlinear"]))
        if inst["npar"] == 0 or not inst["eqs"]:
            continue
        j = rng.randrange(inst["npar"])
        if rng.random() < 0.6:
            for m in range(inst["E"]):
                inst["pvals"][m][j] = inst["pvals"][0][j]  # constant over the ensemble: inlined in the cached functions
        inst["dyn"] = [q for q in (inst.get("dyn") or []) if q != j] if rng.random() < 0.8 else list(inst.get("dyn") or [])
        inst["eqs"][0]["t"].append([S.dy(rng), [["p", j], ["v", 0]]] if rng.random() < 0.6 else [S.dy(rng), [["p", j]]])
        inst["again"] = "clear"
        reclear.append(inst)
    hist = []
    while len(hist) < c.n(14, 80):
        inst = S.gen_instance(rng, kind=rng.choice(["affine", "nonlinear"]))
        if inst["na"] + inst["nc"] == 0:
            continue
        hist.append(S.add_history_probe(rng, inst))
    # constant inputs on their OWN stamps sharing only the count and the end points with the (non-equidistant)
    # grid, the input forced into the residual: the rows must see the series interpolated AT the collocation times
    cown = []
    while len(cown) < c.n(8, 60):
        inst = S.gen_instance(rng, kind=rng.choice(["affine", "nonlinear"]))
        if inst["nci"] == 0 or not inst["eqs"] or len(inst["ts"]) < 3:
            continue
        j = rng.randrange(inst["nci"])
        times = S.own_stamps_same_ends(rng, inst["ts"])
        if len(cown) % 2 == 0 and len(times) != len(inst["ts"]):
            continue
        cols = list(zip(*[S.gen_values(rng, inst["E"], lambda: S.dy(rng)) for _ in times]))
        if all(len(set(col)) == 1 for col in cols):
            continue  # a series that is constant in time cannot show where it is evaluated
        for m in range(inst["E"]):
            inst["cin"][m][j] = {"times": times, "values": list(cols[m])}
        inst["eqs"][0]["t"].append([S.dy(rng), [["c", j]]])
        cown.append(inst)
    mo = [MO.gen(rng, rng.choice(sorted(MO.MODELS))) for _ in range(c.n(3, 12))]
    sol = [S.gen_instance(rng, kind="solve") for _ in range(n_solve)]
    for inst in sol[: n_solve // 3]:
        S.add_own_times(rng, inst)
    # batches keep the driver input small
    allinst = insts + own + hist + cown + reclear + mo + single
    for k in range(0, len(allinst), 40):
        run_batch(c, allinst[k:k + 40], rng)
    run_batch(c, sol, rng, solve=True)
    stream_effpar(c, rng, c.n(24, 300))
    c.exhaustive = False
    c.notes.append("affine instances: complete comparison of (A, b, lbg, ubg); nonlinear ones at N+5 probes; "
                   "the unbounded claim is carried by the theorems")


def replay(c, rp):
    from .translate_c01 import gen_colloc_kernels, gen_colloc_plumbing

    # + kernels and plumbing of transcribe() (and reduce_matvec) translated from the source
    c.prove(extra=gen_colloc_kernels(c) + gen_colloc_plumbing(c))
    insts = []
    for f in rp.get("failures", []) + rp.get("correspondence_disagreements", []) + rp.get("disagreements", []):
        if f and isinstance(f.get("case"), dict) and "eqs" in f["case"]:
            print("replaying:", f["what"][:200])
            insts.append(f["case"])
    run_batch(c, insts, c.rng, solve=True)
