"""
C01 integration probe: the same row comparison on problems whose DAE comes from a Modelica file
through `ModelicaMixin` (pymoca), so that the residual, the parameter / constant-input stores and
the nominals of the *real* front end are what gets transcribed.  Two small hand-written models;
their residual is re-stated by hand (by variable name) for the model driver and the oracle.
Rows are compared up to the sign of a row (`lhs - rhs` vs `rhs - lhs` are the same equation).
"""
import os
import shutil
import tempfile

import numpy as np

MODELS = {
    "C01A": dict(
        text="""
model C01A
  Real x(start = 1.0, nominal = 10.0);
  Real w;
  Real y(nominal = 0.25);
  input Real u(fixed = false, min = -5.0, max = 5.0, nominal = 2.0);
  input Real c(fixed = true);
  parameter Real p = 0.5;
  parameter Real q = 3.0;
equation
  der(x) = -p * x + u + c;
  der(w) = x - q * w;
  y = x + w * p;
end C01A;
""",
        params={"p": 0.5, "q": 3.0}, inputs=["c"],
        # residuals as lhs - rhs, by name
        eqs=[
            {"c": 0.0, "t": [[1.0, ["d:x"]], [1.0, ["p:p", "v:x"]], [-1.0, ["v:u"]], [-1.0, ["c:c"]]]},
            {"c": 0.0, "t": [[1.0, ["d:w"]], [-1.0, ["v:x"]], [1.0, ["p:q", "v:w"]]]},
            {"c": 0.0, "t": [[1.0, ["v:y"]], [-1.0, ["v:x"]], [-1.0, ["v:w", "p:p"]]]},
        ],
    ),
    "C01B": dict(
        text="""
model C01B
  Real h(nominal = 100.0);
  Real qout;
  input Real qin(fixed = false, min = 0.0, max = 10.0);
  input Real rain(fixed = true);
  parameter Real area = 4.0;
  parameter Real k = 0.125;
equation
  area * der(h) = qin + rain - qout;
  qout = k * h * h;
end C01B;
""",
        params={"area": 4.0, "k": 0.125}, inputs=["rain"],
        eqs=[
            {"c": 0.0, "t": [[1.0, ["p:area", "d:h"]], [-1.0, ["v:qin"]], [-1.0, ["c:rain"]], [1.0, ["v:qout"]]]},
            {"c": 0.0, "t": [[1.0, ["v:qout"]], [-1.0, ["p:k", "v:h", "v:h"]]]},
        ],
    ),
}


def gen(rng, name):
    """instance skeleton (names are resolved against the compiled model in `build`)"""
    from . import c01_synth as S

    E = rng.choice([1, 2, 3])
    t0 = rng.choice(S.T0S)
    ts = [t0]
    for _ in range(rng.randint(1, 5)):
        ts.append(ts[-1] + rng.choice(S.STEPS))
    spec = MODELS[name]
    pv, cin = [], []
    for m in range(E):
        d = {}
        for n, default in spec["params"].items():
            r = rng.random()
            d[n] = default if r < 0.4 else (rng.choice([0.0, 1.0]) if r < 0.55 else abs(S.dy(rng)) + 0.5)
        if m > 0 and rng.random() < 0.3:
            d = dict(pv[0])
        elif m > 0 and rng.random() < 0.4:
            # near-coincidence with member 0 (relative 1e-6 .. 1e-5): must not be merged
            d = {n: (v * (1.0 + rng.choice(S.NEAR_REL)) if v != 0 else 1e-9) for n, v in pv[0].items()}
        pv.append(d)
        cin.append({n: {"times": list(ts), "values": [S.dy(rng) for _ in ts]} for n in spec["inputs"]})
    return dict(kind="modelica", modelica=name, E=E, ts=ts, theta=rng.choice(S.THETAS),
                pv_by_name=pv, cin_by_name=cin)


def build(inst):
    """compile the model, build the problem, complete the instance (sizes, names, index-based
    residual description, per-member parameter values and input series); returns the problem"""
    import logging
    import warnings

    from rtctools.optimization.collocated_integrated_optimization_problem import (
        CollocatedIntegratedOptimizationProblem,
    )
    from rtctools.optimization.timeseries import Timeseries

    with warnings.catch_warnings():
        warnings.simplefilter("ignore")
        from rtctools.optimization.modelica_mixin import ModelicaMixin

    logging.getLogger("rtctools").setLevel(logging.CRITICAL)
    logging.getLogger("pymoca").setLevel(logging.CRITICAL)
    spec = MODELS[inst["modelica"]]
    folder = tempfile.mkdtemp(prefix="c01_mo_")
    try:
        with open(os.path.join(folder, inst["modelica"] + ".mo"), "w") as f:
            f.write(spec["text"])
        times = np.array(inst["ts"], dtype=float)

        class P(ModelicaMixin, CollocatedIntegratedOptimizationProblem):
            def times(self, variable=None):
                return times

            @property
            def theta(self):
                return inst["theta"]

            @property
            def ensemble_size(self):
                return inst["E"]

            def compiler_options(self):
                o = super().compiler_options()
                o["cache"] = False
                return o

            def parameters(self, ensemble_member):
                p = super().parameters(ensemble_member)
                for k, v in inst["pv_by_name"][ensemble_member].items():
                    p[k] = v
                return p

            def constant_inputs(self, ensemble_member):
                d = super().constant_inputs(ensemble_member)
                for k, s in inst["cin_by_name"][ensemble_member].items():
                    d[k] = Timeseries(np.array(s["times"], dtype=float), np.array(s["values"], dtype=float))
                return d

            def map_options(self):
                return {"mode": "unroll"}

        prob = P(model_folder=folder, model_name=inst["modelica"])
    finally:
        shutil.rmtree(folder, ignore_errors=True)
    dv = prob.dae_variables
    xs = [v.name() for v in dv["states"]]
    al = [v.name() for v in dv["algebraics"]]
    us = [v.name() for v in dv["control_inputs"]]
    cs = [v.name() for v in dv["constant_inputs"]]
    ps = [v.name() for v in dv["parameters"]]
    inst["names"] = {"xs": xs, "al": al, "us": us}
    inst.update(ns=len(xs), na=len(al), nc=len(us), nci=len(cs), npar=len(ps))
    vs = xs + al + us
    inst["pvals"] = [[float(inst["pv_by_name"][m][n]) for n in ps] for m in range(inst["E"])]
    inst["cin"] = [[inst["cin_by_name"][m][n] for n in cs] for m in range(inst["E"])]
    inst["nom"] = {v: float(prob.variable_nominal(v)) for v in vs}
    inst["modes"] = {}
    inst["history"] = [{} for _ in range(inst["E"])]
    inst["own_times"] = {}
    inst["dyn"] = []

    def fac(s):
        k, n = s.split(":")
        if k == "v":
            return ["v", vs.index(n)]
        if k == "d":
            return ["d", xs.index(n)]
        if k == "c":
            return ["c", cs.index(n)]
        if k == "p":
            return ["p", ps.index(n)]
        return ["t"]

    inst["eqs"] = [{"c": eq["c"], "t": [[co, [fac(f) for f in facs]] for co, facs in eq["t"]]} for eq in spec["eqs"]]
    inst["init_eqs"] = []  # ModelicaMixin: no initial equations in these models (initial residual is empty)
    inst["anysign"] = True
    return prob
