"""
Synthetic DAE problems for C01 (no Modelica): a class deriving directly from
`CollocatedIntegratedOptimizationProblem` whose model (numbers of states / algebraics / controls /
constant inputs / parameters, polynomial residual, initial equations, per-member parameters and
constant-input series, nominals, grid, theta, interpolation modes, own control grids, history) is
given by a plain instance dictionary.  Plus: instance generator, exact (Fraction) evaluation of the
residual description, layout recovery through the public API.

An instance is a JSON-able dict; all numbers are Python floats (converted exactly to rationals on
the wire).  Variable order everywhere: states x0.., algebraics a0.., controls u0.. (this is the
order `collocated_variables` has in transcribe()).

Residual description: list of equations; an equation is {"c": const, "t": [[coef, [factor, ...]], ...]}
with factor = ["v", j] (collocated variable j), ["d", s] (der of state s), ["c", j] (constant
input j), ["t"] (model time = t - t0), ["p", j] (parameter j).
"""
import logging
import warnings
from fractions import Fraction

import casadi as ca
import numpy as np

logging.getLogger("rtctools").setLevel(logging.CRITICAL)


def names(inst):
    if inst.get("names"):
        nm = inst["names"]
        return list(nm["xs"]), list(nm["al"]), list(nm["us"])
    xs = ["x%d" % i for i in range(inst["ns"])]
    al = ["a%d" % i for i in range(inst["na"])]
    us = ["u%d" % i for i in range(inst["nc"])]
    return xs, al, us


def var_names(inst):
    xs, al, us = names(inst)
    return xs + al + us


def make_problem(inst):
    """build the synthetic problem object for an instance (rtctools imported lazily so that
    RTC_REPO is honoured)"""
    from pymoca.backends.casadi.alias_relation import AliasRelation
    from rtctools._internal.alias_tools import AliasDict
    from rtctools.optimization.collocated_integrated_optimization_problem import (
        CollocatedIntegratedOptimizationProblem,
    )
    from rtctools.optimization.timeseries import Timeseries

    xs, al, us = names(inst)
    cs = ["c%d" % i for i in range(inst["nci"])]
    ps = ["p%d" % i for i in range(inst["npar"])]

    class Synth(CollocatedIntegratedOptimizationProblem):
        def __init__(self):
            self._inst = inst
            sym = lambda n: ca.MX.sym(n)  # noqa: E731
            t = sym("time")
            self._mx = dict(
                time=[t],
                states=[sym(n) for n in xs],
                derivatives=[sym("der(%s)" % n) for n in xs],
                algebraics=[sym(n) for n in al],
                control_inputs=[sym(n) for n in us],
                constant_inputs=[sym(n) for n in cs],
                parameters=[sym(n) for n in ps],
                lookup_tables=[],
            )
            colloc = self._mx["states"] + self._mx["algebraics"] + self._mx["control_inputs"]

            def fac(f):
                if f[0] == "v":
                    return colloc[f[1]]
                if f[0] == "d":
                    return self._mx["derivatives"][f[1]]
                if f[0] == "c":
                    return self._mx["constant_inputs"][f[1]]
                if f[0] == "t":
                    return t
                if f[0] == "p":
                    return self._mx["parameters"][f[1]]
                raise ValueError(f)

            def expr(eq):
                e = ca.MX(float(eq["c"]))
                for coef, facs in eq["t"]:
                    term = ca.MX(float(coef))
                    for f in facs:
                        term = term * fac(f)
                    e = e + term
                return e

            self._res = ca.vertcat(*[expr(eq) for eq in inst["eqs"]]) if inst["eqs"] else ca.MX()
            if inst.get("init_eqs") is None:
                self._ires = None
            else:
                self._ires = ca.vertcat(*[expr(eq) for eq in inst["init_eqs"]])
            # optimisation variables / inputs that are NOT part of the DAE: they enlarge the decision
            # vector and the mapped input row, and must not disturb the model rows
            self._pv = [sym("pv%d" % i) for i in range(inst.get("npv", 0))]
            self._ev = [sym("ev%d" % i) for i in range(inst.get("nev", 0))]
            self._ar = AliasRelation()
            self._times = np.array(inst["ts"], dtype=float)
            super().__init__()

        @property
        def dae_variables(self):
            return self._mx

        @property
        def dae_residual(self):
            return self._res

        @property
        def path_variables(self):
            return self._pv

        @property
        def extra_variables(self):
            return self._ev

        @property
        def initial_residual(self):
            if self._ires is None:
                return super().initial_residual
            return self._ires

        @property
        def alias_relation(self):
            return self._ar

        @property
        def theta(self):
            return inst["theta"]

        def times(self, variable=None):
            own = inst.get("own_times") or {}
            if variable is not None and variable in own:
                return self._times[np.array(own[variable], dtype=int)]
            return self._times

        @property
        def equidistant(self):
            # problem-level flag "all time series are equidistant" (CSV/IO mixins set it); the
            # transcription of the model rows must not depend on it
            return bool(inst.get("equidistant", False))

        def interpolation_method(self, variable=None):
            return (inst.get("modes") or {}).get(variable, self.INTERPOLATION_LINEAR)

        @property
        def ensemble_size(self):
            return inst["E"]

        def parameters(self, ensemble_member):
            d = AliasDict(self._ar)
            for j, n in enumerate(ps):
                d[n] = inst["pvals"][ensemble_member][j]
            return d

        def dynamic_parameters(self):
            return [self._mx["parameters"][j] for j in inst.get("dyn") or []]

        def constant_inputs(self, ensemble_member):
            d = AliasDict(self._ar)
            for j, n in enumerate(cs):
                s = inst["cin"][ensemble_member][j]
                d[n] = Timeseries(np.array(s["times"], dtype=float), np.array(s["values"], dtype=float))
            for j in range(inst.get("nxc", 0)):
                d["xc%d" % j] = Timeseries(self._times, np.array([3.0 + j + ensemble_member + 0.5 * i
                                                                    for i in range(len(self._times))]))
            return d

        def history(self, ensemble_member):
            d = AliasDict(self._ar)
            for n, s in ((inst.get("history") or [{}] * inst["E"])[ensemble_member]).items():
                d[n] = Timeseries(np.array(s["times"], dtype=float), np.array(s["values"], dtype=float))
            return d

        def variable_nominal(self, variable):
            nom = inst["nom"]
            if variable in nom:
                return nom[variable]
            return super().variable_nominal(variable)

        def bounds(self):
            b = AliasDict(self._ar)
            for n, (lo, hi) in (inst.get("bounds") or {}).items():
                b[n] = (lo, hi)
            return b

        def path_constraints(self, ensemble_member):
            out = []
            colloc_names = xs + al + us
            lo, hi = inst.get("pc_bounds") or (-7.0, 9.0)

            def fac(f):
                if f[0] == "D":
                    return self.der(colloc_names[f[1]])
                if f[0] == "v":
                    return self.state(colloc_names[f[1]])
                if f[0] == "c":
                    return self.variable(cs[f[1]])
                if f[0] == "t":
                    return self._mx["time"][0]
                if f[0] == "p":
                    return self._mx["parameters"][f[1]]
                raise ValueError(f)

            for eq in inst.get("pc") or []:
                e = ca.MX(float(eq["c"]))
                for coef, facs in eq["t"]:
                    term = ca.MX(float(coef))
                    for f in facs:
                        term = term * fac(f)
                    e = e + term
                out.append((e, lo, hi))
            return out

        def map_options(self):
            return {"mode": "unroll"}

        def solver_options(self):
            o = super().solver_options()
            o["ipopt"]["print_level"] = 0
            o["ipopt"]["sb"] = "yes"
            o["ipopt"]["tol"] = 1e-10
            o["ipopt"]["constr_viol_tol"] = 1e-10
            o["print_time"] = 0
            return o

    return Synth()


def transcribe(prob):
    with warnings.catch_warnings():
        warnings.simplefilter("ignore")
        return prob.transcribe()


# -------------------------------------------------------------------------------------------------
# layout recovery through the public API only


def recover_layout(prob, inst, X):
    """returns dict:
         idx[(m, var)]  = list of decision-vector positions of `state_vector(var, m)`
         nom[var]       = variable_nominal(var)
         didx[(m, s)]   = position of the initial-derivative variable of state s, member m
         dnom[(m, s)]   = its multiplier in `der_at(state, t0, m)` (the nominal the code applies)
    """
    N = X.size1()
    ar = np.arange(N, dtype=float)
    out = {"idx": {}, "nom": {}, "didx": {}, "dnom": {}, "N": N}
    xs, al, us = names(inst)
    t0 = prob.initial_time
    for v in xs + al + us:
        out["nom"][v] = float(prob.variable_nominal(v))
    for m in range(inst["E"]):
        for v in xs + al + us:
            f = ca.Function("f", [X], [prob.state_vector(v, m)])
            vals = np.array(f(ar)).ravel()
            out["idx"][(m, v)] = [int(round(z)) for z in vals]
        for s, v in enumerate(xs):
            e = prob.der_at(v, t0, m)
            J = ca.Function("J", [X], [ca.jacobian(e, X), e])
            A, b = J(np.zeros(N))
            A = np.array(A).ravel()
            nz = np.nonzero(A)[0]
            if len(nz) != 1 or float(b) != 0.0:
                raise LayoutError("der_at(%s, t0, %d) is not a single scaled decision variable" % (v, m))
            out["didx"][(m, s)] = int(nz[0])
            out["dnom"][(m, s)] = float(A[nz[0]])
    return out


class LayoutError(Exception):
    pass


# -------------------------------------------------------------------------------------------------
# exact evaluation of the residual description (shared by the independent oracle)


def eval_eqs(eqs, v, d, c, t, p):
    """v, d, c, p: lists of Fractions; t Fraction"""
    out = []
    for eq in eqs:
        acc = Fraction(eq["c"])
        for coef, facs in eq["t"]:
            term = Fraction(coef)
            for f in facs:
                k = f[0]
                if k == "v":
                    term *= v[f[1]]
                elif k == "d" or k == "D":
                    term *= d[f[1]]
                elif k == "c":
                    term *= c[f[1]]
                elif k == "t":
                    term *= t
                else:
                    term *= p[f[1]]
            acc += term
        out.append(acc)
    return out


def is_affine_spec(inst):
    """affine in the decision variables: every monomial has at most one v/d factor"""
    for eq in inst["eqs"] + (inst.get("init_eqs") or []) + (inst.get("pc") or []):
        for _coef, facs in eq["t"]:
            if sum(1 for f in facs if f[0] in ("v", "d", "D")) > 1:
                return False
    return True


# -------------------------------------------------------------------------------------------------
# generator

T0S = [0.0, 3.0, -2.5]
THETAS = [0.0, 0.25, 0.5, 0.75, 1.0, 0.3]
STEPS = [0.25, 0.5, 1.0, 2.0, 0.3, 1.5, 0.7]
NOMS = [1.0, 1.0, 2.0 ** -10, 2.0 ** -3, 8.0, 1024.0, 8192.0, 1e-3, 0.01, 0.1, 10.0, 100.0, 1e4, 2.5, 350.0]


def dy(rng, lo=-16, hi=16, den=8):
    while True:
        k = rng.randint(lo, hi)
        if k != 0:
            return k / den


def gen_values(rng, E, gen):
    """per-member values with forced coincidences and the values 0/1"""
    vals = [gen() for _ in range(E)]
    r = rng.random()
    if E > 1 and r < 1 / 3:
        # some members coincide
        a, b = rng.sample(range(E), 2)
        vals[b] = vals[a]
        if rng.random() < 0.4:
            vals = [vals[0]] * E
    for m in range(E):
        if rng.random() < 0.25:
            vals[m] = rng.choice([0.0, 1.0])
    return vals


TINY = [1e-9, 3e-9, 5e-10, 2e-9, 7e-9, 1e-8, 4e-8, 1e-7, 2.5e-8]
NEAR_REL = [1e-6, 5e-6, 1e-5, -3e-6, 2e-6, -1e-5]


def gen_param_values(rng, E, allow_tiny=True):
    """per-member values of one parameter.  Returns (values, tiny).  Besides the ordinary stream
    (dyadic values, coincidences, 0/1): (i) tiny magnitudes 5e-10..1e-7 that differ between
    members (all within an absolute 1e-8-ish of each other), (ii) values that differ by a relative
    1e-6..1e-5 or an absolute 1e-8 around an ordinary magnitude, (iii) exact coincidences for some
    members and near-coincidences for others in the same instance.  A classification that merges
    'almost equal' values (np.allclose, rounding, ...) must not go unnoticed."""
    r = rng.random()
    if E == 1 or r < 0.5:
        return gen_values(rng, E, lambda: dy(rng)), False
    if allow_tiny and r < 0.7:
        pool = rng.sample(TINY, min(E, len(TINY)))
        vals = [pool[m % len(pool)] for m in range(E)]
        if E > 2 and rng.random() < 0.5:  # (iii) an exact coincidence among the tiny values
            a, b = rng.sample(range(E), 2)
            vals[b] = vals[a]
        if rng.random() < 0.3:
            vals[rng.randrange(E)] = 0.0
        if all(v == vals[0] for v in vals):
            vals[-1] = vals[0] * 3
        return vals, True
    base = rng.choice([dy(rng), 2.0, 1.0, 0.5, -1.5])
    vals = []
    for m in range(E):
        q = rng.random()
        if m == 0 or q < 0.3:
            vals.append(base)  # exact coincidence with member 0
        elif q < 0.8:
            vals.append(base * (1.0 + rng.choice(NEAR_REL)))
        else:
            vals.append(base + rng.choice([1e-8, -1e-8, 5e-9]))
    if all(v == vals[0] for v in vals):
        vals[-1] = base * (1.0 + 1e-5)
    return vals, False


def gen_eq(rng, inst, nonlinear, must=None, init=False):
    nv = inst["ns"] + inst["na"] + inst["nc"]
    pool = [["v", j] for j in range(nv)] + [["d", s] for s in range(inst["ns"])]
    pool += [["c", j] for j in range(inst["nci"])] + [["p", j] for j in range(inst["npar"])] + [["t"]]
    terms = []
    if must is not None:
        terms.append([dy(rng), [must]])
    nterm = rng.randint(1, 4)
    for _ in range(nterm):
        f = rng.choice(pool)
        facs = [f]
        r = rng.random()
        if r < 0.3:
            # product with a parameter / constant input / time: still affine in the decision variables
            extra = [["p", j] for j in range(inst["npar"])] + [["c", j] for j in range(inst["nci"])] + [["t"]]
            g = rng.choice(extra)
            if not (f[0] in ("p", "c", "t") and g == f and rng.random() < 0.5):
                facs.append(g)
        elif nonlinear and r < 0.65 and f[0] in ("v", "d"):
            facs.append(rng.choice([["v", j] for j in range(nv)] + [f]))
        coef = dy(rng)
        for g in facs:
            if g[0] == "p" and g[1] in (inst.get("ptiny") or []):
                # a tiny parameter is paired with a large coefficient: the effect on the row is O(0.1 .. 10)
                coef *= 2.0 ** 27
        terms.append([coef, facs])
    const = rng.choice([0.0, 0.0, dy(rng), 1.0])
    return {"c": const, "t": terms}


def own_stamps_same_ends(rng, ts):
    """stamps of a constant input series that start and end with the grid but differ from it in between"""
    lo, hi, n = ts[0], ts[-1], len(ts)
    q = rng.random()
    if n >= 3 and q < 0.3:
        times = [lo + (hi - lo) * i / (n - 1) for i in range(n)]  # equidistant, same count
        times[-1] = hi
    else:
        cnt = n - 2 if (n >= 3 and q < 0.7) else rng.randint(0, n + 1)
        cands = [lo + (hi - lo) * f for f in (0.125, 0.25, 0.375, 0.5, 0.625, 0.75, 0.875)]
        cands += [(a + b) / 2 for a, b in zip(ts, ts[1:])] + list(ts[1:-1])
        cands = sorted(set(c for c in cands if lo < c < hi))
        rng.shuffle(cands)
        times = [lo] + sorted(cands[:cnt]) + [hi]
    times = sorted(set(times))
    if times == list(ts) and n >= 3:
        # the same count must not mean the same stamps: move one interior stamp to the middle of its cell
        i = rng.randint(1, n - 2)
        mid = (ts[i - 1] + ts[i]) / 2
        times = sorted(set(times[:i] + [mid] + times[i + 1:]))
    return times


def gen_instance(rng, big=False, kind=None):
    """kind: 'affine' | 'nonlinear' | 'solve' (square, well-posed affine)"""
    kind = kind or rng.choice(["affine", "affine", "nonlinear"])
    mx = 8 if big else 3
    ns = rng.randint(0 if kind != "solve" else 1, mx)
    na = rng.randint(0, mx // 2 + 1)
    nc = rng.randint(0, 3)
    if ns + na + nc == 0:
        ns = 1
    nci = rng.randint(0, 3)
    npar = rng.randint(0, 4)
    E = rng.choice([1, 1, 2, 2, 3, 4])
    nsteps = rng.randint(1, 12 if big and rng.random() < 0.3 else 6)
    if kind != "solve" and rng.random() < 0.04:
        # a single time stamp (no step at all; outside the property's quantifier, kept as an edge
        # of the correspondence).  A decision vector with exactly ONE entry (one stamp, one
        # algebraic/control, no state) makes `X[[]] * np.array([])` raise inside transcribe()
        # (CasADi gives a 1x0 slice of a 1x1 symbol): avoided here, reported to the coordinator.
        nsteps = 0
        ns = max(ns, 1)
    t0 = rng.choice(T0S)
    ts = [t0]
    eq_step = rng.choice(STEPS) if rng.random() < 0.2 else None
    for _ in range(nsteps):
        ts.append(ts[-1] + (eq_step or rng.choice(STEPS)))
    theta = rng.choice(THETAS)
    inst = dict(kind=kind, ns=ns, na=na, nc=nc, nci=nci, npar=npar, E=E, ts=ts, theta=theta)
    vs = var_names(inst)
    inst["nom"] = {v: rng.choice(NOMS) for v in vs}
    cols, ptiny = [], []
    for j in range(npar):
        vals, tiny = gen_param_values(rng, E, allow_tiny=(kind != "solve"))
        cols.append(vals)
        if tiny:
            ptiny.append(j)
    inst["pvals"] = [list(r) for r in zip(*cols)] if npar else [[] for _ in range(E)]
    inst["ptiny"] = ptiny
    # constant inputs: own time stamps (a superset window of the horizon, or exactly the grid), modes
    modes = {}
    cin = [[None] * nci for _ in range(E)]
    for j in range(nci):
        mode = rng.choice([0, 0, 1, 2])
        if mode:
            modes["c%d" % j] = mode
        r = rng.random()
        if r < 0.4 or nsteps == 0:
            times = list(ts)
        elif r < 0.62:
            # own stamps INSIDE the horizon with the same first and last stamp as the grid: the same count as
            # the grid with different interior stamps (e.g. an equidistant series on a non-equidistant grid),
            # or any other count.  Every "nothing to interpolate" shortcut that compares less than all stamps
            # (length, end points) wrongly fires on these.
            times = own_stamps_same_ends(rng, ts)
        elif r < 0.85:
            # coarser / shifted stamps covering the horizon
            times = sorted(set([ts[0] - 1.0, ts[-1] + 0.5] + [t for t in ts if rng.random() < 0.5]
                               + [ts[0] + (ts[-1] - ts[0]) * rng.choice([0.25, 0.5, 0.625])]))
        else:
            # does not cover the horizon: the code fills 0.0 outside
            cut = rng.randint(1, len(ts) - 1)
            times = list(ts[:cut]) if rng.random() < 0.5 else list(ts[cut:])
        cols = list(zip(*[gen_values(rng, E, lambda: dy(rng)) for _ in times]))
        for m in range(E):
            cin[m][j] = {"times": times, "values": list(cols[m])}
    inst["cin"] = cin
    inst["modes"] = modes
    # residual
    nonlinear = kind == "nonlinear"
    eqs = []
    if kind == "solve":
        for s in range(ns):
            eqs.append(gen_eq(rng, inst, False, must=["d", s]))
        for a in range(na):
            eqs.append(gen_eq(rng, inst, False, must=["v", ns + a]))
    else:
        ne = max(0, ns + na + rng.choice([0, 0, 0, 0, 1, -1]))
        if ne == 0 and rng.random() < 0.8:
            ne = 1
        for e in range(ne):
            must = None
            if e < ns and rng.random() < 0.8:
                must = ["d", e]
            eqs.append(gen_eq(rng, inst, nonlinear, must=must))
    if nonlinear and eqs and all(
            sum(1 for f in facs if f[0] in ("v", "d")) <= 1 for eq in eqs for _c, facs in eq["t"]):
        # make sure a nonlinear instance has a product of two decision quantities (x*u, x^2, x*der)
        nv = ns + na + nc
        a = ["v", rng.randrange(nv)]
        b = rng.choice([["v", rng.randrange(nv)], a] + ([["d", rng.randrange(ns)]] if ns else []))
        rng.choice(eqs)["t"].append([dy(rng), [a, b]])
    inst["eqs"] = eqs
    if kind != "solve" and rng.random() < 0.5:
        inst["init_eqs"] = [gen_eq(rng, inst, nonlinear) for _ in range(rng.randint(1, 2))]
    else:
        inst["init_eqs"] = None
    # history (complete, no NaN): changes the initial-derivative nominal and pins bounds, adds no row
    hist = [{} for _ in range(E)]
    if kind != "solve" and rng.random() < 0.3:
        for v in vs:
            if rng.random() < 0.5:
                k = rng.randint(1, 3)
                times = [t0 - rng.choice([0.5, 1.0, 0.3]) * i for i in range(k - 1, -1, -1)]
                for m in range(E):
                    hist[m][v] = {"times": times, "values": [dy(rng) for _ in times]}
    inst["history"] = hist
    inst["own_times"] = {}
    inst["bounds"] = {}
    inst["dyn"] = sorted(j for j in range(npar) if rng.random() < 0.25)
    inst["equidistant"] = rng.random() < 0.3
    if rng.random() < 0.35:
        inst["npv"] = rng.randint(0, 2)
        inst["nev"] = rng.randint(0, 1)
        inst["nxc"] = rng.randint(0, 1)
        for i in range(inst["npv"]):
            inst["nom"]["pv%d" % i] = rng.choice(NOMS)
        for i in range(inst["nev"]):
            inst["nom"]["ev%d" % i] = rng.choice(NOMS)
    if kind == "solve":
        for v in vs:
            inst["bounds"][v] = (-1.0e4, 1.0e4)
    return inst


def add_own_times(rng, inst):
    """give some controls a coarser grid of their own (subset of the collocation stamps that
    contains the first and the last one) and an interpolation mode"""
    n = len(inst["ts"])
    xs, al, us = names(inst)
    if n < 3:
        return False
    done = False
    for u in us + al + xs:
        # mostly controls (the documented use); the code path is the same for every collocated variable
        if rng.random() < (0.7 if u in us else 0.15):
            inner = [i for i in range(1, n - 1) if rng.random() < 0.4]
            if len(inner) == n - 2:
                inner = inner[:-1]
            own = [0] + inner + [n - 1]
            if n >= 4 and rng.random() < 0.5:
                # force a NON-equidistant own grid also when the collocation grid is equidistant
                own = sorted(set([0, rng.choice([1, n - 2]), n - 1]))
            inst["own_times"][u] = own
            mode = rng.choice([0, 0, 1, 2])
            if mode:
                inst["modes"][u] = mode
            done = True
    return done


def add_history_probe(rng, inst):
    """histories for the non-differentiated variables (>= 2 points ending at t0: backward
    difference; one point or none: 0) and a path constraint that depends on the derivatives of all
    collocated variables -- its t0 instance exposes the initial derivatives the code hands to the
    initial residual (the DAE residual itself cannot reference der() of an algebraic/control)."""
    vs = var_names(inst)
    ns = inst["ns"]
    t0 = inst["ts"][0]
    E = inst["E"]
    hist = [{} for _ in range(E)]
    for j, v in enumerate(vs):
        r = rng.random()
        if r < 0.15:
            continue
        k = 1 if r < 0.3 else rng.randint(2, 4)
        steps = [rng.choice([0.5, 1.0, 0.3, 2.0]) for _ in range(k - 1)]
        times = [t0]
        for st in steps:
            times.insert(0, times[0] - st)
        for m in range(E):
            hist[m][v] = {"times": list(times), "values": [dy(rng) for _ in times]}
    inst["history"] = hist
    nonlinear = inst["kind"] == "nonlinear"
    pcs = []
    for _ in range(rng.randint(1, 2)):
        terms = []
        for j in range(len(vs)):
            if j >= ns or rng.random() < 0.5:
                facs = [["D", j]]
                if rng.random() < 0.3 and inst["npar"]:
                    facs.append(["p", rng.randrange(inst["npar"])])
                elif nonlinear and rng.random() < 0.3:
                    facs.append(["v", rng.randrange(len(vs))])
                terms.append([dy(rng), facs])
        if rng.random() < 0.5:
            terms.append([dy(rng), [["v", rng.randrange(len(vs))]]])
        if inst["nci"] and rng.random() < 0.5:
            terms.append([dy(rng), [["c", rng.randrange(inst["nci"])]]])
        pcs.append({"c": rng.choice([0.0, dy(rng)]), "t": terms})
    inst["pc"] = pcs
    inst["pc_bounds"] = (-7.0, 9.0)
    return inst
