"""
C02 — lexicographic order: later priorities never degrade earlier ones.

Proof obligations: lean/RtcVerif/Props/C02.lean.  Correspondence (Drivers/C02.lean, and
Drivers/C04.lean for the soft rows): real `GoalProgrammingMixin` runs on random small linear
synthetic models with random goal sets; in `priority_completed` the harness captures the results
and the transcribed problem of every priority.  The model is fed the goals and the *achieved*
epsilons / function values and predicts the constraint store the next priority is solved with;
the prediction is compared with the goal rows (value at a probe point, lbg, ubg) of the real
next-priority problem, as a complete multiset (base rows + soft rows + store rows).
`_GoalConstraint.update_bounds` is compared exhaustively over all weak orderings.

Oracle (independent, plain Python on the real results): every goal of every solved priority is
re-evaluated on every later solution and on the final result — multi-pass, keep_soft and both
single-pass methods.
"""
import math

import numpy as np

from . import c04 as C4
from . import c04_synth as S
from .c04_synth import INF, NAN, GoalSpec
from .common import fr, same, unfr

TOL = 1e-6


def hopts_wire(o):
    w = dict(vr=fr(o.get("violation_relaxation", 0.0)), cr=fr(o.get("constraint_relaxation", 0.0)),
             thr=fr(o.get("equality_threshold", 1e-8)), fix=bool(o.get("fix_minimized_values", False)))
    vt = o.get("violation_tolerance", INF)
    if math.isfinite(vt):
        w["vt"] = fr(vt)
    return w


def goals_by_priority(specs):
    """[(priority, point goals, path goals)] of the non-empty goals, as optimize() groups them"""
    live = [s for s in specs if not S.is_empty(s)]
    out = []
    for p in sorted({int(s.prio) for s in live}):
        out.append((p, [s for s in live if int(s.prio) == p and s.point is not None],
                    [s for s in live if int(s.prio) == p and s.point is None]))
    return out


def achieved(spec, res_m, sym_index, j, kind):
    """what the conversion reads from the results: epsilon (target goals) / function value"""
    if spec.crit:
        return []
    if spec.is_target:
        name = ("path_eps_%d_%d" if kind == "path" else "eps_%d_%d") % (sym_index, j)
        return [float(x) for x in np.asarray(res_m[name], dtype=float).ravel()]
    return [float(x) for x in S.fvalue(spec, res_m, 0)]


# ---------------------------------------------------------------------------------------------
# oracle: re-evaluate earlier goals on later solutions


def goal_slack(s, opts, c=0):
    return s.relax + opts.get("constraint_relaxation", 0.0) * s.nom_at(c)


def check_no_degradation(c, desc, groups, snaps, final, opts, E, n, fixed):
    """multi-pass: target goals keep their achieved violation, minimisation goals their value"""
    vr = opts.get("violation_relaxation", 0.0)
    vt = opts.get("violation_tolerance", INF)
    later = [(p, res) for (p, res, *_r) in snaps]
    if final is not None:
        later = later + [("final", final)]
    for k, (p, gpoint, gpath) in enumerate(groups):
        if k >= len(snaps):
            break
        res_j = snaps[k][1]
        for kind, gl in (("point", gpoint), ("path", gpath)):
            for j, s in enumerate(gl):
                if s.crit:
                    continue
                for m in range(E):
                    for (pl, res_l) in later[k + 1:]:
                        where = "(goal of priority %s re-evaluated at %s, member %d)" % (p, pl, m)
                        if s.is_target:
                            name = ("path_eps_%d_%d" if kind == "path" else "eps_%d_%d") % (k, j)
                            eps = np.asarray(res_j[m][name], dtype=float).ravel() + vr
                            f = S.fvalue(s, res_l[m], 0)
                            lo, hi = s.lo_at(0), s.hi_at(0)
                            tol = TOL * max(1.0, abs(hi - lo), s.nom_at(0)) + goal_slack(s, opts)
                            f_then = S.fvalue(s, res_j[m], 0)
                            for i in range(len(f)):
                                a, b = s.target_at("min", 0, i), s.target_at("max", 0, i)
                                c.count()
                                if eps[i] > vt:
                                    # violated beyond violation_tolerance: the achieved value is fixed
                                    c.hit("oracle/violated-step-fixed")
                                    tolf = TOL * max(1.0, s.nom_at(0), abs(float(f_then[i]))) + goal_slack(s, opts)
                                    if abs(f[i] - f_then[i]) > tolf:
                                        c.fail("function value of a violated step moved " + where, desc,
                                               dict(goal=s.describe(), step=i, eps_then=float(eps[i]),
                                                    f_then=float(f_then[i]), f_now=float(f[i])))
                                    continue
                                if s.has_min and math.isfinite(a):
                                    c.hit("oracle/target-min-step")
                                    if f[i] < a + eps[i] * (lo - a) - tol:
                                        c.fail("earlier target goal degraded " + where, desc,
                                               dict(goal=s.describe(), step=i, eps_then=float(eps[i]), f_now=float(f[i]),
                                                    retained_lower=a + eps[i] * (lo - a)))
                                if s.has_max and math.isfinite(b):
                                    c.hit("oracle/target-max-step")
                                    if f[i] > b + eps[i] * (hi - b) + tol:
                                        c.fail("earlier target goal degraded " + where, desc,
                                               dict(goal=s.describe(), step=i, eps_then=float(eps[i]), f_now=float(f[i]),
                                                    retained_upper=b + eps[i] * (hi - b)))
                        else:
                            f0 = S.fvalue(s, res_j[m], 0)
                            f1 = S.fvalue(s, res_l[m], 0)
                            for i in range(len(f0)):
                                # relative: IPOPT relaxes every bound by 1e-8 * max(1, |bound|)
                                tol = TOL * max(1.0, s.nom_at(0), abs(float(f0[i]))) + goal_slack(s, opts)
                                c.count()
                                c.hit("oracle/min-step")
                                if f1[i] > f0[i] + tol:
                                    c.fail("earlier minimisation goal got worse " + where, desc,
                                           dict(goal=s.describe(), step=i, f_then=float(f0[i]), f_now=float(f1[i])))
                                if fixed and s.relax == 0 and f1[i] < f0[i] - tol:
                                    c.fail("fixed minimised value moved " + where, desc,
                                           dict(goal=s.describe(), step=i, f_then=float(f0[i]), f_now=float(f1[i])))


def priority_objective(groups, k, res, probs, n):
    """objective of priority index k (goal part, scale_by_problem_size off) from a results list;
    needs the epsilons of that priority in `res` (keep_soft / single pass)"""
    (p, gpoint, gpath) = groups[k]
    total = 0.0
    for m, pm in enumerate(probs):
        acc = 0.0
        for kind, gl in (("point", gpoint), ("path", gpath)):
            for j, s in enumerate(gl):
                if s.crit:
                    continue
                if s.is_target:
                    name = ("path_eps_%d_%d" if kind == "path" else "eps_%d_%d") % (k, j)
                    e = np.asarray(res[m][name], dtype=float)
                    acc += s.w * float(np.sum(e ** s.order))
                else:
                    for cc in range(s.size):
                        f = S.fvalue(s, res[m], cc) / s.nom_at(cc)
                        acc += s.w * float(np.sum(f ** s.order))
        total += pm * acc
    return total


def check_objectives(c, desc, groups, snaps, final, opts, probs, n, fixed):
    """keep_soft / single pass: the objective of every solved priority is retained"""
    cr = opts.get("constraint_relaxation", 0.0)
    later = [(p, res) for (p, res, *_r) in snaps]
    if final is not None:
        later = later + [("final", final)]
    for k in range(len(snaps)):
        oj = priority_objective(groups, k, snaps[k][1], probs, n)
        # the value the mixin itself reports for that priority (goal part only == objective here)
        for (pl, res_l) in later[k + 1:]:
            ol = priority_objective(groups, k, res_l, probs, n)
            tol = TOL * max(1.0, abs(oj))
            c.count()
            c.hit("oracle/objective-retained")
            if ol > oj + cr + tol:
                c.fail("objective of priority %s got worse at %s" % (groups[k][0], pl), desc,
                       dict(obj_then=oj, obj_now=ol, constraint_relaxation=cr))
            if fixed and ol < oj - tol:
                c.fail("fixed objective of priority %s moved at %s" % (groups[k][0], pl), desc,
                       dict(obj_then=oj, obj_now=ol))


# ---------------------------------------------------------------------------------------------
# the main stream


def gen_case(rng, variant, stream="main"):
    keep = variant != "GP"
    inst = S.gen_instance(rng)
    n = len(inst["times"])
    highs = rng.random() < 0.75
    orders = (1,) if highs else (1, 2)
    if stream == "f24":
        specs = S.gen_goal_set(rng, n, keep, n_prios=rng.choice([2, 3]), orders=orders, allow_equal=True,
                               allow_relax=False, allow_vector=False, share_prob=0.6)
    else:
        specs = S.gen_goal_set(rng, n, keep, n_prios=rng.choice([2, 2, 3, 3]), orders=orders, allow_equal=False,
                               allow_relax=not keep, allow_vector=keep, share_prob=0.6)
    opts = {}
    if variant in ("GP", "GPkeep"):
        opts["keep_soft_constraints"] = keep
    if not highs:
        opts["fix_minimized_values"] = rng.random() < 0.4
    if rng.random() < 0.3:
        opts["constraint_relaxation"] = rng.choice([0.125, 0.5])
    if variant == "GP" and rng.random() < 0.25:
        opts["violation_relaxation"] = rng.choice([0.015625, 0.0625])
    if variant == "GP" and stream == "main" and rng.random() < 0.2:
        opts["violation_tolerance"] = rng.choice([0.0, 0.03125, 0.25])
        # a violated step is retained as the single point f*: a critical goal on the same key would
        # in general be disjoint from it (known finding F27) -- critical goals get their own key here
        for s in specs:
            if s.crit:
                s.fk = "c%d" % s.uid
    if variant == "GP" and stream == "main" and rng.random() < 0.3:
        inject_alias_pair(rng, specs, inst, orders)
    near = False
    if variant == "GP" and stream == "main" and highs and rng.random() < 0.4:
        near = inject_near_equal(rng, specs, opts)
    if stream == "f25":
        # goals sharing a key get different nominals (known finding candidate F25)
        seen = {}
        for s in specs:
            if s.fk in seen and s.size == 1:
                s.nom = [seen[s.fk] * rng.choice([10.0, 0.1])]
            seen.setdefault(s.fk, s.nom[0])
    return dict(variant=variant, keep=keep, highs=highs, inst=inst, n=n, specs=specs, opts=opts, near=near)


def inject_alias_pair(rng, specs, inst, orders):
    """StateGoals: one on the state x, at a later priority one on its negated alias nx = -x (function
    keys "x" and "-x": separate store entries), and at a still later priority a goal pushing x
    against the first goal's retained bound"""
    used = {int(s.prio) for s in specs}
    free = [p for p in range(-4, 14) if p not in used]
    pa, pb, pc = sorted(rng.sample(free, 3))
    uid = max(s.uid for s in specs) + 1
    a = float(rng.randint(-6, 6))
    gap = rng.choice([1.0, 2.0, 4.0])
    o = lambda: rng.choice(orders)  # noqa
    if rng.random() < 0.5:
        # x >= a ; nx <= -a + gap (i.e. x >= a - gap: implied) ; minimise x
        ga = S.state_goal_spec("x", inst, tmin=("s", a), prio=pa, order=o(), uid=uid)
        gb = S.state_goal_spec("nx", inst, tmax=("s", -a + gap), prio=pb, order=o(), uid=uid + 1)
        gc = GoalSpec(terms=[("x", 1.0)], fk="g%d" % (uid + 2), prio=pc, order=1, uid=uid + 2)
    else:
        # x <= a ; nx >= -a - gap (i.e. x <= a + gap: implied) ; minimise -x
        ga = S.state_goal_spec("x", inst, tmax=("s", a), prio=pa, order=o(), uid=uid)
        gb = S.state_goal_spec("nx", inst, tmin=("s", -a - gap), prio=pb, order=o(), uid=uid + 1)
        gc = GoalSpec(terms=[("x", -1.0)], fk="g%d" % (uid + 2), prio=pc, order=1, uid=uid + 2)
    if rng.random() < 0.3:  # also: a StateGoal on a plain state
        specs.append(S.state_goal_spec("u", inst, tmax=("s", float(rng.randint(0, 8))), prio=rng.choice([pa, pb, pc]),
                                       order=o(), uid=uid + 3))
    specs.extend([ga, gb, gc])


def check_state_goal_keys(c, pr, desc):
    """StateGoal.__init__: function key / range / nominal against the model's rule"""
    sg = [g for g in pr._goal_objs if g.spec.state is not None]
    if not sg:
        return
    lines = [dict(op="statekey", canonical=S.ALIASES[g.spec.state][0], positive=S.ALIASES[g.spec.state][1] > 0) for g in sg]
    outs = c.model(lines)
    for k, g in enumerate(sg):
        c.count(("statekey", g.spec.state))
        c.hit("stategoal/" + g.spec.state)
        rng_real = tuple(float(x) for x in g.function_range)
        if outs is not None and (outs[k] != g.function_key or outs[k] != g.spec.fk):
            c.disagree("function key of a StateGoal", dict(desc, state=g.spec.state), outs[k], g.function_key)
        if rng_real != (g.spec.lo[0], g.spec.hi[0]) or float(g.function_nominal) != g.spec.nom[0]:
            c.disagree("function range / nominal of a StateGoal", dict(desc, state=g.spec.state),
                       [g.spec.lo[0], g.spec.hi[0], g.spec.nom[0]], [rng_real, float(g.function_nominal)])


def inject_near_equal(rng, specs, opts):
    """equality folding: give a two-sided goal with scalar targets a target interval narrower than
    equality_threshold in scaled units (but not empty: target_min == target_max is the separately
    counted F24 class), optionally followed by a second goal on the same key in the same priority"""
    count = {}
    for s in specs:
        count[s.fk] = count.get(s.fk, 0) + 1
    cands = [s for s in specs if s.size == 1 and s.has_min and s.has_max and s.tmin[0] == "s" and s.tmax[0] == "s"
             and count[s.fk] == 1]
    if not cands:
        return False
    g = rng.choice(cands)
    # not in the last priority: the folded entry must show up in a later priority's rows
    prios = sorted({int(s.prio) for s in specs})
    if len(prios) > 1 and g.prio == prios[-1]:
        g.prio = rng.choice(prios[:-1])
    tm = rng.choice([0.0, 0.0, 0.5, -0.25])
    g.tmin = ("s", tm)
    g.tmax = ("s", tm + 8e-9 * g.nom[0])
    g.relax = 0.0
    opts.pop("violation_relaxation", None)
    opts.pop("violation_tolerance", None)
    if rng.random() < 0.6:
        h = GoalSpec(**{k: (list(v) if isinstance(v, list) else v) for k, v in g.__dict__.items()})
        h.uid = max(s.uid for s in specs) + 1
        h.crit = False
        if h.rdef:
            l, hh = S.term_range(h.comp_terms(0))
            h.lo, h.hi, h.rdef = [l], [hh], False
        if rng.random() < 0.5:
            h.tmax = ("s", NAN)   # same lower target, no upper target
        else:
            h.tmin = ("s", NAN)   # same upper target, no lower target
        h.w = rng.choice([1.0, 2.5])
        specs.append(h)
        S.fix_order(specs)
    return True


def make_probe_cb(groups, rng):
    def cb(pr, priority):
        k = len(pr.snaps) - 1
        (p, gpoint, gpath) = groups[k]
        return C4.probe_values(pr, gpoint, gpath, k, rng)

    return cb


def stream_main(c, N, variants=("GP", "GP", "GP", "GPkeep", "SP", "SP2"), stream="main"):
    K = S.problem_classes()
    rng = c.rng
    cases = []
    objrow_cases = []
    lines02, lines04 = [], []
    for _ in range(N):
        variant = rng.choice(variants)
        case = gen_case(rng, variant, stream)
        specs, opts, inst, n = case["specs"], case["opts"], case["inst"], case["n"]
        groups = goals_by_priority(specs)
        cls = {"GP": "GP", "GPkeep": "GP", "SP": "SP", "SP2": "SP2"}[variant]
        rows_mode = variant == "GP"
        pr = K[cls](specs=specs, gp_opts=opts, use_highs=case["highs"],
                    on_completed=make_probe_cb(groups, rng) if rows_mode else None, **inst)
        r = S.run_quiet(pr.optimize)
        desc = dict(stream=stream, variant=variant, solver="highs" if case["highs"] else "ipopt", n=n, opts=opts, inst=inst,
                    goals=[s.describe() for s in specs])
        c.programs += 1
        check_state_goal_keys(c, pr, desc)
        if case["near"]:
            c.hit("main/near-equal-targets")
        if r[0] == "raise" and case["near"] and "Ill-posed" in str(r[1]):
            # numerics candidate F24 (a solver epsilon of -1e-9 makes lbg > ubg): counted, not judged
            c.hit("main/near-equal-targets/ill-posed(F24-class)")
            continue
        if r[0] == "raise":
            c.hit(stream + "/exception")
            if stream == "main":
                c.disagree("well-formed goal set: optimize() raised", desc, "ok", C4.classify(r[1]))
            else:
                c.hit(stream + "/exception:" + C4.classify(r[1])[:40])
            continue
        success = bool(r[1])
        E = len(inst["pvals"])
        probs = inst["probs"] or [1.0 / E] * E
        eff = pr.goal_programming_options()
        fixed = bool(eff["fix_minimized_values"])
        c.hit("%s/%s/%s" % (stream, variant, "success" if success else "solver-failure"))
        c.count((stream, variant, case["highs"], len(groups), success, E, fixed,
                 tuple(sorted(opts.items())),
                 tuple(sorted((s.point is None, s.tmin[0], s.tmax[0], s.crit, s.is_target) for s in specs)),
                 len({s.fk for s in specs}) < len(specs)))
        c.sample({**desc, "success": success, "completed": [p for p, *_ in pr.snaps]}, limit=6)
        final = [pr.extract_results(m) for m in range(E)] if pr.snaps else None
        # ---- oracle
        if stream == "main":
            oc = c
        else:
            oc = _Counting(c, stream)
        if variant == "GP":
            check_no_degradation(oc, desc, groups, pr.snaps, final, eff, E, n, fixed)
        else:
            check_objectives(oc, desc, groups, pr.snaps, final, eff, probs, n, fixed)
        # critical goals stay met (shared with C04) -- cheap, and part of "never degrade"
        for k, (p, res, *_r) in enumerate(pr.snaps):
            for (pp, gpoint, gpath) in groups[:k + 1]:
                for s in gpoint + gpath:
                    if s.crit:
                        for m in range(E):
                            C4.check_critical(oc, desc, s, res[m], "at priority %s" % p,
                                              slack=s.relax + eff["constraint_relaxation"] * s.nom_at(0))
        if len(pr.snaps) > 1:
            c.hit(stream + "/multi-priority-runs")
        if variant != "GP" and stream == "main" and len(pr.snaps) > 1:
            objrow_cases.append(dict(desc=desc, variant=variant, fixed=fixed, cr=float(eff["constraint_relaxation"]),
                                     objs=[float(sn[3]) for sn in pr.snaps],
                                     bounds=[(np.array(sn[2]["lbg"], dtype=float).ravel().tolist(),
                                              np.array(sn[2]["ubg"], dtype=float).ravel().tolist()) for sn in pr.snaps]))
        # ---- correspondence: store prediction vs the rows of every solved priority
        if rows_mode and stream == "main" and pr.snaps:
            base = K["Base"](**inst)
            rb = S.run_quiet(base.transcribe)
            nb = int(sum(np.array(x).size for x in rb[1][3]))
            ho = hopts_wire(eff)
            idx02 = []
            for m in range(E):
                for kind in ("point", "path"):
                    steps = []
                    for k in range(len(pr.snaps)):
                        (p, gpoint, gpath) = groups[k]
                        gl = gpoint if kind == "point" else gpath
                        res = pr.snaps[k][1]
                        steps.append(dict(goals=[s.wire() for s in gl],
                                          ach=[[fr(x) for x in achieved(s, res[m], k, j, kind)] for j, s in enumerate(gl)],
                                          fv=[[fr(float(x)) for x in S.fvalue(s, res[m], 0)] for s in gl]))
                    idx02.append((m, kind, len(lines02)))
                    lines02.append(dict(op="chain", n=1 if kind == "point" else n, opts=ho, steps=steps))
            idx04 = []
            for k in range(len(pr.snaps)):
                (p, gpoint, gpath) = groups[k]
                pv = pr.extras[k]
                for m in range(E):
                    for kind, gl in (("point", gpoint), ("path", gpath)):
                        for j, s in enumerate(gl):
                            if not s.is_target or s.crit:
                                continue
                            ns = 1 if kind == "point" else n
                            fs = [[float(x) for x in S.fvalue(s, pv["phys"][m], 0)]]
                            e = pv["d"][("peps" if kind == "path" else "eps", j, m)]
                            eps = np.asarray(e, dtype=float).reshape((1, ns)).tolist()
                            idx04.append((k, len(lines04)))
                            lines04.append(dict(op="rows", goal=s.wire(), n=ns, f=[[fr(x) for x in r_] for r_ in fs],
                                                eps=[[fr(x) for x in r_] for r_ in eps]))
            cases.append(dict(desc=desc, groups=groups, extras=pr.extras, nsnap=len(pr.snaps), nb=nb, E=E, n=n,
                              near=case["near"],
                              idx02=idx02, idx04=idx04, specs=specs))
    check_objective_rows(c, objrow_cases)
    if not cases:
        return
    outs02 = c.model(lines02)
    outs04 = c.model(lines04, driver="C04") if lines04 else []
    if outs02 is None or outs04 is None:
        return
    for case in cases:
        desc, groups, E, n, nb = case["desc"], case["groups"], case["E"], case["n"], case["nb"]
        terms_of = {}
        nom_of = {}
        for s in case["specs"]:
            terms_of.setdefault((s.fk, s.point is None), s)
        for k in range(case["nsnap"]):
            pv = case["extras"][k]
            real = list(zip(pv["g"].tolist(), pv["lb"].tolist(), pv["ub"].tolist()))
            model_rows = []
            for (kk, pos) in case["idx04"]:
                if kk == k:
                    model_rows += [(unfr(v), unfr(l), unfr(u)) for v, l, u in outs04[pos]]
            n_store = 0
            for (m, kind, pos) in case["idx02"]:
                store = outs02[pos][k]
                for fk, ivs in store:
                    s = terms_of[(fk, kind == "path")]
                    f = S.fvalue(s, pv["phys"][m], 0)
                    for i, iv in enumerate(ivs):
                        if iv is None:
                            c.disagree("model store has a missing step", desc, store, None)
                            continue
                        model_rows.append((float(f[i]) / s.nom_at(0), unfr(iv[0]), unfr(iv[1])))
                        n_store += 1
                        if case["near"] and iv[0] == iv[1] and iv[0] not in ("inf", "-inf"):
                            c.hit("rows/store-entry-folded-or-point")
            c.count(("rows", k, n_store > 0))
            c.hit("rows/priority-%s" % ("first" if k == 0 else "later"))
            if n_store:
                c.hit("rows/store-rows", n_store)
            missing, extra = C4.match_rows(model_rows, real)
            if missing or len(real) != nb + len(model_rows):
                c.disagree("rows of priority index %d (base + soft + retained store)" % k, desc,
                           {"missing": missing[:6], "n_model": len(model_rows), "n_base": nb},
                           {"n_real": len(real), "unmatched_real": [e for e in extra if not (e[1] == 0.0 and e[2] == 0.0)][:8]})


def check_objective_rows(c, ocases):
    """keep_soft / single pass: the problem of priority index k carries, for every earlier priority
    j, one row bounded by the model's `objRow` of the objective value reached at j"""
    lines, idx = [], []
    for oc in ocases:
        for j, v in enumerate(oc["objs"][:-1]):
            idx.append((oc, j))
            lines.append(dict(op="objrow", fix=oc["fixed"], cr=fr(oc["cr"]), v=fr(v)))
    if not lines:
        return
    outs = c.model(lines)
    if outs is None:
        return
    for (oc, j), (lo, hi) in zip(idx, outs):
        for k in range(j + 1, len(oc["objs"])):
            lbg, ubg = oc["bounds"][k]
            c.count(("objrow", oc["variant"], oc["fixed"]))
            c.hit("rows/objective-row")
            ok = any(same(lo, a, exact=False, rtol=1e-9, atol=1e-12) and same(hi, b, exact=False, rtol=1e-9, atol=1e-12)
                     for a, b in zip(lbg, ubg))
            if not ok:
                c.disagree("retained objective row of priority index %d missing at priority index %d" % (j, k),
                           oc["desc"], [lo, hi], {"objective": oc["objs"][j]})


class _Counting:
    """oracle sink of the separately counted streams (known-finding candidates F24 / F25):
    outcomes are tallied in the evidence, never reported as violations"""

    def __init__(self, c, stream):
        self.c, self.stream = c, stream

    def count(self, *a, **k):
        self.c.count()

    def hit(self, bucket, n=1):
        self.c.hit(self.stream + "/" + bucket, n)

    def fail(self, what, case, detail=None, finding=None):
        self.c.hit(self.stream + "/oracle-fired")
        if self.stream + "/first" not in self.c.extra:
            self.c.extra[self.stream + "/first"] = {"what": what, "detail": C4_json(detail)}


def C4_json(x):
    from .common import jsonable
    return jsonable(x)


# ---------------------------------------------------------------------------------------------
# corpus / probes


def run_corpus(c):
    # F4 (fixed, c555684): p1 x >= 2 (met), p2 critical x <= 8, p3 minimise x  =>  x stays >= 2
    K = S.problem_classes()
    inst = dict(times=[0.0, 1.0, 2.0, 3.0], pvals=[[0.5, 0.0]], cvals=[[1.0] * 4], nom={}, x0=None, probs=None)
    specs = [
        GoalSpec(terms=[("x", 1.0)], fk="k", tmin=("s", 2.0), lo=[-50.0], hi=[50.0], rdef=False, order=1, prio=1, uid=1),
        GoalSpec(terms=[("x", 1.0)], fk="k", tmax=("s", 8.0), crit=True, prio=2, uid=2),
        GoalSpec(terms=[("x", 1.0)], fk="k3", order=1, prio=3, uid=3),
    ]
    pr = K["GP"](specs=specs, use_highs=True, **inst)
    r = S.run_quiet(pr.optimize)
    c.count(("corpus", "F4-e2e"))
    desc = dict(goals=[s.describe() for s in specs])
    if r[0] != "ok" or not r[1]:
        c.fail("F4 corpus instance no longer solves", desc, repr(r)[:200])
    else:
        groups = goals_by_priority(specs)
        check_no_degradation(c, desc, groups, pr.snaps, [pr.extract_results(0)], pr.goal_programming_options(), 1, 4, False)


def probe_f27(c):
    K = S.problem_classes()
    inst = dict(times=[0.0, 1.0, 2.0, 3.0], pvals=[[0.5, 0.0]], cvals=[[1.0] * 4], nom={}, x0=None, probs=None)
    specs = [
        GoalSpec(terms=[("x", 1.0)], fk="k", tmax=("s", 5.0), lo=[-50.0], hi=[50.0], rdef=False, order=1, prio=1, uid=1),
        GoalSpec(terms=[("x", 1.0)], fk="k", tmin=("s", 6.0), crit=True, prio=2, uid=2),
        GoalSpec(terms=[("x", 1.0)], fk="k3", order=1, prio=3, uid=3),
    ]
    pr = K["GP"](specs=specs, use_highs=True, **inst)
    r = S.run_quiet(pr.optimize)
    c.count(("probe", "F27"))
    reproduced = False
    if r[0] == "ok" and r[1]:
        for p, res, *_ in pr.snaps:
            if p >= 2 and np.any(np.asarray(res[0]["x"]) < 6.0 - 1e-3):
                reproduced = True
        # whatever happens to the critical goal, the earlier priority's attainment (x <= 5) must survive it:
        # a store update that lets the later critical goal win (seeded change c02k) degrades priority 1
        check_no_degradation(c, dict(probe="F27", goals=[s.describe() for s in specs]), goals_by_priority(specs),
                             pr.snaps, [pr.extract_results(0)], pr.goal_programming_options(), 1, 4, False)
    c.known_probe("F27", reproduced,
                  "critical goal x>=6 disjoint from the retained bound x<=5 of an earlier priority: the store keeps "
                  "the earlier bound, the critical goal is silently not met (optimize() returns True)")


def replay(c, rp):
    """re-run the deterministic parts (proofs, corpus, kernel enumeration, probes) and show the
    recorded failing inputs"""
    from .translate import gen_update_bounds
    from .translate_c04 import gen_hard_constraint
    from .translate_c02 import gen_bookkeeping

    # + kernels and the store bookkeeping of the priority loop, translated from the source on every run
    c.prove(extra=gen_update_bounds(c) + gen_hard_constraint(c) + gen_bookkeeping(c))
    for f in rp.get("failures", []) + rp.get("correspondence_disagreements", []):
        print("recorded:", f["what"])
    run_corpus(c)
    C4.stream_update_bounds(c)
    probe_f27(c)


def run(c):
    c.rule = (
        "synthetic linear model (x'=-p x+u+c, y=x+q; 2-5 steps, 1-2 members, nominals) with random goal sets over "
        "2-3 priorities: target / minimisation / critical, path and point, scalar and Timeseries targets with NaN / inf "
        "gaps, function keys shared across and inside priorities (incl. a critical goal on a key an earlier goal "
        "constrains), weights, orders 1-2 (HiGHS for order 1, IPOPT otherwise), goal relaxations, "
        "constraint_relaxation, violation_relaxation, fix_minimized_values; variants multi-pass, keep_soft, single "
        "pass (both methods).  Per solved priority the complete multiset of rows (base + soft + retained store) is "
        "compared with the model's prediction from the achieved epsilons.  distinct = (stream, variant, solver, "
        "#priorities, outcome, #members, options, goal-shape signature, shared-key flag) tuples"
    )
    c.assumptions = [
        "the solver returns a point satisfying lbx/ubx/lbg/ubg to tolerance when it reports success "
        "(the oracle-feasibility contract of the theorems; oracle tolerance 1e-6 + configured relaxations)",
        "goals sharing a function key have the same function and the same function_nominal (instances with "
        "different nominals = finding candidate F25 are counted separately, not judged)",
        "no target_min == target_max steps in the main stream (numerics candidate F24: counted separately); target "
        "intervals narrower than equality_threshold (but not empty) do occur (40% of the HiGHS multi-pass runs)",
        "critical goals intersect the interval retained from earlier priorities on their key (known finding F27 otherwise)",
        "Timeseries targets are given on the problem's time grid; violation_tolerance >= 0 where set (20% of the "
        "multi-pass runs; repaired as F47)",
        "scale_by_problem_size is off in the keep_soft / single-pass objective oracle",
    ]
    from .translate import gen_update_bounds
    from .translate_c04 import gen_hard_constraint
    from .translate_c02 import gen_bookkeeping

    # + kernels and the store bookkeeping of the priority loop, translated from the source on every run
    c.prove(extra=gen_update_bounds(c) + gen_hard_constraint(c) + gen_bookkeeping(c))
    run_corpus(c)
    C4.stream_update_bounds(c)
    stream_main(c, c.n(200, 3000))
    stream_main(c, c.n(15, 250), variants=("GP",), stream="f24")
    stream_main(c, c.n(15, 250), variants=("GP",), stream="f25")
    probe_f27(c)
    c.exhaustive = False
    c.notes.append("C02_no_degradation covers equality folding (slack equality_threshold/2 in scaled units, any number "
                   "of goals sharing a key inside a priority) and a family of independent stores (members x point/path) "
                   "solved by one oracle call per priority; C02_no_degradation_nofold is the exact variant without "
                   "slack.  Remaining assumptions: one nominal per function key (F25), critical goals intersect what is "
                   "retained (F27), solver feasibility is the oracle contract (hypothesis), the keep_soft / single-pass "
                   "theorems abstract a solution to the values of the priorities' objectives, the final result is the "
                   "last solution by C10. ")
    c.notes.append("update_bounds enumerated over all weak orderings of its four arguments; the run streams are "
                   "samples; streams f24/f25 only count outcomes of known-finding candidates; the unbounded "
                   "claims are the theorems")
