"""
C03 — each priority solves exactly the documented subproblem, to optimality.

Proof obligations: lean/RtcVerif/Props/C03.lean
  * objective assembly model (Model/C03Subproblem.lean) = documented formula, coefficient table;
  * `lagrangian_lower_bound` / `convex_tangent_bound` / `qp_lower_bound` for the executable
    certificate (Model/C03Cert.lean), proved once for all sizes.

Correspondence (every run): the real goal-programming mixins on random small linear synthetic
models; inside `priority_completed` the transcribed problem is extracted completely
(f -> (H, c, f0); g -> (A, b0); bounds) and
  (a) the objective coefficients are compared with the Lean model's independently assembled
      coefficient table (and with the plain-Python re-statement of the documented formula: oracle);
  (b) the Lean driver evaluates the *proved* lower bound L(y) exactly on the real (A, b, c) with the
      solver's own multipliers (rationalised, clipped): the reported optimum must not exceed it;
  (c) an independently built formulation (c03_oracle, physical units, own layout) is solved with an
      independent solver and must give the same optimum (the property statement itself).
"""
import math
import time
from fractions import Fraction

import numpy as np

from . import c03_gen as G
from . import c03_oracle as O
from . import c03_synth as S
from .common import fr, unfr

INF = float("inf")


# ---------------------------------------------------------------------------------------------
# wire forms


def wire_target(t):
    if t is None:
        return None
    k, v = t["k"], t["v"]
    if k == "sc":
        return {"k": k, "v": fr(v)}
    if k == "ts2":
        return {"k": k, "v": [[fr(x) for x in row] for row in v]}
    return {"k": k, "v": [fr(x) for x in v]}


def wire_goal(s, inst=None):
    order = 1 if (inst is not None and S.is_linearized(inst, s)) else s["order"]
    d = {"size": len(s["vars"]), "weight": fr(s["weight"]), "order": order,
         "nominal": [fr(x) for x in s["nominal"]], "critical": bool(s.get("critical"))}
    if s["kind"] != "min":
        d["tmin"] = wire_target(s.get("tmin"))
        d["tmax"] = wire_target(s.get("tmax"))
    return d


def objective_line(inst, gis):
    goals = [inst["goals"][gi] for gi in gis]
    return {"op": "objective", "sbs": bool(inst["opts"].get("scale_by_problem_size", False)),
            "T": len(inst["times"]), "probs": [fr(p) for p in inst["probs"]],
            "goals": [wire_goal(s, inst) for s in goals if not s["path"]],
            "pathGoals": [wire_goal(s, inst) for s in goals if s["path"]]}


def multipliers(cap):
    """(y+, y-) from CasADi's lam_g (positive = upper side active), clipped to sign and to the
    finite sides; any choice is sound, the bound is proved for arbitrary multipliers"""
    lam = cap["lam_g"]
    if lam is None:
        lam = np.zeros(len(cap["lbg"]))
    ym = np.maximum(lam, 0.0)
    yp = np.maximum(-lam, 0.0)
    yp[~np.isfinite(cap["lbg"])] = 0.0
    ym[~np.isfinite(cap["ubg"])] = 0.0
    yp[~np.isfinite(yp)] = 0.0
    ym[~np.isfinite(ym)] = 0.0
    return yp, ym


def repair_free_columns(cap, yp, ym, grad):
    """exact zero reduced cost on columns with an infinite bound on the side the reduced cost
    points to: adjust the multiplier of one equality row per such column (exact Fractions).
    Heuristic only; soundness never depends on it."""
    A = cap["A"]
    lbx, ubx = cap["lbx"], cap["ubx"]
    N = len(lbx)
    free = [j for j in range(N) if not (math.isfinite(lbx[j]) and math.isfinite(ubx[j]))]
    if not free:
        return [(Fraction(a), Fraction(b)) for a, b in zip(yp, ym)], 0
    ys = [[Fraction(a), Fraction(b)] for a, b in zip(yp, ym)]
    fixed = 0
    for j in free:
        rows = [i for i in range(A.shape[0]) if A[i, j] != 0.0]
        r = Fraction(float(grad[j])) - sum(Fraction(float(A[i, j])) * (ys[i][0] - ys[i][1]) for i in rows)
        if r == 0:
            continue
        need_lo = r > 0 and not math.isfinite(lbx[j])
        need_hi = r < 0 and not math.isfinite(ubx[j])
        if not (need_lo or need_hi):
            continue
        eq = [i for i in rows if cap["lbg"][i] == cap["ubg"][i]]
        if not eq:
            continue
        i = max(eq, key=lambda i: abs(A[i, j]))
        d = r / Fraction(float(A[i, j]))  # y+ - y- += d
        y = ys[i][0] - ys[i][1] + d
        ys[i] = [y, Fraction(0)] if y >= 0 else [Fraction(0), -y]
        fixed += 1
    return [tuple(p) for p in ys], fixed


def cert_line(cap):
    """the real transcribed problem as exact rationals + multipliers; None if outside the
    certificate's class (non-diagonal or indefinite Hessian)"""
    A, b0, c, H = cap["A"], cap["b0"], cap["c"], cap["H"]
    N = cap["N"]
    x = cap["x"]
    sq = []
    if np.any(H):
        off = H - np.diag(np.diag(H))
        if np.any(off) or np.any(np.diag(H) < 0):
            return None
        for j in range(N):
            if H[j, j] != 0.0:
                sq.append({"k": fr(Fraction(float(H[j, j])) / 2), "a": [[j, "1"]], "d": "0"})
    grad = c + H @ x
    yp, ym = multipliers(cap)
    ys, fixed = repair_free_columns(cap, yp, ym, grad)
    rows = []
    for i in range(A.shape[0]):
        nz = np.nonzero(A[i])[0]
        rows.append({"a": [[int(j), fr(float(A[i, j]))] for j in nz], "b0": fr(float(b0[i])),
                     "lo": fr(float(cap["lbg"][i])), "hi": fr(float(cap["ubg"][i]))})
    line = {"op": "cert", "c": [fr(float(v)) for v in c], "c0": fr(float(cap["f0"])), "rows": rows,
            "cols": [[fr(float(l)), fr(float(u))] for l, u in zip(cap["lbx"], cap["ubx"])],
            "sq": sq, "ys": [[fr(a), fr(b)] for a, b in ys], "xt": [fr(float(v)) for v in x]}
    return line, ys, fixed


def slack_identity(cap, ys):
    """the exact amount by which a slightly infeasible point may undercut L(y):
    sum_i y_i * violation_i + sum_j |r_j| * box violation_j (floats)"""
    A, b0, x = cap["A"], cap["b0"], cap["x"]
    g = A @ x + b0
    vlo = np.maximum(cap["lbg"] - g, 0.0)
    vhi = np.maximum(g - cap["ubg"], 0.0)
    vlo[~np.isfinite(vlo)] = 0.0
    vhi[~np.isfinite(vhi)] = 0.0
    yp = np.array([float(a) for a, _ in ys])
    ym = np.array([float(b) for _, b in ys])
    grad = cap["c"] + cap["H"] @ x
    r = grad - A.T @ (yp - ym)
    bx = np.maximum(cap["lbx"] - x, 0.0) + np.maximum(x - cap["ubx"], 0.0)
    viol = float(max(vlo.max(initial=0.0), vhi.max(initial=0.0), bx.max(initial=0.0)))
    return float(yp @ vlo + ym @ vhi + np.abs(r) @ bx), viol, float(np.abs(yp).sum() + np.abs(ym).sum())


# ---------------------------------------------------------------------------------------------
# objective assembly from a coefficient table


def assemble(terms, forms, N):
    """(H, c, f0) of  sum coef * ((a.X + k)/nominal)^order  over the table"""
    H = np.zeros((N, N))
    c = np.zeros(N)
    f0 = 0.0
    for (key, coef, nom, order) in terms:
        a, k = forms[key]
        a = a / nom
        k = k / nom
        if order == 1:
            c += coef * a
            f0 += coef * k
        elif order == 2:
            H += 2.0 * coef * np.outer(a, a)
            c += 2.0 * coef * k * a
            f0 += coef * k * k
        else:
            raise ValueError("order %r" % order)
    return H, c, f0


def close(a, b, scale):
    return bool(np.all(np.abs(np.asarray(a) - np.asarray(b)) <= 1e-9 * scale + 1e-13))


def model_terms_to_keys(inst, gis, mterms):
    sub = {False: [gi for gi in gis if not inst["goals"][gi]["path"]],
           True: [gi for gi in gis if inst["goals"][gi]["path"]]}
    out = []
    for (is_path, j, cc, m, i, coef, nom, order) in mterms:
        gi = sub[bool(is_path)][j]
        out.append(((gi, m, cc, i if is_path else None), float(unfr(coef)), float(unfr(nom)), order))
    return out


def doc_terms_to_keys(inst, gis):
    return [((gi, m, cc, i), coef, nom, order) for (gi, m, cc, i, coef, nom, order) in O.documented_terms(inst, gis)]


# ---------------------------------------------------------------------------------------------


def brief(inst):
    return {k: inst[k] for k in ("times", "theta", "probs", "pvals", "cvals", "mode", "solver", "opts", "goals", "linearize")
            if k in inst} | ({"nominals": inst["nominals"]} if "nominals" in inst else {})


def check_instance(c, inst, pending):
    """run the real code; queue the model lines; returns a record used after the driver ran"""
    out, pr = S.run_instance(inst)
    rec = {"inst": inst, "out": out, "caps": pr.cap, "lines": [], "certs": [], "failed": getattr(pr, "failed", None)}
    prios = S.priorities_of(inst)
    c.hit("mode/" + inst["mode"])
    c.hit("solver/" + inst["solver"])
    c.hit("E=%d" % len(inst["pvals"]))
    c.hit("T=%d" % len(inst["times"]))
    if isinstance(out, tuple):
        c.hit("outcome/raise:" + out[1])
    else:
        c.hit("outcome/" + ("success" if out else "solver-fail"))
    for k, cap in enumerate(pr.cap):
        gis = prios[k][1]
        rec["lines"].append(len(pending))
        pending.append(objective_line(inst, gis))
        cl = cert_line(cap) if cap["g_affine"] else None
        if cl is None:
            rec["certs"].append(None)
        else:
            rec["certs"].append((len(pending), cl[1], cl[2]))
            pending.append(cl[0])
    return rec


def judge(c, rec, outs):
    inst = rec["inst"]
    prios = S.priorities_of(inst)
    case = brief(inst)
    if isinstance(rec["out"], tuple):
        # the generator only produces goal sets that are documented to be valid
        c.fail("goal-programming run raised %s on a valid goal set: %s" % (rec["out"][1], rec["out"][2]), case)
        return
    hist = []
    for k, cap in enumerate(rec["caps"]):
        gis = prios[k][1]
        goals = [inst["goals"][gi] for gi in gis]
        N = cap["N"]
        obj = cap["obj"]
        scale = 1.0 + abs(obj)
        ident = (k, cap["priority"])
        sig = (inst["mode"], inst["solver"], len(inst["pvals"]), len(inst["times"]), k,
               tuple(sorted((s["kind"], s["path"], len(s["vars"]), s["order"], bool(s.get("critical"))) for s in goals)),
               bool(inst["opts"].get("scale_by_problem_size")), bool(inst["opts"].get("fix_minimized_values")),
               inst["opts"].get("constraint_relaxation", 0.0) > 0, round(obj, 6))
        c.count(sig)
        c.hit("priority-index/%d" % k)
        for s in goals:
            c.hit("goal/" + ("path" if s["path"] else "point") + "/" + s["kind"] + ("/vector" if len(s["vars"]) > 1 else "")
                  + ("/order2" if s["order"] == 2 else "") + ("/critical" if s.get("critical") else ""))
        if inst["opts"].get("scale_by_problem_size"):
            c.hit("scale_by_problem_size")
        if any(s.get("offset") for s in goals):
            c.hit("goal function with a constant term")
        if not cap["g_affine"] or "f_not_quadratic" in cap:
            c.disagree("transcribed problem is not affine/quadratic for a linear model with order <= 2 goals",
                       {"inst": case, "priority": ident}, None, cap.get("f_not_quadratic"))
            hist.append(cap)
            continue
        if not cap["layout_ok"]:
            c.disagree("layout of epsilon variables recovered through the public API does not decode the results",
                       {"inst": case, "priority": ident})
            hist.append(cap)
            continue
        mag = 1.0 + float(np.abs(cap["c"]).max(initial=0.0)) + float(np.abs(cap["H"]).max(initial=0.0))
        # ---- (a) oracle: documented formula (plain Python) against the real objective
        dH, dc, df0 = assemble(doc_terms_to_keys(inst, gis), cap["forms"], N)
        ok_doc = close(dH, cap["H"], mag) and close(dc, cap["c"], mag) and close(df0, cap["f0"], mag)
        if not ok_doc:
            j = int(np.argmax(np.abs(dc - cap["c"]) + np.abs(np.diag(dH) - np.diag(cap["H"]))))
            c.fail("objective handed to the solver differs from the documented formula",
                   {"inst": case, "priority": ident},
                   {"index": j, "documented_c": dc[j], "real_c": cap["c"][j], "documented_H": dH[j, j],
                    "real_H": cap["H"][j, j], "documented_f0": df0, "real_f0": cap["f0"]})
        # ---- (a') correspondence: Lean model's coefficient table against the real objective
        if outs is not None:
            mo = outs[rec["lines"][k]]
            if not isinstance(mo, dict):
                c.disagree("model driver rejected the goal set", {"inst": case, "priority": ident}, mo, None)
            else:
                mterms = model_terms_to_keys(inst, gis, mo["terms"])
                mH, mc, mf0 = assemble(mterms, cap["forms"], N)
                if not (close(mH, cap["H"], mag) and close(mc, cap["c"], mag) and close(mf0, cap["f0"], mag)):
                    j = int(np.argmax(np.abs(mc - cap["c"]) + np.abs(np.diag(mH) - np.diag(cap["H"]))))
                    c.disagree("objective coefficients", {"inst": case, "priority": ident},
                               {"index": j, "c": mc[j], "H": mH[j, j], "f0": mf0},
                               {"c": cap["c"][j], "H": cap["H"][j, j], "f0": cap["f0"]})
                n_doc = sum(len(s["vars"]) for s in goals if not s.get("critical"))
                if mo["nobj"] != n_doc:
                    c.disagree("n_objectives", {"inst": case, "priority": ident}, mo["nobj"], n_doc)
        # ---- reported value = objective at the reported point
        if not abs(obj - cap["f_at_x"]) <= 1e-8 * scale:
            c.fail("reported objective_value is not the objective at the reported solution",
                   {"inst": case, "priority": ident}, {"objective_value": obj, "f(x)": cap["f_at_x"]})
        # ---- (b) certificate
        certified = False
        cert = rec["certs"][k]
        L = None
        if cert is None:
            c.hit("certificate/not-applicable")
        elif outs is not None:
            co = outs[cert[0]]
            under, viol, ynorm = slack_identity(cap, cert[1])
            sens = ynorm * max(viol, 1e-9)
            if viol > 1e-6 * (1.0 + float(np.abs(cap["x"]).max(initial=0.0))):
                c.hit("solver-numerics/reported-point-infeasible>1e-6")
            if isinstance(co, dict):
                L = float(unfr(co["L"]))
                gap = cap["f_at_x"] - L
                # identity side: an (almost) feasible point cannot undercut a valid lower bound by
                # more than its weighted constraint violation
                if gap < -(under + 1e-9 * scale * (1.0 + ynorm)):
                    c.disagree("certificate identity: objective at the reported point is below the proved lower "
                               "bound by more than its constraint violation allows",
                               {"inst": case, "priority": ident}, {"L": L, "allowed": under}, {"f(x)": cap["f_at_x"]})
                if gap <= 1e-7 * scale + 10 * sens:
                    certified = True
                    c.hit("certificate/optimal-within-1e-7" if gap <= 1e-7 * scale else "certificate/optimal-within-sensitivity")
                else:
                    c.hit("certificate/weak-multipliers")
                if cert[2]:
                    c.hit("certificate/free-column-repaired", cert[2])
            else:
                c.hit("certificate/no-finite-bound")
        # ---- (c) independent formulation, independent solver
        try:
            if inst.get("linearize"):
                raise ValueError("the linearised-order formulation is compared with its exact counterpart in C17")
            F = O.build(inst, k, hist)
            st, opt, _ = O.solve(F)
        except ValueError:
            st, opt = "skip", None
        ynorm = float(np.abs(cap["lam_g"]).sum()) if cap["lam_g"] is not None else 0.0
        tol = 1e-6 * scale + 1e-7 * min(ynorm, 1e4)
        relaxed = False
        if (st == "infeasible" or (st == "optimal" and abs(obj - opt) > tol)) and not inst.get("linearize"):
            # retained rows are built from the previous solver output, which satisfies its own rows and
            # bounds only to the solver's tolerance: retry with those rows relaxed by 1e-6 (relative)
            F2 = O.build(inst, k, hist, slack=1e-6)
            st2, opt2, _ = O.solve(F2)
            if st2 == "optimal" and abs(obj - opt2) <= tol + 1e-6 * (1.0 + ynorm):
                relaxed = True
                c.hit("solver-numerics/independent-agrees-after-1e-6-slack-on-retained-rows")
        hist.append(cap)
        if relaxed:
            pass
        elif st == "optimal":
            d = obj - opt
            if abs(d) <= 1e-6 * scale:
                c.hit("independent/equal-1e-6")
            elif abs(d) <= tol:
                c.hit("independent/equal-within-sensitivity")
            else:
                what = ("reported optimum is worse than the optimum of the documented problem (independent "
                        "formulation + solver)" if d > 0 else
                        "reported optimum is better than the optimum of the documented problem: the problem handed "
                        "to the solver is not the documented one")
                c.fail(what, {"inst": case, "priority": ident},
                       {"objective_value": obj, "independent_optimum": opt, "lower_bound_L": L, "certified": certified})
        elif st == "infeasible":
            c.fail("documented problem (independent formulation) is infeasible but the run reported an optimum",
                   {"inst": case, "priority": ident}, {"objective_value": obj})
        else:
            c.hit("independent/" + st)
        if certified and st == "optimal":
            c.hit("priority solves/certified+independent")
    if rec["out"] is False and not inst.get("linearize"):
        # a failed priority: is the documented problem of that priority really infeasible?
        k = len(rec["caps"])
        if k < len(prios):
            try:
                F = O.build(inst, k, hist)
                st, opt, _ = O.solve(F)
            except ValueError:
                st = "skip"
            c.hit("failed-priority/independent-" + st)
            if st == "optimal" and rec["failed"] is not None:
                # the documented problem has a solution: decide (independently of the solver that failed)
                # whether the constraint system actually handed to the solver is infeasible
                verdict = O.lp_feasible(rec["failed"])
                c.hit("failed-priority/real-system-" + verdict)
                if verdict == "infeasible":
                    c.fail("the constraint system handed to the solver is infeasible although the documented "
                           "problem of that priority has a solution",
                           {"inst": case, "priority": (k, prios[k][0])}, {"documented_optimum": opt})


def run_stream(c, n, **gen_kw):
    pending, recs = [], []
    for _ in range(n):
        inst = G.gen_instance(c.rng, **gen_kw)
        recs.append(check_instance(c, inst, pending))
        c.programs += 1
    outs = c.model(pending) if pending else []
    for rec in recs:
        judge(c, rec, outs)
    for rec in recs[:3]:
        c.sample({"instance": brief(rec["inst"]),
                  "objective_values": [cap["obj"] for cap in rec["caps"]]}, limit=4)


# ---------------------------------------------------------------------------------------------
# dedicated probes


def finding_status(c, fid):
    e = next((k for k in c.known if k["id"] == fid), None)
    return None if e is None else e.get("status")


def probe_F14(c):
    """linearised-order path objective of a vector goal with scale_by_problem_size: the divisor must
    be the number of active time steps per component (documented formula)"""
    from rtctools.optimization.linearized_order_goal_programming_mixin import LinearizedOrderGoalProgrammingMixin

    nan = float("nan")
    bad = []
    for (T, size, tm) in [(4, 2, None), (3, 3, [[5.0, 5.0, nan], [5.0, nan, nan], [5.0, nan, nan]])]:
        vars_ = ["x", "u", "w"][:size]
        g = {"path": True, "vars": vars_, "kind": "tmin", "priority": 1, "order": 2, "weight": 1.0, "ti": 0,
             "nominal": [1.0], "range": ([S.VAR_RANGE[v][0] for v in vars_], [S.VAR_RANGE[v][1] for v in vars_]),
             "tmin": {"k": "ts2", "v": tm or [[5.0] * size for _ in range(T)]}}
        inst = {"times": [float(i) for i in range(T)], "theta": 1.0, "probs": [1.0], "pvals": [[0.5, 0.0]],
                "cvals": [[1.0] * T], "mode": "keep", "solver": "highs",
                "opts": {"scale_by_problem_size": True}, "goals": [g]}
        out, pr = S.run_instance(inst, extra_bases=(LinearizedOrderGoalProgrammingMixin,))
        c.count(("F14", T, size))
        if isinstance(out, tuple):
            bad.append("T=%d size=%d raises %s" % (T, size, out[1]))
            continue
        # documented coefficients on the linearised epsilons: w / n_active_c / n_objectives
        cap = pr.cap[0]["c"]
        na = O.n_active(g, T, True)
        exp = sorted(round(1.0 / (na[cc] * size), 9) for cc in range(size) for _ in range(T))
        got = sorted(round(float(v), 9) for v in cap if v != 0.0)
        if exp != got:
            bad.append("T=%d size=%d coefficients %s, documented %s" % (T, size, sorted(set(got)), sorted(set(exp))))
    what = ("linearised-order objective of a vector path goal with scale_by_problem_size: " + "; ".join(bad)) if bad else \
        "linearised-order vector path goal scaling"
    st = finding_status(c, "F14")
    if st is None:
        c.extra.setdefault("candidate_findings", []).append({"id": "F14", "reproduced": bool(bad), "what": what})
        c.hit("probe/F14-" + ("reproduced(unlisted)" if bad else "not-reproduced"))
    else:
        c.known_probe("F14", bool(bad), what)


def probe_F49(c):
    """IPOPT square-problem shortcut on redundant retained equalities (known finding F49)"""
    nan = float("nan")
    inst = {"times": [0.0, 1.0], "theta": 1.0, "probs": [0.5, 0.5], "pvals": [[0.5, 0.0], [1.0, 1.0]],
            "cvals": [[1.0, 0.5], [0.0, 1.0]], "mode": "default", "solver": "ipopt",
            "opts": {"scale_by_problem_size": False, "fix_minimized_values": True, "constraint_relaxation": 0.0},
            "goals": [
                {"path": True, "vars": ["w"], "kind": "both", "priority": 2, "order": 2, "weight": 1.0, "ti": 1,
                 "nominal": [1.0], "range": ([-5.0], [30.0]), "tmin": {"k": "sc", "v": 15.0},
                 "tmax": {"k": "sc", "v": 18.0}, "relaxation": 0.5},
                {"path": True, "vars": ["u"], "kind": "min", "priority": 2, "order": 2, "weight": 2.5, "ti": 0,
                 "nominal": [10.0]},
                {"path": True, "vars": ["u"], "kind": "min", "priority": 3, "order": 2, "weight": 2.5, "ti": 0,
                 "nominal": [1.0]},
                {"path": True, "vars": ["u"], "kind": "tmin", "priority": 10, "order": 1, "weight": 1.0, "ti": 1,
                 "nominal": [10.0], "range": ([-20.0], [20.0]), "tmin": {"k": "sc", "v": -4.0}, "relaxation": 0.1}]}
    out, pr = S.run_instance(inst)
    c.count(("probe", "F49"))
    bad = False
    what = "IPOPT square-problem shortcut"
    if out is True and len(pr.cap) == 3:
        F = O.build(inst, 2, pr.cap[:2])
        st, opt, _ = O.solve(F)
        if st == "optimal" and pr.cap[2]["obj"] - opt > 1e-6:
            bad = True
            what = ("fix_minimized_values (IPOPT default) + goals of two priorities on the same function: #equalities "
                    "= #variables, IPOPT skips the optimisation and reports success: objective_value %.4f, optimum of "
                    "the documented problem %.4f" % (pr.cap[2]["obj"], opt))
    st = finding_status(c, "F49")
    if st is None:
        c.extra.setdefault("candidate_findings", []).append({"id": "F49", "reproduced": bad, "what": what})
        c.hit("probe/F44-" + ("reproduced(unlisted)" if bad else "not-reproduced"))
    else:
        c.known_probe("F49", bad, what)


def run(c):
    c.rule = (
        "random linear synthetic models (x' = -p x + u + c, y = x + q, 2 controls; 2-5 non-equidistant steps, "
        "theta 1 or 1/2, E <= 3 with arbitrary probabilities, variable nominals) x goal sets (1-3 priorities, path / "
        "point, scalar / vector, min / target_min / target_max / both, targets as scalar / array / Timeseries with "
        "NaN and inf gaps, weights, nominals, orders 1-2, critical, relaxation, an empty goal) x {default, "
        "keep_soft_constraints, single pass append / update} x {fix_minimized_values, constraint / violation "
        "relaxation, scale_by_problem_size} x {HiGHS, IPOPT}; one evaluation = one solved priority; distinct = "
        "(mode, solver, E, T, priority index, goal kinds, options, optimum) tuples"
    )
    c.assumptions = [
        "CasADi evaluates / differentiates the expressions it is given (jacobian, hessian at 0 give the affine / "
        "quadratic data of the transcribed problem; is_affine and a two-point spot check guard the class)",
        "solver contract: a reported success returns a point within the constraints to its tolerance; optimality "
        "itself is NOT assumed: it is decided per instance by the proved Lagrangian bound evaluated exactly by the "
        "Lean driver on the real (A, b, c) and by an independent solve of an independently built formulation",
        "constraint rows (soft / retained) are compared through optima of the independent formulation here; their "
        "row-level models are properties C02 / C04",
        "1e-9 relative tolerance on objective coefficients (quotients), 1e-6 on optima (solver), widened by "
        "||multipliers||_1 x feasibility tolerance on ill-conditioned instances (counted)",
    ]
    from .translate_c03 import gen_gp_objective, gen_objective_func

    # + objective helpers and the _objective_func closures translated from the source on every run
    c.prove(extra=gen_gp_objective(c) + gen_objective_func(c))
    t0 = time.time()
    n = c.n(60, 900)
    run_stream(c, n, solver="highs", orders=(1,))
    run_stream(c, c.n(15, 160), mode="default", solver="ipopt", orders=(1, 2, 2), allow_critical=False)
    run_stream(c, c.n(12, 120), solver="highs", orders=(1, 2, 3), linearize=True)
    probe_F14(c)
    probe_F49(c)
    c.notes.append(
        "optimality is decided per instance (certificate + independent solve), not for all inputs at once: a solver "
        "is numerical code outside the Lean model (partial by design); the objective-assembly theorem and the "
        "certificate theorems are unbounded.  correspondence wall %.0fs." % (time.time() - t0))


def replay(c, rp):
    from .translate_c03 import gen_gp_objective, gen_objective_func

    # + objective helpers and the _objective_func closures translated from the source on every run
    c.prove(extra=gen_gp_objective(c) + gen_objective_func(c))
    items = rp.get("failures", []) + rp.get("correspondence_disagreements", [])
    pending, recs = [], []
    for f in items:
        case = f.get("case") or {}
        inst = case.get("inst", case)
        if not isinstance(inst, dict) or "goals" not in inst:
            continue
        inst = _revive(inst)
        recs.append(check_instance(c, inst, pending))
    outs = c.model(pending) if pending else []
    for rec in recs:
        judge(c, rec, outs)


def _revive(x):
    """JSON replay -> instance (nan / inf tokens back to floats)"""
    if isinstance(x, dict):
        return {k: _revive(v) for k, v in x.items()}
    if isinstance(x, list):
        return [_revive(v) for v in x]
    if x == "nan":
        return float("nan")
    if x == "inf":
        return INF
    if x == "-inf":
        return -INF
    return x
