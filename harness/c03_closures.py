"""
Source-to-Lean translation of the `_objective_func` closures of `_gp_goal_constraints` (third tie for C03).

Sources read on every run:
  `_GoalProgrammingMixinBase._gp_goal_constraints`                     goal_programming_mixin_base.py
  `LinearizedOrderGoalProgrammingMixin._gp_goal_constraints`           linearized_order_goal_programming_mixin.py
  `GoalProgrammingMixin.optimize`                                      goal_programming_mixin.py
  `SinglePassGoalProgrammingMixin.optimize` (or the method that calls `_gp_goal_constraints`)
                                                                       single_pass_goal_programming_mixin.py
Output: `lean/RtcVerif/Gen/GpObjectiveFunc.lean` (definitions + `..._eq_model` / `..._chain` theorems against
`Model/C03Closures.lean`, `Model/C03Subproblem.lean` and the generated `Gen/GpObjective.lean`).

Closed table  Python construct -> model term
 loop / scoping
  for j, goal in enumerate(goals):                      -> `(C03.indexed goals)`; `goal` is the pair (goal, j)
  objectives = [] ... objectives.append(F) under tests  -> `.filterMap` (some F / none); position of `objectives`
                                                           in the returned tuple is recorded
  if not goal.critical / goal.has_target_bounds         -> `!gj.1.critical` / `gj.1.hasBounds`
  if hasattr(goal, "_objective_func"):
      _objective_func = goal._objective_func            -> `match override gj with | some f => f | none => ...`
  def _objective_func(problem, ensemble_member, x=x, ..) : a name bound by a default argument is the value of
                                                           THIS iteration (`goal`, `epsilon`, `nActive`);
  a free name that the enclosing loop assigns           -> the value at call time (`goalLate`, `epsilonLate`,
                                                           `nActiveLate`, `mLate`), arbitrary in the theorems
  eps_format = "eps_{}_{}"; if is_path_goal: eps_format = "path_" + eps_format;
  ca.MX.sym(eps_format.format(sym_index, j), goal.size)  (under `elif goal.has_target_bounds` of `if goal.critical`)
                                                        -> `{ path := isPath, idx := symIndex, j := j, size := g.size }`
  path_prefix = "path_" if is_path_goal else ""; ca.MX.sym(path_prefix + "lineps_{}_{}".format(sym_index, j), goal.size)
                                                        -> the same record (the linear majorant variable)
 n_active (loop body)
  if is_path_goal and options["scale_by_problem_size"]: .. else: n_active = k   -> `if isPath && sbs then .. else k`
  a, b = self._gp_min_max_arrays(goal, target_shape=len(self.times()))          -> cells `g.tmin.entry c i`, `g.tmax.entry c i`
  np.isfinite(a) | np.isfinite(b)   (also &)                                    -> `(..).isFinite || (..).isFinite`
  np.sum(x.astype(int), axis=-1)    (axis=1 too)                                -> `((List.range T).filter fun i => x).length`
  np.maximum(n, k) / np.minimum(n, k)                                           -> `max n k` / `min n k`
  n + k, n - k  (counts)                                                        -> `n + k` / `n - k`
  len(self.times())                                                             -> `T`
 closure body
  if is_path_goal: A else: B                            -> `if isPath then A else B`
  problem.variable(S.name())                            -> vector of S.size, `C03.readVariable val S m i c`
  problem.extra_variable(S.name(), ensemble_member)     -> vector of S.size, `C03.readExtra val S m c`
  goal.function(problem, ensemble_member)               -> vector of goal.size, `C03.readFunction val isPath goal m i c`
  goal.weight / goal.order / goal.function_nominal      -> `goal.1.weight` / `goal.1.order` / `goal.1.nominalAt c`
  ca.constpow(v, goal.order)                            -> entrywise `v ^ goal.1.order`
  a * b, a / b, a + b, a - b                            -> entrywise with scalar broadcasting
  return v                                              -> `(List.range size).map fun c => v`
 callers
  (.., self.__subproblem_objectives, ..) = self._gp_goal_constraints(goals, i, options, is_path_goal=False)
  (.., self.__subproblem_path_objectives, ..) = self._gp_goal_constraints(path_goals, i, options, is_path_goal=True)
                                                        -> `objectivesGen sbs false .. goals` / `objectivesGen sbs true .. pathGoals`
                                                           (the target must sit at the position of `objectives`)
Anything else raises TranslationError (reported as a broken obligation).
"""
import ast
import os

from .common import LEAN_DIR, REPO
from .translate import TranslationError, _find_method

BASE = os.path.join("src", "rtctools", "optimization", "goal_programming_mixin_base.py")
GPM = os.path.join("src", "rtctools", "optimization", "goal_programming_mixin.py")
SPM = os.path.join("src", "rtctools", "optimization", "single_pass_goal_programming_mixin.py")
LOM = os.path.join("src", "rtctools", "optimization", "linearized_order_goal_programming_mixin.py")


def TE(msg, node=None):
    if node is not None:
        msg += " [line %s: %s]" % (getattr(node, "lineno", "?"), ast.unparse(node)[:120])
    return TranslationError(msg)


def is_name(node, name=None):
    return isinstance(node, ast.Name) and (name is None or node.id == name)


def is_attr(node, obj, attr):
    return isinstance(node, ast.Attribute) and node.attr == attr and is_name(node.value, obj)


def is_call_attr(node, obj, attr):
    return isinstance(node, ast.Call) and is_attr(node.func, obj, attr)


def is_len_times(node):
    return (isinstance(node, ast.Call) and is_name(node.func, "len") and len(node.args) == 1 and not node.keywords
            and is_call_attr(node.args[0], "self", "times") and not node.args[0].args)


def strip_doc(body):
    if body and isinstance(body[0], ast.Expr) and isinstance(body[0].value, ast.Constant) \
            and isinstance(body[0].value.value, str):
        return body[1:]
    return body


def assigned_names(stmts):
    """names the statements assign in the enclosing function's scope (not inside nested defs)"""
    out = set()

    def tgt(t):
        if isinstance(t, ast.Name):
            out.add(t.id)
        elif isinstance(t, (ast.Tuple, ast.List)):
            for e in t.elts:
                tgt(e)

    def walk(ss):
        for s in ss:
            if isinstance(s, ast.FunctionDef):
                out.add(s.name)
                continue
            if isinstance(s, ast.Assign):
                for t in s.targets:
                    tgt(t)
            elif isinstance(s, (ast.AugAssign, ast.AnnAssign)):
                tgt(s.target)
            elif isinstance(s, ast.For):
                tgt(s.target)
            for f in ("body", "orelse", "finalbody"):
                if hasattr(s, f):
                    walk(getattr(s, f))
            if isinstance(s, ast.Try):
                for h in s.handlers:
                    walk(h.body)
            if isinstance(s, ast.With):
                for it in s.items:
                    if it.optional_vars is not None:
                        tgt(it.optional_vars)

    walk(stmts)
    return out


# ------------------------------------------------------------------------------------------------
# tests of the loop body
# ------------------------------------------------------------------------------------------------

def cond(node, gvar="gj"):
    """boolean tests on the goal / options -> Lean Bool term"""
    if isinstance(node, ast.UnaryOp) and isinstance(node.op, ast.Not):
        return "(!%s)" % cond(node.operand, gvar)
    if isinstance(node, ast.BoolOp):
        op = " && " if isinstance(node.op, ast.And) else " || "
        return "(" + op.join(cond(v, gvar) for v in node.values) + ")"
    if is_attr(node, "goal", "critical"):
        return "%s.1.critical" % gvar
    if is_attr(node, "goal", "has_target_bounds"):
        return "%s.1.hasBounds" % gvar
    if is_name(node, "is_path_goal"):
        return "isPath"
    if isinstance(node, ast.Subscript) and isinstance(node.slice, ast.Constant) \
            and node.slice.value == "scale_by_problem_size" \
            and (is_name(node.value, "options") or is_call_attr(node.value, "self", "goal_programming_options")):
        return "sbs"
    raise TE("unsupported test", node)


# ------------------------------------------------------------------------------------------------
# n_active
# ------------------------------------------------------------------------------------------------

class NActive:
    """array statements that compute `n_active`; values: (kind, lean text); `g` = this iteration's goal"""

    def __init__(self):
        self.env = {}

    def expr(self, node):
        if isinstance(node, ast.Constant) and isinstance(node.value, int) and not isinstance(node.value, bool):
            return ("nat", str(node.value))
        if is_len_times(node):
            return ("nat", "T")
        if is_name(node):
            if node.id in self.env:
                return self.env[node.id]
            raise TE("n_active: unknown name", node)
        if isinstance(node, ast.BinOp) and isinstance(node.op, (ast.BitOr, ast.BitAnd)):
            (ka, a), (kb, b) = self.expr(node.left), self.expr(node.right)
            if ka == kb == "bcells":
                return ("bcells", "(%s %s %s)" % (a, "||" if isinstance(node.op, ast.BitOr) else "&&", b))
            raise TE("n_active: | / & of non-masks", node)
        if isinstance(node, ast.BinOp) and isinstance(node.op, (ast.Add, ast.Sub)):
            (ka, a), (kb, b) = self.expr(node.left), self.expr(node.right)
            if {ka, kb} <= {"nat", "natpc"}:  # truncated subtraction would differ from Python below zero: only
                if isinstance(node.op, ast.Sub) and not (kb == "nat" and b.isdigit() and (a == "T" or a.startswith("(max"))):
                    raise TE("n_active: subtraction that may go below zero", node)
                return ("natpc" if "natpc" in (ka, kb) else "nat",
                        "(%s %s %s)" % (a, "+" if isinstance(node.op, ast.Add) else "-", b))
            raise TE("n_active: + / - of non-counts", node)
        if isinstance(node, ast.Call) and is_attr(node.func, "np", "isfinite") and len(node.args) == 1 \
                and not node.keywords:
            k, a = self.expr(node.args[0])
            if k != "cells":
                raise TE("n_active: isfinite of a non-target array", node)
            return ("bcells", "%s.isFinite" % a)
        if isinstance(node, ast.Call) and is_attr(node.func, "np", "sum") and len(node.args) == 1:
            kw = {k.arg: k.value for k in node.keywords}
            ax = kw.get("axis")
            if set(kw) != {"axis"}:
                raise TE("n_active: np.sum without axis", node)
            if isinstance(ax, ast.UnaryOp) and isinstance(ax.op, ast.USub) and isinstance(ax.operand, ast.Constant):
                axv = -ax.operand.value
            elif isinstance(ax, ast.Constant):
                axv = ax.value
            else:
                raise TE("n_active: axis", node)
            if axv not in (-1, 1):
                raise TE("n_active: the sum does not run over the time axis (axis=%r)" % (axv,), node)
            a = node.args[0]
            if not (isinstance(a, ast.Call) and isinstance(a.func, ast.Attribute) and a.func.attr == "astype"
                    and len(a.args) == 1 and is_name(a.args[0], "int")):
                raise TE("n_active: unsupported sum", node)
            k, x = self.expr(a.func.value)
            if k != "bcells":
                raise TE("n_active: sum of a non-mask", node)
            return ("natpc", "((List.range T).filter (fun i => %s)).length" % x)
        if isinstance(node, ast.Call) and isinstance(node.func, ast.Attribute) and is_name(node.func.value, "np") \
                and node.func.attr in ("maximum", "minimum") and len(node.args) == 2 and not node.keywords:
            (ka, a), (kb, b) = self.expr(node.args[0]), self.expr(node.args[1])
            if {ka, kb} <= {"nat", "natpc"}:
                return ("natpc" if "natpc" in (ka, kb) else "nat",
                        "(%s (%s) %s)" % ("max" if node.func.attr == "maximum" else "min", a, b))
            raise TE("n_active: maximum / minimum of non-counts", node)
        raise TE("n_active: unsupported expression", node)

    def stmt(self, st):
        if isinstance(st, ast.Expr) and isinstance(st.value, ast.Constant):
            return
        if not (isinstance(st, ast.Assign) and len(st.targets) == 1):
            raise TE("n_active: unsupported statement", st)
        t, v = st.targets[0], st.value
        if isinstance(t, ast.Tuple):
            kw = {k.arg: k.value for k in v.keywords} if isinstance(v, ast.Call) else {}
            if len(t.elts) == 2 and all(is_name(e) for e in t.elts) and is_call_attr(v, "self", "_gp_min_max_arrays") \
                    and len(v.args) == 1 and is_name(v.args[0], "goal") and set(kw) == {"target_shape"} \
                    and is_len_times(kw["target_shape"]):
                self.env[t.elts[0].id] = ("cells", "(g.tmin.entry c i)")
                self.env[t.elts[1].id] = ("cells", "(g.tmax.entry c i)")
                return
            raise TE("n_active: unsupported tuple assignment", st)
        if not is_name(t):
            raise TE("n_active: unsupported target", st)
        self.env[t.id] = self.expr(v)


def translate_n_active(st):
    """`if is_path_goal and options[...]: <array statements> else: n_active = k` -> Lean `Rat` term in `c`"""
    if not isinstance(st, ast.If):
        raise TE("n_active: expected an if statement", st)
    outs = []
    for branch in (st.body, st.orelse):
        a = NActive()
        for s in branch:
            a.stmt(s)
        v = a.env.get("n_active")
        if v is None or v[0] not in ("nat", "natpc"):
            raise TE("n_active: a branch does not assign a count to n_active", st)
        outs.append("((%s : Nat) : Rat)" % v[1])
    return "if %s then %s else %s" % (cond(st.test), outs[0], outs[1])


# ------------------------------------------------------------------------------------------------
# closure bodies
# ------------------------------------------------------------------------------------------------

OPS = {ast.Mult: "*", ast.Div: "/", ast.Add: "+", ast.Sub: "-"}


class Closure:
    """symbolic execution of one `_objective_func`"""

    def __init__(self, fdef, own, late, loopvars, symvar):
        self.fdef, self.own, self.late, self.loopvars, self.symvar = fdef, own, late, loopvars, symvar
        a = fdef.args
        if a.vararg or a.kwarg or a.kwonlyargs or a.posonlyargs:
            raise TE("closure: unsupported signature", fdef)
        names = [x.arg for x in a.args]
        nd = len(a.defaults)
        pos = names[:len(names) - nd]
        if len(pos) != 2:
            raise TE("closure: not called as o(problem, ensemble_member): positional parameters %r" % (pos,), fdef)
        # `o(self, ensemble_member)` in _gp_objective / _gp_path_objective / _gp_n_objectives: first the problem,
        # then the member the caller asks for
        self.params = {pos[0]: ("problem",), pos[1]: ("member", "m")}
        for n, d in zip(names[len(names) - nd:], a.defaults):
            # a default is evaluated when the closure is created: this iteration's value
            if not is_name(d):
                raise TE("closure: default of `%s` is not a plain name" % n, d)
            if d.id not in own:
                raise TE("closure: default of `%s` binds `%s`, which is not a tracked loop value" % (n, d.id), d)
            self.params[n] = own[d.id]

    def name(self, node, env):
        n = node.id
        if n in env:
            return env[n]
        if n in self.params:
            return self.params[n]
        # free variable: resolved when the closure is CALLED (after the loops have finished)
        if n in self.loopvars:
            if n in self.late:
                return self.late[n]
            raise TE("closure: free variable `%s` is assigned by the enclosing loop" % n, node)
        if n in self.own:  # not rebound by the loop (function parameter): same value either way
            return self.own[n]
        raise TE("closure: unknown name", node)

    def expr(self, node, env):
        if is_name(node):
            return self.name(node, env)
        if isinstance(node, ast.Attribute):
            v = self.expr(node.value, env)
            if v[0] == "goal":
                if node.attr == "weight":
                    return ("scalar", "%s.1.weight" % v[1])
                if node.attr == "order":
                    return ("nat", "%s.1.order" % v[1])
                if node.attr == "function_nominal":
                    return ("pc", "(%s.1.nominalAt c)" % v[1])
                if node.attr == "size":
                    return ("nat", "%s.1.size" % v[1])
            raise TE("closure: unsupported attribute", node)
        if isinstance(node, ast.Call) and isinstance(node.func, ast.Attribute) and not node.keywords:
            f = node.func
            if f.attr == "name" and not node.args:
                v = self.expr(f.value, env)
                if v[0] == "sym":
                    return ("name", v[1])
                raise TE("closure: .name() of a non-symbol", node)
            if is_name(f.value, "ca") and f.attr == "constpow" and len(node.args) == 2:
                b, e = self.expr(node.args[0], env), self.expr(node.args[1], env)
                if e[0] != "nat":
                    raise TE("closure: exponent is not goal.order", node)
                return self.lift1(b, lambda x: "(%s ^ %s)" % (x, e[1]), node)
            recv = self.expr(f.value, env)
            if recv[0] == "problem" and f.attr == "variable" and len(node.args) == 1:
                s = self.expr(node.args[0], env)
                if s[0] != "name":
                    raise TE("closure: variable() of something else than <symbol>.name()", node)
                return ("vec", "%s.size" % s[1], "(C03.readVariable val %s m i c)" % s[1])
            if recv[0] == "problem" and f.attr == "extra_variable" and len(node.args) == 2:
                s, mm = self.expr(node.args[0], env), self.expr(node.args[1], env)
                if s[0] != "name" or mm[0] != "member":
                    raise TE("closure: extra_variable() arguments", node)
                return ("vec", "%s.size" % s[1], "(C03.readExtra val %s %s c)" % (s[1], mm[1]))
            if recv[0] == "goal" and f.attr == "function" and len(node.args) == 2:
                p, mm = self.expr(node.args[0], env), self.expr(node.args[1], env)
                if p[0] != "problem" or mm[0] != "member":
                    raise TE("closure: goal.function() arguments", node)
                return ("vec", "%s.1.size" % recv[1], "(C03.readFunction val isPath %s %s i c)" % (recv[1], mm[1]))
            raise TE("closure: unsupported call", node)
        if isinstance(node, ast.BinOp) and type(node.op) in OPS:
            a, b = self.expr(node.left, env), self.expr(node.right, env)
            return self.lift2(a, b, OPS[type(node.op)], node)
        raise TE("closure: unsupported expression", node)

    @staticmethod
    def lift1(v, f, node):
        if v[0] == "scalar":
            return ("scalar", f(v[1]))
        if v[0] == "pc":
            return ("pc", f(v[1]))
        if v[0] == "vec":
            return ("vec", v[1], f(v[2]))
        raise TE("closure: arithmetic on a non-numeric value", node)

    @staticmethod
    def lift2(a, b, op, node):
        num = ("scalar", "pc", "vec")
        if a[0] not in num or b[0] not in num:
            raise TE("closure: arithmetic on a non-numeric value", node)
        ta, tb = a[-1], b[-1]
        txt = "(%s %s %s)" % (ta, op, tb)
        if a[0] == "vec" and b[0] == "vec":
            if a[1] != b[1]:
                raise TE("closure: vectors of different sizes (%s, %s)" % (a[1], b[1]), node)
            return ("vec", a[1], txt)
        if a[0] == "vec":
            return ("vec", a[1], txt)
        if b[0] == "vec":
            return ("vec", b[1], txt)
        if "pc" in (a[0], b[0]):
            return ("pc", txt)
        return ("scalar", txt)

    def block(self, stmts, env):
        env = dict(env)
        for k, st in enumerate(stmts):
            if isinstance(st, ast.Expr) and isinstance(st.value, ast.Constant):
                continue
            if isinstance(st, ast.Assign) and len(st.targets) == 1 and is_name(st.targets[0]):
                env[st.targets[0].id] = self.expr(st.value, env)
                continue
            if isinstance(st, ast.Return) and st.value is not None:
                v = self.expr(st.value, env)
                if v[0] != "vec":
                    raise TE("closure: does not return a vector of known size", st)
                return "((List.range %s).map fun c => %s)" % (v[1], v[2])
            if isinstance(st, ast.If):
                t = self.expr(st.test, env)
                if t[0] != "bool":
                    raise TE("closure: unsupported test", st.test)
                rest = stmts[k + 1:]
                a = self.block(list(st.body) + rest, env)
                b = self.block(list(st.orelse) + rest, env)
                return a if a == b else "if %s then %s else %s" % (t[1], a, b)
            raise TE("closure: unsupported statement", st)
        raise TE("closure: no return value", self.fdef)

    def lean(self):
        return "fun m i => " + self.block(strip_doc(self.fdef.body), {})


OWN = {"goal": ("goal", "goal"), "j": ("nat", "goal.2"), "n_active": ("pc", "(nActive c)"),
       "is_path_goal": ("bool", "isPath")}
LATE = {"goal": ("goal", "goalLate"), "j": ("nat", "goalLate.2"), "n_active": ("pc", "(nActiveLate c)"),
        "ensemble_member": ("member", "mLate")}


def envs(symvar):
    own, late = dict(OWN), dict(LATE)
    own[symvar] = ("sym", "epsilon")
    late[symvar] = ("sym", "epsilonLate")
    return own, late


# ------------------------------------------------------------------------------------------------
# the symbol
# ------------------------------------------------------------------------------------------------

def _fmt_call(node, stem, fmts):
    """<name or const>.format(sym_index, j) -> the format string, checked"""
    if not (isinstance(node, ast.Call) and isinstance(node.func, ast.Attribute) and node.func.attr == "format"
            and len(node.args) == 2 and not node.keywords):
        raise TE("symbol: name is not built by .format(sym_index, j)", node)
    if not (is_name(node.args[0], "sym_index") and is_name(node.args[1], "j")):
        raise TE("symbol: format arguments are not (sym_index, j)", node)
    f = node.func.value
    if isinstance(f, ast.Constant):
        s = f.value
    elif is_name(f) and f.id in fmts:
        s = fmts[f.id]
    else:
        raise TE("symbol: unknown format", node)
    if s != stem:
        raise TE("symbol: format string is %r, expected %r" % (s, stem), node)


def sym_record(call, prefix_path, stem, fmts):
    """ca.MX.sym(<name>, goal.size) -> EpsSym record"""
    if not (isinstance(call, ast.Call) and isinstance(call.func, ast.Attribute) and call.func.attr == "sym"
            and is_attr(call.func.value, "ca", "MX") and len(call.args) == 2 and not call.keywords):
        raise TE("symbol: not ca.MX.sym(name, size)", call)
    nm, size = call.args
    if isinstance(nm, ast.BinOp) and isinstance(nm.op, ast.Add) and is_name(nm.left, "path_prefix"):
        if prefix_path is None:
            raise TE("symbol: path_prefix is not defined", call)
        _fmt_call(nm.right, stem, fmts)
    else:
        _fmt_call(nm, stem, fmts)
    if not is_attr(size, "goal", "size"):
        raise TE("symbol: size is not goal.size", size)
    return "{ path := %s, idx := symIndex, j := j, size := g.size }" % prefix_path


def base_symbol(fn):
    """eps_format bookkeeping + the assignment of `epsilon` in the loop of the base method"""
    body = strip_doc(fn.body)
    fmts, path = {}, "false"
    for st in body:
        if isinstance(st, ast.Assign) and len(st.targets) == 1 and is_name(st.targets[0]) \
                and isinstance(st.value, ast.Constant) and isinstance(st.value.value, str):
            fmts[st.targets[0].id] = st.value.value
        if isinstance(st, ast.If) and is_name(st.test, "is_path_goal") and not st.orelse:
            for s in st.body:
                if isinstance(s, ast.Assign) and is_name(s.targets[0], "eps_format"):
                    v = s.value
                    if isinstance(v, ast.BinOp) and isinstance(v.op, ast.Add) and isinstance(v.left, ast.Constant) \
                            and v.left.value == "path_" and is_name(v.right, "eps_format"):
                        path = "isPath"
                    else:
                        raise TE("symbol: unsupported eps_format update", s)
    if "eps_format" not in fmts:
        raise TE("symbol: eps_format not found")
    loop = find_loop(fn)
    first = loop.body[0]
    # if goal.critical: ... elif goal.has_target_bounds: epsilon = ca.MX.sym(...)
    if not (isinstance(first, ast.If) and is_attr(first.test, "goal", "critical") and len(first.orelse) == 1
            and isinstance(first.orelse[0], ast.If) and is_attr(first.orelse[0].test, "goal", "has_target_bounds")
            and not first.orelse[0].orelse):
        raise TE("symbol: the epsilon block is not `if goal.critical: .. elif goal.has_target_bounds: ..`", first)
    rec = None
    for s in first.orelse[0].body:
        if isinstance(s, ast.Assign) and len(s.targets) == 1 and is_name(s.targets[0], "epsilon"):
            rec = sym_record(s.value, path, "eps_{}_{}", fmts)
    if rec is None:
        raise TE("symbol: epsilon is not created for target goals", first)
    # no other assignment of epsilon in the loop body (apart from the critical branch above)
    for s in loop.body[1:]:
        if "epsilon" in assigned_names([s]):
            raise TE("symbol: epsilon is reassigned in the loop", s)
    return rec


def find_loop(fn):
    loops = [s for s in strip_doc(fn.body) if isinstance(s, ast.For)]
    loops = [s for s in loops if isinstance(s.target, ast.Tuple) and len(s.target.elts) == 2
             and is_name(s.target.elts[0], "j") and is_name(s.target.elts[1], "goal")
             and isinstance(s.iter, ast.Call) and is_name(s.iter.func, "enumerate") and len(s.iter.args) == 1
             and is_name(s.iter.args[0], "goals") and not s.iter.keywords and not s.orelse]
    if len(loops) != 1:
        raise TE("%s: expected exactly one `for j, goal in enumerate(goals)` loop" % fn.name)
    return loops[0]


# ------------------------------------------------------------------------------------------------
# base method
# ------------------------------------------------------------------------------------------------

def translate_base(tree):
    fn = _find_method(tree, "_GoalProgrammingMixinBase", "_gp_goal_constraints")
    if [a.arg for a in fn.args.args] != ["self", "goals", "sym_index", "options", "is_path_goal"]:
        raise TE("_gp_goal_constraints: unexpected signature")
    out = {"epsSym": base_symbol(fn)}
    loop = find_loop(fn)
    loopvars = assigned_names(loop.body) | {"j", "goal"}
    body = strip_doc(fn.body)
    # objectives = [] before the loop, returned at a fixed position
    inits = [s for s in body if isinstance(s, ast.Assign) and len(s.targets) == 1 and is_name(s.targets[0], "objectives")]
    if len(inits) != 1 or not (isinstance(inits[0].value, ast.List) and not inits[0].value.elts):
        raise TE("_gp_goal_constraints: `objectives = []` not found")
    ret = body[-1]
    if not (isinstance(ret, ast.Return) and isinstance(ret.value, ast.Tuple) and all(is_name(e) for e in ret.value.elts)):
        raise TE("_gp_goal_constraints: does not end in `return <tuple of names>`")
    rnames = [e.id for e in ret.value.elts]
    if rnames.count("objectives") != 1:
        raise TE("_gp_goal_constraints: `objectives` is not returned exactly once")
    out["ret_index"], out["ret_names"] = rnames.index("objectives"), rnames
    # every statement that touches `objectives` in the loop
    def touches(s):
        return any(is_name(n, "objectives") for n in ast.walk(s))
    for s in body:
        if touches(s) and s not in (inits[0], loop, ret):
            raise TE("_gp_goal_constraints: `objectives` used outside the loop", s)
    blocks = [s for s in loop.body if touches(s)]
    if len(blocks) != 1 or not isinstance(blocks[0], ast.If) or blocks[0].orelse:
        raise TE("_gp_goal_constraints: expected one `if ...:` block (without else) appending to `objectives`")
    blk = blocks[0]
    out["append_test"] = cond(blk.test)
    last = blk.body[-1]
    if not (isinstance(last, ast.Expr) and is_call_attr(last.value, "objectives", "append") and len(last.value.args) == 1
            and is_name(last.value.args[0], "_objective_func")):
        raise TE("_gp_goal_constraints: the block does not end in objectives.append(_objective_func)", last)
    for s in blk.body[:-1]:
        if touches(s):
            raise TE("_gp_goal_constraints: further use of `objectives`", s)
    own, late = envs("epsilon")
    defs = {}

    def value(stmts):
        """the value of `_objective_func` after the statements (one if-chain, or n_active block + def)"""
        stmts = [s for s in stmts if not (isinstance(s, ast.Expr) and isinstance(s.value, ast.Constant))]
        if len(stmts) == 1 and isinstance(stmts[0], ast.If):
            st = stmts[0]
            t = st.test
            if isinstance(t, ast.Call) and is_name(t.func, "hasattr") and len(t.args) == 2 and is_name(t.args[0], "goal") \
                    and isinstance(t.args[1], ast.Constant) and t.args[1].value == "_objective_func":
                b = st.body
                if not (len(b) == 1 and isinstance(b[0], ast.Assign) and is_name(b[0].targets[0], "_objective_func")
                        and is_attr(b[0].value, "goal", "_objective_func")):
                    raise TE("override branch does not take goal._objective_func", st)
                return "(match override gj with\n      | some f => f\n      | none => %s)" % value(st.orelse)
            if is_attr(t, "goal", "has_target_bounds"):
                a = leaf(st.body, "Target")
                b = leaf(st.orelse, "Min")
                return "(if gj.1.hasBounds then %s\n        else %s)" % (a, b)
            raise TE("unsupported branch in the objective block", st)
        raise TE("unsupported shape of the objective block", stmts[0] if stmts else blk)

    def leaf(stmts, tag):
        stmts = [s for s in stmts if not (isinstance(s, ast.Expr) and isinstance(s.value, ast.Constant))]
        if not (len(stmts) == 2 and isinstance(stmts[0], ast.If) and isinstance(stmts[1], ast.FunctionDef)
                and stmts[1].name == "_objective_func"):
            raise TE("expected `if ..: n_active .. else: n_active = k` followed by `def _objective_func`",
                     stmts[0] if stmts else blk)
        if tag in defs:
            raise TE("two closures for the same goal kind")
        defs[tag] = (translate_n_active(stmts[0]), Closure(stmts[1], own, late, loopvars, "epsilon").lean())
        if tag == "Target":
            return ("objFuncTargetGen val isPath gj gjLate (epsSymGen isPath symIndex gj.2 gj.1) epsLate "
                    "(nActiveTargetGen sbs isPath T gj.1) nLate mLate")
        # a minimisation goal creates no epsilon: whatever `epsilon` holds is a leftover of another iteration
        return "objFuncMinGen val isPath gj gjLate epsLate epsLate (nActiveMinGen sbs isPath T gj.1) nLate mLate"

    out["value"] = value(blk.body[:-1])
    if set(defs) != {"Target", "Min"}:
        raise TE("objective block: target / minimisation closures not both found")
    out["nActiveTarget"], out["objTarget"] = defs["Target"]
    out["nActiveMin"], out["objMin"] = defs["Min"]
    return out


# ------------------------------------------------------------------------------------------------
# linearised-order mixin: the closure stored on the goal
# ------------------------------------------------------------------------------------------------

def _lin_test(node):
    """tests of `_linearize_goal`"""
    if isinstance(node, ast.BoolOp):
        op = " && " if isinstance(node.op, ast.And) else " || "
        return "(" + op.join(_lin_test(v) for v in node.values) + ")"
    if isinstance(node, ast.UnaryOp) and isinstance(node.op, ast.Not):
        return "(!%s)" % _lin_test(node.operand)
    if is_name(node, "goal_linearize"):  # truthiness of None / True / False
        return "(gl == some true)"
    if isinstance(node, ast.Compare) and len(node.ops) == 1 and is_name(node.left, "goal_linearize") \
            and isinstance(node.comparators[0], ast.Constant) and isinstance(node.comparators[0].value, bool):
        lit = "some true" if node.comparators[0].value else "some false"
        if isinstance(node.ops[0], ast.IsNot):
            return "(gl != %s)" % lit
        if isinstance(node.ops[0], ast.Is):
            return "(gl == %s)" % lit
    if isinstance(node, ast.Subscript) and is_name(node.value, "options") and isinstance(node.slice, ast.Constant) \
            and node.slice.value == "linearize_goal_order":
        return "optLin"
    if isinstance(node, ast.Compare) and len(node.ops) == 1 and is_attr(node.left, "goal", "order") \
            and isinstance(node.comparators[0], ast.Constant) and isinstance(node.comparators[0].value, int):
        k = node.comparators[0].value
        if isinstance(node.ops[0], ast.Gt):
            return "decide (%d < g.order)" % k
        if isinstance(node.ops[0], ast.GtE):
            return "decide (%d ≤ g.order)" % k
    if is_attr(node, "goal", "critical"):
        return "g.critical"
    raise TE("_linearize_goal: unsupported test", node)


def _lin_block(stmts):
    for k, st in enumerate(stmts):
        if isinstance(st, ast.Return) and isinstance(st.value, ast.Constant) and isinstance(st.value.value, bool):
            return "true" if st.value.value else "false"
        if isinstance(st, ast.If):
            rest = stmts[k + 1:]
            return "(if %s then %s else %s)" % (_lin_test(st.test), _lin_block(list(st.body) + rest),
                                                 _lin_block(list(st.orelse) + rest))
        raise TE("_linearize_goal: unsupported statement", st)
    raise TE("_linearize_goal: a path does not return")


def translate_linearize_goal(fn, loop):
    """the nested predicate `_linearize_goal` and the guard `if not _linearize_goal(goal): continue`"""
    defs = [s for s in strip_doc(fn.body) if isinstance(s, ast.FunctionDef) and s.name == "_linearize_goal"]
    if len(defs) != 1 or [a.arg for a in defs[0].args.args] != ["goal"] or defs[0].args.defaults:
        raise TE("_linearize_goal(goal) not found")
    b = strip_doc(defs[0].body)
    # goal_linearize = None; if isinstance(goal, LinearizedOrderGoal): goal_linearize = goal.linearize_order
    ok = (len(b) >= 3 and isinstance(b[0], ast.Assign) and is_name(b[0].targets[0], "goal_linearize")
          and isinstance(b[0].value, ast.Constant) and b[0].value.value is None
          and isinstance(b[1], ast.If) and not b[1].orelse and isinstance(b[1].test, ast.Call)
          and is_name(b[1].test.func, "isinstance") and len(b[1].test.args) == 2 and is_name(b[1].test.args[0], "goal")
          and is_name(b[1].test.args[1], "LinearizedOrderGoal") and len(b[1].body) == 1
          and isinstance(b[1].body[0], ast.Assign) and is_name(b[1].body[0].targets[0], "goal_linearize")
          and is_attr(b[1].body[0].value, "goal", "linearize_order"))
    if not ok:
        raise TE("_linearize_goal: goal_linearize is not (None | goal.linearize_order of a LinearizedOrderGoal)", defs[0])
    pred = _lin_block(b[2:])
    # `options` of the predicate is self.goal_programming_options()
    opt = [s for s in strip_doc(fn.body) if isinstance(s, ast.Assign) and is_name(s.targets[0], "options")]
    if len(opt) != 1 or not (is_call_attr(opt[0].value, "self", "goal_programming_options") and not opt[0].value.args):
        raise TE("LinearizedOrder._gp_goal_constraints: options is not self.goal_programming_options()")
    g0 = loop.body[0]
    if not (isinstance(g0, ast.If) and not g0.orelse and len(g0.body) == 1 and isinstance(g0.body[0], ast.Continue)
            and isinstance(g0.test, ast.UnaryOp) and isinstance(g0.test.op, ast.Not)
            and isinstance(g0.test.operand, ast.Call) and is_name(g0.test.operand.func, "_linearize_goal")
            and len(g0.test.operand.args) == 1 and is_name(g0.test.operand.args[0], "goal")):
        raise TE("linearised: the loop does not start with `if not _linearize_goal(goal): continue`", g0)
    g1 = loop.body[1]
    if not (isinstance(g1, ast.Assert) and is_attr(g1.test, "goal", "has_target_bounds")):
        raise TE("linearised: `assert goal.has_target_bounds` not found after the guard", g1)
    for st in loop.body[2:]:
        if any(isinstance(n, (ast.Continue, ast.Break)) for n in ast.walk(st)):
            raise TE("linearised: further continue / break in the loop", st)
    return pred


def translate_linearized(tree):
    fn = _find_method(tree, "LinearizedOrderGoalProgrammingMixin", "_gp_goal_constraints")
    if [a.arg for a in fn.args.args] != ["self", "goals", "sym_index", "options", "is_path_goal"]:
        raise TE("LinearizedOrder._gp_goal_constraints: unexpected signature")
    loop = find_loop(fn)
    loopvars = assigned_names(loop.body) | {"j", "goal"}
    out = {}
    prefix, sym, nact, fdef, store = None, None, None, None, None
    for k, st in enumerate(loop.body):
        if isinstance(st, ast.Assign) and len(st.targets) == 1 and is_name(st.targets[0], "path_prefix"):
            v = st.value
            if isinstance(v, ast.IfExp) and is_name(v.test, "is_path_goal") and isinstance(v.body, ast.Constant) \
                    and v.body.value == "path_" and isinstance(v.orelse, ast.Constant) and v.orelse.value == "":
                prefix = "isPath"
            else:
                raise TE("linearised: unsupported path_prefix", st)
        elif isinstance(st, ast.Assign) and len(st.targets) == 1 and is_name(st.targets[0], "linear_variable"):
            sym = sym_record(st.value, prefix, "lineps_{}_{}", {})
        elif isinstance(st, ast.If) and "n_active" in assigned_names([st]):
            nact = translate_n_active(st)
        elif isinstance(st, ast.FunctionDef) and st.name == "_objective_func":
            if nact is None or sym is None:
                raise TE("linearised: closure defined before n_active / linear_variable", st)
            own, late = envs("linear_variable")
            fdef = Closure(st, own, late, loopvars, "linear_variable").lean()
        elif isinstance(st, ast.Assign) and len(st.targets) == 1 and is_attr(st.targets[0], "goal", "_objective_func"):
            if not is_name(st.value, "_objective_func") or fdef is None:
                raise TE("linearised: goal._objective_func is not the closure defined above", st)
            store = True
        elif fdef is not None and ("n_active" in assigned_names([st]) or "linear_variable" in assigned_names([st])):
            raise TE("linearised: n_active / linear_variable reassigned after the closure", st)
    if not (sym and nact and fdef and store):
        raise TE("linearised: linear_variable / n_active / closure / store not all found")
    out["linSym"], out["nActiveLin"], out["objLin"] = sym, nact, fdef
    out["linPred"] = translate_linearize_goal(fn, loop)
    return out


# ------------------------------------------------------------------------------------------------
# callers
# ------------------------------------------------------------------------------------------------

def translate_caller(tree, cls, tgt_obj, tgt_path, ret_index, ret_names):
    """which element of the returned tuple lands in the (path) objective list of the class"""
    calls = []
    cdef = [n for n in ast.walk(tree) if isinstance(n, ast.ClassDef) and n.name == cls]
    if not cdef:
        raise TE("%s not found" % cls)
    for node in ast.walk(cdef[0]):
        if isinstance(node, ast.Assign) and is_call_attr(node.value, "self", "_gp_goal_constraints"):
            calls.append(node)
        elif isinstance(node, ast.Call) and is_attr(node.func, "self", "_gp_goal_constraints"):
            pass
    allc = [n for n in ast.walk(cdef[0]) if isinstance(n, ast.Call) and is_attr(n.func, "self", "_gp_goal_constraints")]
    if len(allc) != len(calls) or len(calls) != 2:
        raise TE("%s: expected two tuple assignments from self._gp_goal_constraints(...)" % cls)

    def tname(t):
        if isinstance(t, ast.Name):
            return t.id
        if isinstance(t, ast.Attribute) and is_name(t.value, "self"):
            return "self." + t.attr
        return None

    res = {}
    for node in calls:
        t = node.targets[0]
        if len(node.targets) != 1 or not isinstance(t, ast.Tuple) or len(t.elts) != len(ret_names):
            raise TE("%s: the result is not unpacked into %d targets" % (cls, len(ret_names)), node)
        v = node.value
        kw = {k.arg: k.value for k in v.keywords}
        if len(v.args) != 3 or set(kw) != {"is_path_goal"} or not isinstance(kw["is_path_goal"], ast.Constant) \
                or not isinstance(kw["is_path_goal"].value, bool):
            raise TE("%s: unsupported call shape" % cls, node)
        flag = "true" if kw["is_path_goal"].value else "false"
        if is_name(v.args[0], "goals"):
            lst = "goals"
        elif is_name(v.args[0], "path_goals"):
            lst = "pathGoals"
        else:
            raise TE("%s: first argument is neither goals nor path_goals" % cls, node)
        if not is_name(v.args[1]) or not is_name(v.args[2], "options"):
            raise TE("%s: sym_index / options arguments" % cls, node)
        names = [tname(e) for e in t.elts]
        for want, key in ((tgt_obj, "obj"), (tgt_path, "pobj")):
            if want in names:
                p = names.index(want)
                if p != ret_index:
                    raise TE("%s: `%s` receives element %d (`%s`) of the returned tuple, `objectives` is element %d"
                             % (cls, want, p, ret_names[p], ret_index), node)
                if key in res:
                    raise TE("%s: `%s` assigned twice" % (cls, want), node)
                res[key] = "objectivesGen sbs %s T val symIndex override gjLate epsLate nLate mLate %s" % (flag, lst)
    if set(res) != {"obj", "pobj"}:
        raise TE("%s: objective lists %s / %s are not both filled from _gp_goal_constraints" % (cls, tgt_obj, tgt_path))
    return res


# ------------------------------------------------------------------------------------------------
# generated module
# ------------------------------------------------------------------------------------------------

CLOS_SIG = ("(val : C03.Val) (isPath : Bool) (goal goalLate : C03.Goal × Nat) (epsilon epsilonLate : C03.EpsSym)\n"
            "    (nActive nActiveLate : Nat → Rat) (mLate : Nat) : C03.Closure :=")
LATE_SIG = "(gjLate : C03.Goal × Nat) (epsLate : C03.EpsSym) (nLate : Nat → Rat) (mLate : Nat)"
LIST_SIG = ("(sbs : Bool) (T : Nat) (val : C03.Val) (symIndex : Nat)\n"
            "    (override : C03.Goal × Nat → Option C03.Closure)\n    " + LATE_SIG)

TEMPLATE = """import RtcVerif.Model.C03Closures
import RtcVerif.Proofs.C03Closures
import RtcVerif.Gen.GpObjective
/-!
GENERATED on every run of the C03 check by harness/translate_c03.py (`gen_objective_func`, translators in
harness/c03_closures.py) from `_GoalProgrammingMixinBase._gp_goal_constraints` (objective part),
`LinearizedOrderGoalProgrammingMixin._gp_goal_constraints` (the closure stored on the goal) and the callers in
goal_programming_mixin.py / single_pass_goal_programming_mixin.py.  Do not edit.

A closure sees, for every name, either the value bound when it was created (default argument: `goal`, `epsilon`,
`nActive`) or — for a free variable the enclosing loop assigns — whatever the loop left behind (`goalLate`,
`epsilonLate`, `nActiveLate`, `mLate`); the theorems quantify over the latter, so a closure that late-binds a loop
variable cannot be proved equal to the model.
-/
set_option linter.unusedVariables false
set_option linter.unusedSimpArgs false
namespace RtcVerif.Gen
open RtcVerif

/-- `epsilon = ca.MX.sym(eps_format.format(sym_index, j), goal.size)` -/
def epsSymGen (isPath : Bool) (symIndex j : Nat) (g : C03.Goal) : C03.EpsSym :=
  %(epsSym)s

/-- `linear_variable = ca.MX.sym(path_prefix + "lineps_{}_{}".format(sym_index, j), goal.size)` -/
def linSymGen (isPath : Bool) (symIndex j : Nat) (g : C03.Goal) : C03.EpsSym :=
  %(linSym)s

/-- `n_active` of a target goal, component `c` -/
def nActiveTargetGen (sbs isPath : Bool) (T : Nat) (g : C03.Goal) (c : Nat) : Rat :=
  %(nActiveTarget)s

/-- `n_active` of a minimisation goal -/
def nActiveMinGen (sbs isPath : Bool) (T : Nat) (g : C03.Goal) (c : Nat) : Rat :=
  %(nActiveMin)s

/-- `n_active` of a linearised goal (LinearizedOrderGoalProgrammingMixin) -/
def nActiveLinGen (sbs isPath : Bool) (T : Nat) (g : C03.Goal) (c : Nat) : Rat :=
  %(nActiveLin)s

/-- `_objective_func` of a goal with target bounds -/
def objFuncTargetGen %(CLOS_SIG)s
  %(objTarget)s

/-- `_objective_func` of a minimisation goal -/
def objFuncMinGen %(CLOS_SIG)s
  %(objMin)s

/-- `_objective_func` stored on a linearised goal (`epsilon` = the linear majorant variable) -/
def objFuncLinGen %(CLOS_SIG)s
  %(objLin)s

/-- the divisors are the model's `Goal.nActive` (the quantity `C03_n_active_counts` is about) -/
theorem nActiveGen_eq_model (sbs isPath : Bool) (T : Nat) (g : C03.Goal) (c : Nat) :
    (g.hasBounds = true → nActiveTargetGen sbs isPath T g c = g.nActive sbs isPath T c)
    ∧ (g.hasBounds = true → nActiveLinGen sbs isPath T g c = g.linearized.nActive sbs isPath T c)
    ∧ (g.hasBounds = false → nActiveMinGen sbs isPath T g c = g.nActive sbs isPath T c) := by
  refine ⟨fun hb => ?_, fun hb => ?_, fun hb => ?_⟩
  · cases isPath <;> cases sbs <;>
      simp [nActiveTargetGen, C03.Goal.nActive, C03.Goal.activeCount, C03.Goal.activeAt, hb, Bool.or_comm, Nat.max_comm]
  · have hb' : g.linearized.hasBounds = true := hb
    cases isPath <;> cases sbs <;>
      simp [nActiveLinGen, C03.Goal.nActive, C03.Goal.activeCount, C03.Goal.activeAt, hb', Bool.or_comm, Nat.max_comm] <;>
      simp [C03.Goal.linearized]
  · cases isPath <;> cases sbs <;>
      simp [nActiveMinGen, C03.Goal.nActive, hb, Nat.max_comm]

theorem objFuncTargetGen_eq_model (sbs isPath : Bool) (T : Nat) (val : C03.Val) (symIndex : Nat)
    (gj : C03.Goal × Nat) %(LATE_SIG)s
    (hc : gj.1.critical = false) (hb : gj.1.hasBounds = true) :
    objFuncTargetGen val isPath gj gjLate (epsSymGen isPath symIndex gj.2 gj.1) epsLate
        (nActiveTargetGen sbs isPath T gj.1) nLate mLate
      = C03.closureOf sbs isPath T val gj := by
  funext m i
  cases isPath <;> cases sbs <;>
    (simp [objFuncTargetGen, epsSymGen, nActiveTargetGen, C03.closureOf, C03.objVec, C03.base, C03.Goal.nActive,
      C03.Goal.activeCount, C03.Goal.activeAt, C03.readVariable, C03.readExtra, C03.readFunction, hc, hb,
      Bool.or_comm, Nat.max_comm] <;> intros <;> ring)

theorem objFuncMinGen_eq_model (sbs isPath : Bool) (T : Nat) (val : C03.Val)
    (gj : C03.Goal × Nat) %(LATE_SIG)s
    (hc : gj.1.critical = false) (hb : gj.1.hasBounds = false) :
    objFuncMinGen val isPath gj gjLate epsLate epsLate (nActiveMinGen sbs isPath T gj.1) nLate mLate
      = C03.closureOf sbs isPath T val gj := by
  funext m i
  cases isPath <;> cases sbs <;>
    (simp [objFuncMinGen, nActiveMinGen, C03.closureOf, C03.objVec, C03.base, C03.Goal.nActive,
      C03.readVariable, C03.readExtra, C03.readFunction, hc, hb, Nat.max_comm] <;> intros <;> ring)

/-- the closure of the linearising mixin is the objective function of the same goal with exponent 1 (on the linear
    majorant variable), same weight and same divisor -/
theorem objFuncLinGen_eq_model (sbs isPath : Bool) (T : Nat) (val : C03.Val) (symIndex : Nat)
    (gj : C03.Goal × Nat) %(LATE_SIG)s
    (hc : gj.1.critical = false) (hb : gj.1.hasBounds = true) :
    objFuncLinGen val isPath gj gjLate (linSymGen isPath symIndex gj.2 gj.1) epsLate
        (nActiveLinGen sbs isPath T gj.1) nLate mLate
      = C03.closureOf sbs isPath T val (gj.1.linearized, gj.2) := by
  have hc' : gj.1.linearized.critical = false := hc
  have hb' : gj.1.linearized.hasBounds = true := hb
  funext m i
  cases isPath <;> cases sbs <;>
    (simp [objFuncLinGen, linSymGen, nActiveLinGen, C03.closureOf, C03.objVec, C03.base, C03.Goal.nActive,
      C03.Goal.activeCount, C03.Goal.activeAt, C03.readVariable, C03.readExtra, C03.readFunction, hc', hb',
      Bool.or_comm, Nat.max_comm] <;>
    simp [C03.Goal.linearized, Bool.or_comm, Nat.max_comm] <;> intros <;> ring)

/-- loop body of `_gp_goal_constraints`: what goal `gj` appends to `objectives` (`override gj` = the attribute
    `goal._objective_func` if the goal has one) -/
def goalObjectiveGen %(GOAL_SIG)s (gj : C03.Goal × Nat) : Option C03.Closure :=
  if %(append_test)s then
    some %(value)s
  else none

/-- the list `objectives` (element %(ret_index)d of the returned tuple) -/
def objectivesGen (sbs isPath : Bool) (T : Nat) (val : C03.Val) (symIndex : Nat)
    (override : C03.Goal × Nat → Option C03.Closure)
    %(LATE_SIG)s (goals : List C03.Goal) : List C03.Closure :=
  (C03.indexed goals).filterMap (goalObjectiveGen sbs isPath T val symIndex override gjLate epsLate nLate mLate)

theorem goalObjectiveGen_eq_model (sbs isPath : Bool) (T : Nat) (val : C03.Val) (symIndex : Nat)
    %(LATE_SIG)s (gj : C03.Goal × Nat) :
    goalObjectiveGen sbs isPath T val symIndex (fun _ => none) gjLate epsLate nLate mLate gj
      = C03.goalClosure sbs isPath T val gj := by
  unfold goalObjectiveGen C03.goalClosure
  cases hc : gj.1.critical
  · cases hb : gj.1.hasBounds
    · simp [objFuncMinGen_eq_model sbs isPath T val gj gjLate epsLate nLate mLate hc hb]
    · simp [objFuncTargetGen_eq_model sbs isPath T val symIndex gj gjLate epsLate nLate mLate hc hb]
  · simp

theorem objectivesGen_eq_model (sbs isPath : Bool) (T : Nat) (val : C03.Val) (symIndex : Nat)
    %(LATE_SIG)s (goals : List C03.Goal) :
    objectivesGen sbs isPath T val symIndex (fun _ => none) gjLate epsLate nLate mLate goals
      = C03.closures sbs isPath T val goals := by
  unfold objectivesGen C03.closures
  congr 1
  funext gj
  exact goalObjectiveGen_eq_model sbs isPath T val symIndex gjLate epsLate nLate mLate gj

theorem goalObjectiveGen_congr (sbs isPath : Bool) (T : Nat) (val : C03.Val) (symIndex : Nat)
    (o1 o2 : C03.Goal × Nat → Option C03.Closure)
    %(LATE_SIG)s (gj : C03.Goal × Nat) (h : o1 gj = o2 gj) :
    goalObjectiveGen sbs isPath T val symIndex o1 gjLate epsLate nLate mLate gj
      = goalObjectiveGen sbs isPath T val symIndex o2 gjLate epsLate nLate mLate gj := by
  unfold goalObjectiveGen
  simp only [h]

/-- the `hasattr(goal, '_objective_func')` branch comes first: a goal carrying an override contributes exactly that
    closure (also when it has target bounds), a critical goal still nothing -/
theorem goalObjectiveGen_override (sbs isPath : Bool) (T : Nat) (val : C03.Val) (symIndex : Nat)
    (override : C03.Goal × Nat → Option C03.Closure)
    %(LATE_SIG)s (gj : C03.Goal × Nat) (f : C03.Closure)
    (ho : override gj = some f) :
    goalObjectiveGen sbs isPath T val symIndex override gjLate epsLate nLate mLate gj
      = if gj.1.critical then none else some f := by
  unfold goalObjectiveGen
  cases hc : gj.1.critical <;> simp [ho]

/-- LinearizedOrderGoalProgrammingMixin: with the stored closures as overrides of the goals `lin` selects (all of them
    target goals: the mixin asserts it), the objective list is the model's list for the goals with exponent 1 -/
theorem objectivesGen_linearized (sbs isPath : Bool) (T : Nat) (val : C03.Val) (symIndex : Nat)
    %(LATE_SIG)s (lin : C03.Goal × Nat → Bool) (goals : List C03.Goal)
    (hlin : ∀ gj, lin gj = true → gj.1.hasBounds = true) :
    objectivesGen sbs isPath T val symIndex
        (fun gj => if lin gj then some (objFuncLinGen val isPath gj gjLate (linSymGen isPath symIndex gj.2 gj.1) epsLate
            (nActiveLinGen sbs isPath T gj.1) nLate mLate) else none) gjLate epsLate nLate mLate goals
      = (C03.indexed goals).filterMap (fun gj =>
          C03.goalClosure sbs isPath T val (if lin gj then gj.1.linearized else gj.1, gj.2)) := by
  unfold objectivesGen
  congr 1
  funext gj
  cases hl : lin gj
  · have h0 : (fun gj : C03.Goal × Nat => if lin gj then some (objFuncLinGen val isPath gj gjLate
        (linSymGen isPath symIndex gj.2 gj.1) epsLate (nActiveLinGen sbs isPath T gj.1) nLate mLate) else none) gj
        = (fun _ => none) gj := by simp [hl]
    rw [goalObjectiveGen_congr sbs isPath T val symIndex _ (fun _ => none) gjLate epsLate nLate mLate gj h0,
      goalObjectiveGen_eq_model]
    simp
  · have h1 : (fun gj : C03.Goal × Nat => if lin gj then some (objFuncLinGen val isPath gj gjLate
        (linSymGen isPath symIndex gj.2 gj.1) epsLate (nActiveLinGen sbs isPath T gj.1) nLate mLate) else none) gj
        = some (objFuncLinGen val isPath gj gjLate
        (linSymGen isPath symIndex gj.2 gj.1) epsLate (nActiveLinGen sbs isPath T gj.1) nLate mLate) := by simp [hl]
    rw [goalObjectiveGen_override sbs isPath T val symIndex _ gjLate epsLate nLate mLate gj _ h1]
    cases hc : gj.1.critical
    · have hc' : gj.1.linearized.critical = false := hc
      simp [C03.goalClosure, hc',
        objFuncLinGen_eq_model sbs isPath T val symIndex gj gjLate epsLate nLate mLate hc (hlin _ hl)]
    · have hc' : gj.1.linearized.critical = true := hc
      simp [C03.goalClosure, hc']

/-- `_linearize_goal(goal)` (`gl` = the goal's own `linearize_order`, `none` for a plain `Goal`) -/
def linearizeGoalGen (optLin : Bool) (gl : Option Bool) (g : C03.Goal) : Bool :=
  %(linPred)s

theorem linearizeGoalGen_eq_model (optLin : Bool) (gl : Option Bool) (g : C03.Goal) :
    linearizeGoalGen optLin gl g = C03.isLinearized optLin gl g := by
  unfold linearizeGoalGen C03.isLinearized
  cases gl with
  | none => cases optLin <;> cases g.critical <;> simp
  | some b => cases b <;> cases optLin <;> cases g.critical <;> simp

/-- the attribute the linearising mixin leaves on the goal: `if not _linearize_goal(goal): continue` ...
    `goal._objective_func = _objective_func` -/
def linOverrideGen (sbs isPath : Bool) (T : Nat) (val : C03.Val) (symIndex : Nat) (optLin : Bool)
    (gl : C03.Goal × Nat → Option Bool) %(LATE_SIG)s (gj : C03.Goal × Nat) : Option C03.Closure :=
  if !(linearizeGoalGen optLin (gl gj) gj.1) then none
  else some (objFuncLinGen val isPath gj gjLate (linSymGen isPath symIndex gj.2 gj.1) epsLate
    (nActiveLinGen sbs isPath T gj.1) nLate mLate)

/-- LinearizedOrderGoalProgrammingMixin, whole method: the objective list is the model's list for the goals in which
    exactly the goals `_linearize_goal` selects (own setting first, then the option; order > 1, not critical) have
    exponent 1 (`hlin` = the mixin's `assert goal.has_target_bounds`) -/
theorem objectivesGen_linearizedMixin (sbs isPath : Bool) (T : Nat) (val : C03.Val) (symIndex : Nat) (optLin : Bool)
    (gl : C03.Goal × Nat → Option Bool) %(LATE_SIG)s (goals : List C03.Goal)
    (hlin : ∀ gj, C03.isLinearized optLin (gl gj) gj.1 = true → gj.1.hasBounds = true) :
    objectivesGen sbs isPath T val symIndex
        (linOverrideGen sbs isPath T val symIndex optLin gl gjLate epsLate nLate mLate) gjLate epsLate nLate mLate goals
      = (C03.indexed goals).filterMap (fun gj =>
          C03.goalClosure sbs isPath T val
            (if C03.isLinearized optLin (gl gj) gj.1 then gj.1.linearized else gj.1, gj.2)) := by
  have h : linOverrideGen sbs isPath T val symIndex optLin gl gjLate epsLate nLate mLate
      = fun gj => if (fun gj => C03.isLinearized optLin (gl gj) gj.1) gj then
          some (objFuncLinGen val isPath gj gjLate (linSymGen isPath symIndex gj.2 gj.1) epsLate
            (nActiveLinGen sbs isPath T gj.1) nLate mLate) else none := by
    funext gj
    unfold linOverrideGen
    rw [linearizeGoalGen_eq_model]
    cases hl : C03.isLinearized optLin (gl gj) gj.1 <;> simp [hl]
  rw [h]
  exact objectivesGen_linearized sbs isPath T val symIndex gjLate epsLate nLate mLate
    (fun gj => C03.isLinearized optLin (gl gj) gj.1) goals hlin

/-! ## callers: which returned list feeds `_gp_objective` / `_gp_path_objective` -/

/-- `GoalProgrammingMixin.__subproblem_objectives` -/
def subproblemObjectivesGen %(LIST_SIG)s (goals pathGoals : List C03.Goal) : List C03.Closure :=
  %(gp_obj)s

/-- `GoalProgrammingMixin.__subproblem_path_objectives` -/
def subproblemPathObjectivesGen %(LIST_SIG)s (goals pathGoals : List C03.Goal) : List C03.Closure :=
  %(gp_pobj)s

/-- SinglePassGoalProgrammingMixin: `subproblem_objectives` of one priority -/
def spObjectivesGen %(LIST_SIG)s (goals pathGoals : List C03.Goal) : List C03.Closure :=
  %(sp_obj)s

/-- SinglePassGoalProgrammingMixin: `subproblem_path_objectives` of one priority -/
def spPathObjectivesGen %(LIST_SIG)s (goals pathGoals : List C03.Goal) : List C03.Closure :=
  %(sp_pobj)s

theorem subproblemLists_eq_model (sbs : Bool) (T : Nat) (val : C03.Val) (symIndex : Nat)
    %(LATE_SIG)s (goals pathGoals : List C03.Goal) :
    subproblemObjectivesGen sbs T val symIndex (fun _ => none) gjLate epsLate nLate mLate goals pathGoals
        = C03.closures sbs false T val goals
    ∧ subproblemPathObjectivesGen sbs T val symIndex (fun _ => none) gjLate epsLate nLate mLate goals pathGoals
        = C03.closures sbs true T val pathGoals
    ∧ spObjectivesGen sbs T val symIndex (fun _ => none) gjLate epsLate nLate mLate goals pathGoals
        = C03.closures sbs false T val goals
    ∧ spPathObjectivesGen sbs T val symIndex (fun _ => none) gjLate epsLate nLate mLate goals pathGoals
        = C03.closures sbs true T val pathGoals := by
  refine ⟨?_, ?_, ?_, ?_⟩ <;>
    first
    | exact objectivesGen_eq_model sbs false T val symIndex gjLate epsLate nLate mLate goals
    | exact objectivesGen_eq_model sbs true T val symIndex gjLate epsLate nLate mLate pathGoals

/-- whole chain, point goals: the translated `_gp_objective` applied to the translated closure list of the translated
    caller is the model's `gpObjective` (which `C03_subproblem_is_documented` / `C03_terms_eval` are about) -/
theorem gpObjective_chain (sbs : Bool) (T : Nat) (val : C03.Val) (symIndex : Nat)
    %(LATE_SIG)s (goals pathGoals : List C03.Goal) (m n : Nat) :
    gpObjectiveGen sbs (fun o : C03.Closure => o m 0)
        (subproblemObjectivesGen sbs T val symIndex (fun _ => none) gjLate epsLate nLate mLate goals pathGoals) n
      = C03.gpObjective sbs false T val m 0 goals n := by
  rw [← gpObjectiveGen_eq_model,
    (subproblemLists_eq_model sbs T val symIndex gjLate epsLate nLate mLate goals pathGoals).1, C03.closures_eq_map]
  unfold gpObjectiveGen
  simp only [List.flatMap_map, List.length_map]
  rfl

/-- whole chain, path goals, at every time step `i` -/
theorem gpPathObjective_chain (sbs : Bool) (T : Nat) (val : C03.Val) (symIndex : Nat)
    %(LATE_SIG)s (goals pathGoals : List C03.Goal) (m i n : Nat) :
    gpPathObjectiveGen sbs (fun o : C03.Closure => o m i)
        (subproblemPathObjectivesGen sbs T val symIndex (fun _ => none) gjLate epsLate nLate mLate goals pathGoals) n
      = C03.gpObjective sbs true T val m i pathGoals n := by
  rw [← gpPathObjectiveGen_eq_model,
    (subproblemLists_eq_model sbs T val symIndex gjLate epsLate nLate mLate goals pathGoals).2.1, C03.closures_eq_map]
  unfold gpPathObjectiveGen
  simp only [List.flatMap_map, List.length_map]
  rfl

/-- whole chain, `_gp_n_objectives` -/
theorem gpNObjectives_chain (sbs : Bool) (T : Nat) (val : C03.Val) (symIndex : Nat)
    %(LATE_SIG)s (goals pathGoals : List C03.Goal) (m : Nat) :
    gpNObjectivesGen (fun o : C03.Closure => o m 0) (fun o : C03.Closure => o m 0)
        (subproblemObjectivesGen sbs T val symIndex (fun _ => none) gjLate epsLate nLate mLate goals pathGoals)
        (subproblemPathObjectivesGen sbs T val symIndex (fun _ => none) gjLate epsLate nLate mLate goals pathGoals)
      = C03.nObjectives sbs T val m goals pathGoals := by
  rw [← gpNObjectivesGen_eq_model,
    (subproblemLists_eq_model sbs T val symIndex gjLate epsLate nLate mLate goals pathGoals).1,
    (subproblemLists_eq_model sbs T val symIndex gjLate epsLate nLate mLate goals pathGoals).2.1,
    C03.closures_eq_map, C03.closures_eq_map]
  unfold gpNObjectivesGen
  simp only [List.flatMap_map]
  rfl

/-- **whole chain**: closures read from `_gp_goal_constraints`, handed over by the translated callers, evaluated by the
    translated `_gp_n_objectives` / `_gp_objective` (once) / `_gp_path_objective` (every time step), weighted with the
    member probabilities: the documented objective of the priority -/
theorem documented_chain (sbs : Bool) (T : Nat) (probs : List Rat) (val : C03.Val) (symIndex : Nat)
    %(LATE_SIG)s (goals pathGoals : List C03.Goal) :
    (probs.zipIdx.map fun pm =>
      pm.1 * (gpObjectiveGen sbs (fun o : C03.Closure => o pm.2 0)
          (subproblemObjectivesGen sbs T val symIndex (fun _ => none) gjLate epsLate nLate mLate goals pathGoals)
          (gpNObjectivesGen (fun o : C03.Closure => o pm.2 0) (fun o : C03.Closure => o pm.2 0)
            (subproblemObjectivesGen sbs T val symIndex (fun _ => none) gjLate epsLate nLate mLate goals pathGoals)
            (subproblemPathObjectivesGen sbs T val symIndex (fun _ => none) gjLate epsLate nLate mLate goals pathGoals))
        + ((List.range T).map fun i => gpPathObjectiveGen sbs (fun o : C03.Closure => o pm.2 i)
          (subproblemPathObjectivesGen sbs T val symIndex (fun _ => none) gjLate epsLate nLate mLate goals pathGoals)
          (gpNObjectivesGen (fun o : C03.Closure => o pm.2 0) (fun o : C03.Closure => o pm.2 0)
            (subproblemObjectivesGen sbs T val symIndex (fun _ => none) gjLate epsLate nLate mLate goals pathGoals)
            (subproblemPathObjectivesGen sbs T val symIndex (fun _ => none) gjLate epsLate nLate mLate goals
              pathGoals))).sum)).sum
      = C03.documented sbs T probs val goals pathGoals := by
  rw [← C03.objective_eq_documented]
  simp only [gpNObjectives_chain, gpObjective_chain, gpPathObjective_chain]
  rfl

/-- non-vacuity: two goals (a size-2 path target goal whose second component is never active, a path minimisation
    goal with nominal 10), `scale_by_problem_size`, T = 3: the generated closures give distinct non-trivial vectors
    per goal, member and step, equal to the model's, and the late-bound values play no role -/
example :
    let g1 : C03.Goal := { size := 2, weight := 3, order := 2, nominal := [1],
                           tmin := .ts2 [[.fin 1, .nan], [.fin 2, .nan], [.nan, .nan]], tmax := .scalar .nan,
                           critical := false }
    let g2 : C03.Goal := { size := 1, weight := 2, order := 1, nominal := [10],
                           tmin := .scalar .nan, tmax := .scalar .nan, critical := false }
    let val : C03.Val := fun isPath j c m i => if isPath then (1 + 2 * j + c + 3 * m + 5 * i : Nat) else 0
    let junk : C03.Goal × Nat := (g2, 7)
    (objectivesGen true true 3 val 0 (fun _ => none) junk ⟨false, 9, 9, 9⟩ (fun _ => 0) 5 [g1, g2]).map (fun o => o 1 2)
      = [[294, 675], [16 / 15]]
    ∧ (C03.closures true true 3 val [g1, g2]).map (fun o => o 1 2) = [[294, 675], [16 / 15]] := by
  decide +kernel

end RtcVerif.Gen
"""

THEOREMS = ["nActiveGen_eq_model", "documented_chain", "objFuncTargetGen_eq_model", "objFuncMinGen_eq_model", "objFuncLinGen_eq_model",
            "goalObjectiveGen_eq_model", "objectivesGen_eq_model", "goalObjectiveGen_override",
            "objectivesGen_linearized", "linearizeGoalGen_eq_model",
            "objectivesGen_linearizedMixin", "subproblemLists_eq_model", "gpObjective_chain", "gpPathObjective_chain",
            "gpNObjectives_chain"]


def translate_all(repo=REPO):
    def tree(rel):
        return ast.parse(open(os.path.join(repo, rel)).read())

    parts = translate_base(tree(BASE))
    parts.update(translate_linearized(tree(LOM)))
    gp = translate_caller(tree(GPM), "GoalProgrammingMixin", "self.__subproblem_objectives",
                          "self.__subproblem_path_objectives", parts["ret_index"], parts["ret_names"])
    sp = translate_caller(tree(SPM), "SinglePassGoalProgrammingMixin", "subproblem_objectives",
                          "subproblem_path_objectives", parts["ret_index"], parts["ret_names"])
    parts.update({"gp_obj": gp["obj"], "gp_pobj": gp["pobj"], "sp_obj": sp["obj"], "sp_pobj": sp["pobj"],
                  "CLOS_SIG": CLOS_SIG, "GOAL_SIG": LIST_SIG.replace("(sbs : Bool)", "(sbs isPath : Bool)"), "LATE_SIG": LATE_SIG, "LIST_SIG": LIST_SIG})
    return TEMPLATE % parts


def generate(c):
    gdir = os.path.join(LEAN_DIR, "RtcVerif", "Gen")
    os.makedirs(gdir, exist_ok=True)
    path = os.path.join(gdir, "GpObjectiveFunc.lean")
    try:
        text = translate_all()
    except (TranslationError, OSError, SyntaxError) as e:
        c.broken.append(("translator: _gp_goal_constraints._objective_func", str(e)))
        return []
    old = open(path).read() if os.path.exists(path) else None
    if old != text:
        tmp = path + ".tmp%d" % os.getpid()
        with open(tmp, "w") as f:
            f.write(text)
        os.replace(tmp, path)
    return [("RtcVerif.Gen.GpObjectiveFunc", "RtcVerif.Gen", THEOREMS)]
