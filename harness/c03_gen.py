"""Instance generator shared by the C03 and C17 checks (see c03_synth for the instance format)."""
import math

from .c03_synth import VAR_RANGE

NAN = float("nan")
INF = float("inf")

TARGET_BASE = {"x": (-8, 8), "y": (-8, 8), "u": (-8, 8), "w": (-3, 20)}


def gen_target(rng, path, size, T, lo, hi, allow_gaps=True):
    """a target spec within (lo, hi) (exclusive), in one of the documented shapes"""
    def val():
        return float(rng.randint(lo, hi))

    def gap(v):
        if not allow_gaps:
            return v
        r = rng.random()
        if r < 0.2:
            return NAN
        if r < 0.27:
            return None  # placeholder for +-inf, fixed by caller
        return v

    if size == 1:
        if not path or rng.random() < 0.45:
            return {"k": "sc", "v": val()}
        base = val()
        vs = [gap(base + rng.choice([0.0, 0.0, 1.0, -1.0, 0.5])) for _ in range(T)]
        return {"k": "ts", "v": vs}
    if not path:
        r = rng.random()
        if r < 0.3:
            return {"k": "sc", "v": val()}
        return {"k": "vec", "v": [gap(val()) for _ in range(size)]}
    r = rng.random()
    if r < 0.15:
        return {"k": "sc", "v": val()}
    if r < 0.4:
        return {"k": "vec", "v": [gap(val()) for _ in range(size)]}
    if r < 0.55:
        return {"k": "ts", "v": [gap(val()) for _ in range(T)]}
    return {"k": "ts2", "v": [[gap(val()) for _ in range(size)] for _ in range(T)]}


def _map_target(t, f):
    if t is None:
        return None
    k, v = t["k"], t["v"]
    if k == "sc":
        return {"k": k, "v": f(v)}
    if k == "ts2":
        return {"k": k, "v": [[f(x) for x in row] for row in v]}
    return {"k": k, "v": [f(x) for x in v]}


def _fix_inf(t, sign):
    return _map_target(t, lambda x: (sign * INF) if x is None else x)


def _has_finite(t):
    if t is None:
        return False
    k, v = t["k"], t["v"]
    xs = [v] if k == "sc" else ([x for row in v for x in row] if k == "ts2" else v)
    return any(isinstance(x, float) and math.isfinite(x) for x in xs)


def gen_goal(rng, priority, T, mode, orders, allow_vector, allow_critical=False, allow_relax=True, allow_offset=True):
    path = rng.random() < 0.65
    vec = allow_vector and rng.random() < 0.35
    if vec:
        size = rng.choice([2, 2, 3])
        vars_ = rng.sample(["x", "y", "u", "w"], size)
    else:
        size = 1
        vars_ = [rng.choice(["x", "y", "u", "w", "x", "u"])]
    kind = rng.choice(["min", "tmin", "tmax", "both", "tmin", "tmax"])
    s = {"path": path, "vars": vars_, "kind": kind, "priority": priority,
         "order": rng.choice(orders), "weight": rng.choice([1.0, 1.0, 2.5, 0.5]),
         "ti": rng.randrange(T)}
    if size > 1 and rng.random() < 0.5:
        s["nominal"] = [rng.choice([1.0, 10.0, 0.5, 2.0]) for _ in range(size)]
    else:
        s["nominal"] = [rng.choice([1.0, 1.0, 10.0, 0.5])]
    # goal function = variable + constant offset (same offset for all components: keeps target shapes simple)
    o = rng.choice([0.0, 0.0, 0.0, 7.0, -2.5]) if allow_offset else 0.0
    if o:
        s["offset"] = [o] * size
    if kind == "min":
        return s
    s["range"] = ([VAR_RANGE[v][0] + o for v in vars_], [VAR_RANGE[v][1] + o for v in vars_])
    if size > 1 and len(set(s["range"][0])) == 1 and len(set(s["range"][1])) == 1 and rng.random() < 0.5:
        s["range"] = ([s["range"][0][0]], [s["range"][1][0]])
    lo = int(max(TARGET_BASE[v][0] for v in vars_) + math.ceil(o))
    hi = int(min(TARGET_BASE[v][1] for v in vars_) + math.floor(o))
    if kind in ("tmin", "both"):
        for _ in range(20):
            t = _fix_inf(gen_target(rng, path, size, T, lo, hi), -1)
            if _has_finite(t):
                break
        else:
            t = {"k": "sc", "v": float(lo)}
        s["tmin"] = t
    if kind in ("tmax", "both"):
        if kind == "both":
            gapw = rng.choice([1.0, 3.0, 3.0])
            s["tmax"] = _map_target(s["tmin"], lambda x: x + gapw if math.isfinite(x) else (INF if x == -INF else x))
            if rng.random() < 0.3:  # different gaps on the two sides
                s["tmax"] = _map_target(s["tmax"], lambda x: NAN if (math.isfinite(x) and rng.random() < 0.3) else x)
                if not _has_finite(s["tmax"]):
                    s["tmax"] = _map_target(s["tmin"], lambda x: x + gapw if math.isfinite(x) else INF)
        else:
            for _ in range(20):
                t = _fix_inf(gen_target(rng, path, size, T, lo, hi), 1)
                if _has_finite(t):
                    break
            else:
                t = {"k": "sc", "v": float(hi)}
            s["tmax"] = t
    if allow_critical and size == 1 and rng.random() < 0.5:
        s["critical"] = True
        s.pop("range")
    elif allow_relax and mode == "default" and rng.random() < 0.2:
        s["relaxation"] = rng.choice([0.1, 0.5])
    return s


def square_risk(inst):
    """matcher of known finding F49: with fix_minimized_values, goals of different priorities on
    the same function (different function keys) leave redundant equality rows; once the number of
    equalities reaches the number of variables IPOPT treats the problem as a square feasibility
    problem, skips the optimisation and reports success at its starting point"""
    if not inst["opts"].get("fix_minimized_values"):
        return False
    seen = {}
    for s in inst["goals"]:
        if s.get("critical"):
            continue
        for v in s["vars"]:
            key = (v, s["path"], None if s["path"] else s["ti"])
            seen.setdefault(key, set()).add(int(s["priority"]))
            if s["path"]:
                pass
    # a path goal also covers the point goals on the same variable
    for (v, path, ti), pr in list(seen.items()):
        if not path and (v, True, None) in seen:
            seen[(v, True, None)] |= pr
    return any(len(p) > 1 for p in seen.values())


def gen_instance(rng, mode=None, solver="highs", orders=(1,), max_prio=3, allow_vector=None,
                 allow_critical=True, allow_empty=True, linearize=False):
    if linearize:
        mode = mode or rng.choice(["keep", "keep", "sp1", "sp2", "default"])
    mode = mode or rng.choice(["default", "default", "keep", "sp1", "sp2"])
    T = rng.choice([2, 3, 3, 4, 5])
    t0 = rng.choice([0.0, 0.0, 1.5])
    times = [t0]
    for _ in range(T - 1):
        times.append(times[-1] + rng.choice([0.5, 1.0, 1.0, 2.0, 0.25]))
    E = rng.choice([1, 1, 2, 2, 3])
    if rng.random() < 0.6:
        raw = [rng.choice([1, 2, 3, 5]) for _ in range(E)]
        probs = [r / sum(raw) for r in raw]
    else:
        probs = [rng.choice([0.2, 0.25, 0.5, 1.0, 0.3]) for _ in range(E)]
    pv = lambda: [rng.choice([0.0, 0.5, 1.0, 2.0]), rng.choice([0.0, 1.0, -3.0])]  # noqa
    cv = lambda: [rng.choice([-1.0, 0.5, 1.0, 0.0, 2.0]) for _ in range(T)]  # noqa
    pvals = [pv() for _ in range(E)]
    cvals = [cv() for _ in range(E)]
    if E > 1 and rng.random() < 1 / 3:
        pvals = [pvals[0]] * E
    if E > 1 and rng.random() < 1 / 4:
        cvals = [cvals[0]] * E
    inst = {"times": times, "theta": rng.choice([1.0, 1.0, 1.0, 0.5]), "probs": probs, "pvals": pvals,
            "cvals": cvals, "mode": mode, "solver": solver}
    if rng.random() < 0.5:
        inst["nominals"] = {"x": rng.choice([1.0, 10.0, 0.1]), "u": rng.choice([1.0, 2.0])}
    opts = {"scale_by_problem_size": rng.random() < 0.5,
            "fix_minimized_values": rng.random() < 0.35,
            "constraint_relaxation": rng.choice([0.0, 0.0, 0.01])}
    if mode == "default" and rng.random() < 0.25:
        opts["violation_relaxation"] = 0.01
    inst["opts"] = opts
    if allow_vector is None:
        allow_vector = mode != "default"
    nprio = rng.randint(1, max_prio)
    prios = sorted(rng.sample([1, 2, 3, 5, 10, 20], nprio))
    goals = []
    for pi, p in enumerate(prios):
        for _ in range(rng.choice([1, 1, 2, 3])):
            goals.append(gen_goal(rng, p, T, mode, orders, allow_vector,
                                  allow_critical=(allow_critical and pi == 0 and rng.random() < 0.15)))
    if allow_empty and rng.random() < 0.1:  # a goal that is documented to be dropped (no finite target)
        p = rng.choice(prios + [7])
        goals.append({"path": True, "vars": ["x"], "kind": "tmin", "priority": p, "order": 1, "weight": 1.0,
                      "ti": 0, "nominal": [1.0], "range": ([-50.0], [50.0]),
                      "tmin": {"k": "ts", "v": [NAN] * T}})
    rng.shuffle(goals)
    # the first priority must not consist of critical goals only with nothing to optimise: fine for
    # the code, but uninformative; keep as generated.
    inst["goals"] = goals
    if solver == "ipopt" and square_risk(inst):
        inst["opts"]["fix_minimized_values"] = False
    if linearize:
        inst["linearize"] = True
        for s in goals:  # higher-order minimisation goals are rejected by the linearising mixin
            if s["kind"] == "min":
                s["order"] = 1
    inst["goals"] = goals
    return inst
