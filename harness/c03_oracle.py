"""
Independent re-statement (plain Python, physical units, own variable layout) of the documented
per-priority goal-programming subproblem for the synthetic instances of `c03_synth`, and its
solution with an independent solver (scipy `linprog`/HiGHS for LPs, IPOPT through CasADi for QPs).

Nothing here calls rtc-tools.  Quantities that the documented retained constraints depend on
(achieved epsilons / function values / objective values of *earlier* priorities) are taken from
the real run.
"""
import math

import numpy as np

from .c03_synth import VAR_RANGE, is_linearized, priorities_of

NAN = float("nan")
INF = float("inf")


# ---------------------------------------------------------------------------------------------
# targets


def target_matrix(t, size, T, fill):
    """(size x T) array of a target spec for a path goal / (size x 1) for a point goal (T=None);
    re-statement of the documented broadcasting: scalar -> everywhere, vector -> per component,
    series -> per time stamp, 2-D series -> per time stamp and component"""
    n = 1 if T is None else T
    out = np.full((size, n), NAN)
    if t is None:
        return out
    k, v = t["k"], t["v"]
    for c in range(size):
        for i in range(n):
            if k == "sc":
                out[c, i] = v
            elif k == "vec":
                out[c, i] = v[c] if len(v) > 1 else v[0]
            elif k == "ts":
                out[c, i] = v[i]
            else:
                out[c, i] = v[i][c]
    return out


def finite(x):
    return not (math.isnan(x) or math.isinf(x))


def goal_shape(s, T):
    size = len(s["vars"])
    n = T if s["path"] else 1
    return size, n


def n_active(s, T, sbs):
    """documented divisor per component: number of time steps with a finite target (at least 1)
    for path target goals, number of time steps for path minimisation goals, when
    scale_by_problem_size; otherwise 1"""
    size, n = goal_shape(s, T)
    if not (sbs and s["path"]):
        return [1] * size
    if s["kind"] == "min":
        return [T] * size
    tm = target_matrix(s.get("tmin"), size, T, -INF)
    tM = target_matrix(s.get("tmax"), size, T, INF)
    return [max(1, sum(1 for i in range(T) if finite(tm[c, i]) or finite(tM[c, i]))) for c in range(size)]


def documented_terms(inst, gis):
    """documented objective of one priority as a list of terms
       (gi, member, comp, step|None, coefficient, nominal, order):
       sum_m prob_m / n_obj * [ w * base^order / n_active ], base = eps (target) or f/nominal (min)"""
    T = len(inst["times"])
    sbs = bool(inst["opts"].get("scale_by_problem_size", False))
    goals = [inst["goals"][gi] for gi in gis]
    n_obj = sum(len(s["vars"]) for s in goals if not s.get("critical"))
    terms = []
    for m, pm in enumerate(inst["probs"]):
        for gi in gis:
            s = inst["goals"][gi]
            if s.get("critical"):
                continue
            size, n = goal_shape(s, T)
            na = n_active(s, T, sbs)
            for c in range(size):
                nom = 1.0 if s["kind"] != "min" else (s["nominal"][c] if len(s["nominal"]) > 1 else s["nominal"][0])
                for i in range(n):
                    coef = pm * s["weight"] / na[c]
                    if sbs:
                        coef = coef / n_obj
                    # a linearised goal is penalised through its linear majorant variable (order 1)
                    order = 1 if is_linearized(inst, s) else s["order"]
                    terms.append((gi, m, c, i if s["path"] else None, coef, nom, order))
    return terms


# ---------------------------------------------------------------------------------------------
# the independent formulation


class Formulation:
    def __init__(self):
        self.names = {}
        self.lb = []
        self.ub = []
        self.rows = []  # (dict idx->coef, lo, hi)
        self.lin = {}  # objective, linear
        self.sq = []  # (kappa, dict idx->coef, const): kappa * (a.x + const)^2
        self.const = 0.0

    def var(self, key, lb=-INF, ub=INF):
        if key not in self.names:
            self.names[key] = len(self.lb)
            self.lb.append(lb)
            self.ub.append(ub)
        return self.names[key]

    def row(self, coefs, lo, hi, slack=0.0):
        if slack:
            lo = lo - slack * (1.0 + abs(lo)) if lo > -INF else lo
            hi = hi + slack * (1.0 + abs(hi)) if hi < INF else hi
        self.rows.append((dict(coefs), lo, hi))

    @property
    def n(self):
        return len(self.lb)


def nom_of(s, c):
    return s["nominal"][c] if len(s["nominal"]) > 1 else s["nominal"][0]


def build(inst, k, history, slack=0.0):
    """documented subproblem of the k-th priority (index into priorities_of(inst)).
    `history[k']` for k' < k: dict with 'eps' {gi: [member arrays]}, 'results' [member dicts], 'obj'."""
    mode = inst["mode"]
    opts = inst["opts"]
    times = inst["times"]
    T = len(times)
    E = len(inst["pvals"])
    theta = inst.get("theta", 1.0)
    prios = priorities_of(inst)
    F = Formulation()
    # model variables with their bounds
    for t in range(T):
        for v in ("u", "w"):
            F.var((v, t), *VAR_RANGE[v])
    for m in range(E):
        for t in range(T):
            for v in ("x", "y"):
                F.var((v, m, t), *VAR_RANGE[v])

    def vidx(v, m, t):
        return F.var((v, t)) if v in ("u", "w") else F.var((v, m, t))

    # dynamics (theta method) and the algebraic relation
    for m in range(E):
        p, q = inst["pvals"][m]
        cv = inst["cvals"][m]
        F.row({vidx("y", m, 0): 1.0, vidx("x", m, 0): -1.0}, q, q)
        for i in range(1, T):
            dt = times[i] - times[i - 1]
            row = {}

            def add(j, a):
                row[j] = row.get(j, 0.0) + a

            add(vidx("x", m, i), 1.0 / dt + p * theta)
            add(vidx("x", m, i - 1), -1.0 / dt + p * (1 - theta))
            add(vidx("u", m, i), -theta)
            add(vidx("u", m, i - 1), -(1 - theta))
            rhs = theta * cv[i] + (1 - theta) * cv[i - 1]
            F.row(row, rhs, rhs)
            row2 = {}
            for (j, a) in ((vidx("y", m, i), theta), (vidx("x", m, i), -theta),
                           (vidx("y", m, i - 1), 1 - theta), (vidx("x", m, i - 1), -(1 - theta))):
                row2[j] = row2.get(j, 0.0) + a
            F.row(row2, q, q)

    def fidx(s, c, m, i):
        """index of the goal function component (a model variable)"""
        v = s["vars"][c]
        return vidx(v, m, i if s["path"] else s["ti"])

    def off(s, c):
        o = s.get("offset")
        return o[c] if o else 0.0

    def soft_rows(gi):
        s = inst["goals"][gi]
        size, n = goal_shape(s, T)
        tm = target_matrix(s.get("tmin"), size, T if s["path"] else None, -INF)
        tM = target_matrix(s.get("tmax"), size, T if s["path"] else None, INF)
        for m in range(E):
            for c in range(size):
                lo_r = s["range"][0][c] if len(s["range"][0]) > 1 else s["range"][0][0]
                hi_r = s["range"][1][c] if len(s["range"][1]) > 1 else s["range"][1][0]
                for i in range(n):
                    e = F.var(("eps", gi, m, c, i if s["path"] else None), 0.0, 1.0)
                    fi = fidx(s, c, m, i)
                    if finite(tm[c, i]):
                        # f >= (1-eps)*tmin + eps*m,  f = variable + offset
                        F.row({fi: 1.0, e: -(lo_r - tm[c, i])}, tm[c, i] - off(s, c), INF)
                    if finite(tM[c, i]):
                        F.row({fi: 1.0, e: -(hi_r - tM[c, i])}, -INF, tM[c, i] - off(s, c))

    def critical_rows(gi):
        s = inst["goals"][gi]
        size, n = goal_shape(s, T)
        tm = target_matrix(s.get("tmin"), size, T if s["path"] else None, -INF)
        tM = target_matrix(s.get("tmax"), size, T if s["path"] else None, INF)
        cr = opts.get("constraint_relaxation", 0.0)
        rel = s.get("relaxation", 0.0)
        for m in range(E):
            for c in range(size):
                nom = nom_of(s, c)
                for i in range(n):
                    lo = (tm[c, i] - rel) / nom - cr if finite(tm[c, i]) else -INF
                    hi = (tM[c, i] + rel) / nom + cr if finite(tM[c, i]) else INF
                    if lo > -INF or hi < INF:
                        F.row({fidx(s, c, m, i): 1.0 / nom}, lo - off(s, c) / nom, hi - off(s, c) / nom)

    def objective_terms(gis):
        return documented_terms(inst, gis)

    def term_form(term):
        """(linear form, constant) of the quantity raised to the order"""
        gi, m, c, i, coef, nom, order = term
        s = inst["goals"][gi]
        if s["kind"] == "min":
            return {fidx(s, c, m, T_index(s, i)): 1.0 / nom}, off(s, c) / nom
        return {F.var(("eps", gi, m, c, i), 0.0, 1.0): 1.0}, 0.0

    def T_index(s, i):
        return i if s["path"] else 0

    def add_objective(gis):
        for term in objective_terms(gis):
            gi, m, c, i, coef, nom, order = term
            form, k0 = term_form(term)
            if order == 1:
                for j, a in form.items():
                    F.lin[j] = F.lin.get(j, 0.0) + coef * a
                F.const += coef * k0
            elif order == 2:
                F.sq.append((coef, form, k0))
            else:
                raise ValueError("order")

    def objective_row(gis, lo, hi):
        row = {}
        const = 0.0
        for term in objective_terms(gis):
            gi, m, c, i, coef, nom, order = term
            if order != 1:
                raise ValueError("retained objective of order 2 is not linear")
            form, k0 = term_form(term)
            const += coef * k0
            for j, a in form.items():
                row[j] = row.get(j, 0.0) + coef * a
        F.row(row, lo - const, hi - const, slack)

    cr = opts.get("constraint_relaxation", 0.0)
    fix = bool(opts.get("fix_minimized_values", False))
    vr = opts.get("violation_relaxation", 0.0)
    cur = prios[k][1]

    # critical goals: hard from their own priority on (multi-pass), from the start (single pass)
    for kk, (p, gis) in enumerate(prios):
        for gi in gis:
            if inst["goals"][gi].get("critical") and (kk <= k or mode in ("sp1", "sp2")):
                critical_rows(gi)

    # this priority's soft constraints; kept / pre-allocated ones of other priorities
    for kk, (p, gis) in enumerate(prios):
        keep = (kk == k) or (mode == "keep" and kk < k) or (mode in ("sp1", "sp2"))
        if keep:
            for gi in gis:
                s = inst["goals"][gi]
                if s["kind"] != "min" and not s.get("critical"):
                    soft_rows(gi)

    # constraints retained from earlier priorities
    for kk in range(k):
        gis = prios[kk][1]
        h = history[kk]
        if mode == "default":
            for gi in gis:
                s = inst["goals"][gi]
                if s.get("critical"):
                    continue
                size, n = goal_shape(s, T)
                rel = s.get("relaxation", 0.0)
                for m in range(E):
                    for c in range(size):
                        nom = nom_of(s, c)
                        for i in range(n):
                            fi = fidx(s, c, m, i)
                            if s["kind"] == "min":
                                v = s["vars"][c]
                                val = h["results"][m][v][i if s["path"] else s["ti"]]
                                if fix and rel == 0.0:
                                    F.row({fi: 1.0 / nom}, val / nom, val / nom, slack)
                                else:
                                    F.row({fi: 1.0 / nom}, -INF, (val + rel) / nom + cr, slack)
                            else:
                                tm = target_matrix(s.get("tmin"), size, T if s["path"] else None, -INF)
                                tM = target_matrix(s.get("tmax"), size, T if s["path"] else None, INF)
                                e = np.asarray(h["eps"][gi][m], dtype=float).reshape(-1)[i if s["path"] else 0] + vr
                                lo_r = s["range"][0][0]
                                hi_r = s["range"][1][0]
                                lo = (e * (lo_r - tm[c, i]) + tm[c, i] - rel) / nom - cr if finite(tm[c, i]) else -INF
                                hi = (e * (hi_r - tM[c, i]) + tM[c, i] + rel) / nom + cr if finite(tM[c, i]) else INF
                                if lo > hi:  # numerical crossing: the documented row is consistent
                                    lo = hi = 0.5 * (lo + hi)
                                if lo > -INF or hi < INF:
                                    F.row({fi: 1.0 / nom}, lo - off(s, c) / nom, hi - off(s, c) / nom, slack)
        else:
            val = h["obj"]
            if fix:
                objective_row(gis, val, val)
            else:
                objective_row(gis, -INF, val + cr)

    add_objective(cur)
    return F


# ---------------------------------------------------------------------------------------------
# independent solvers


def solve(F):
    """returns (status, optimum) with status in {'optimal', 'infeasible', 'fail'}"""
    n = F.n
    if not F.sq:
        from scipy.optimize import linprog
        from scipy.sparse import lil_matrix

        c = np.zeros(n)
        for j, a in F.lin.items():
            c[j] += a
        Aub = lil_matrix((2 * len(F.rows), n))
        bub = []
        Aeq = lil_matrix((len(F.rows), n))
        beq = []
        nu = ne = 0
        for coefs, lo, hi in F.rows:
            if lo == hi:
                for j, a in coefs.items():
                    Aeq[ne, j] = a
                beq.append(lo)
                ne += 1
                continue
            if hi < INF:
                for j, a in coefs.items():
                    Aub[nu, j] = a
                bub.append(hi)
                nu += 1
            if lo > -INF:
                for j, a in coefs.items():
                    Aub[nu, j] = -a
                bub.append(-lo)
                nu += 1
        bounds = [(None if l == -INF else l, None if u == INF else u) for l, u in zip(F.lb, F.ub)]
        r = linprog(c, A_ub=Aub.tocsr()[:nu] if nu else None, b_ub=bub if nu else None,
                    A_eq=Aeq.tocsr()[:ne] if ne else None, b_eq=beq if ne else None, bounds=bounds,
                    method="highs", options={"primal_feasibility_tolerance": 1e-7, "dual_feasibility_tolerance": 1e-9})
        if r.status == 0:
            return "optimal", float(r.fun) + F.const, np.array(r.x)
        if r.status == 2:
            return "infeasible", None, None
        return "fail", None, None
    import casadi as ca

    from .common import quiet_fd

    x = ca.SX.sym("x", n)
    f = F.const
    for j, a in F.lin.items():
        f = f + a * x[j]
    for kappa, form, k0 in F.sq:
        e = k0
        for j, a in form.items():
            e = e + a * x[j]
        f = f + kappa * e * e
    g = []
    lbg = []
    ubg = []
    for coefs, lo, hi in F.rows:
        e = 0
        for j, a in coefs.items():
            e = e + a * x[j]
        g.append(e)
        lbg.append(lo)
        ubg.append(hi)
    lbx = np.array(F.lb, dtype=float)
    ubx = np.array(F.ub, dtype=float)
    nlp = {"x": x, "f": f, "g": ca.vertcat(*g)}
    x0 = np.clip(np.zeros(n), lbx, ubx)
    with quiet_fd():
        try:
            Q = ca.qpsol("q", "qpoases", nlp, {"printLevel": "none", "error_on_fail": False})
            r = Q(x0=x0, lbx=lbx, ubx=ubx, lbg=lbg, ubg=ubg)
            if Q.stats()["success"]:
                return "optimal", float(r["f"]), np.array(r["x"]).ravel()
        except Exception:
            pass
        S = ca.nlpsol("s", "ipopt", nlp,
                      {"print_time": False, "ipopt": {"print_level": 0, "tol": 1e-10, "sb": "yes"}})
        r = S(x0=x0, lbx=lbx, ubx=ubx, lbg=lbg, ubg=ubg)
    st = S.stats()
    if st["success"]:
        return "optimal", float(r["f"]), np.array(r["x"]).ravel()
    if "Infeasible" in st["return_status"]:
        # IPOPT reports spurious infeasibility on tight retained rows: confirm with an LP feasibility solve
        G = Formulation()
        G.names, G.lb, G.ub, G.rows = F.names, F.lb, F.ub, F.rows
        st2, _, _ = solve(G)
        return ("infeasible" if st2 == "infeasible" else "fail"), None, None
    return "fail", None, None


def lp_feasible(lp, tol=1e-7):
    """independent feasibility verdict for an extracted constraint system: 'feasible' / 'infeasible' / 'fail'"""
    from scipy.optimize import linprog
    from scipy.sparse import csr_matrix

    A, b0 = lp["A"], lp["b0"]
    lo, hi = lp["lbg"] - b0, lp["ubg"] - b0
    eq = np.isfinite(lo) & (lo == hi)
    ub_rows = [A[i] for i in range(len(lo)) if not eq[i] and np.isfinite(hi[i])] + \
              [-A[i] for i in range(len(lo)) if not eq[i] and np.isfinite(lo[i])]
    ub_rhs = [hi[i] for i in range(len(lo)) if not eq[i] and np.isfinite(hi[i])] + \
             [-lo[i] for i in range(len(lo)) if not eq[i] and np.isfinite(lo[i])]
    n = A.shape[1]
    bounds = [(None if not np.isfinite(l) else l, None if not np.isfinite(u) else u)
              for l, u in zip(lp["lbx"], lp["ubx"])]
    r = linprog(np.zeros(n), A_ub=csr_matrix(np.array(ub_rows)) if ub_rows else None, b_ub=ub_rhs if ub_rows else None,
                A_eq=csr_matrix(A[eq]) if eq.any() else None, b_eq=lo[eq] if eq.any() else None, bounds=bounds,
                method="highs", options={"primal_feasibility_tolerance": tol})
    if r.status == 0:
        return "feasible"
    if r.status == 2:
        return "infeasible"
    return "fail"
