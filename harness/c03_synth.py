"""
Synthetic linear goal-programming problems for C03 / C17 (no Modelica).

Model (per ensemble member m, parameters p_m, q_m, constant input c_m(t)):

    der(x) = -p*x + u + c          x : differentiated state
    y      = x + q                 y : algebraic state
    u, w                           controls (shared by all members); w is not in the dynamics

An *instance* is a plain JSON-able dict (see `gen_instance`).  `run_instance` runs the real
rtc-tools goal-programming code on it and captures, inside `priority_completed`, the transcribed
problem as exact affine / quadratic data together with the layout of every epsilon / goal-function
variable, recovered through the public API (`state_at`, `state_vector`, `extra_variable`).
"""
import logging
import math

import casadi as ca
import numpy as np

from .common import quiet_fd

NAN = float("nan")
INF = float("inf")
VAR_RANGE = {"x": (-50.0, 50.0), "y": (-100.0, 100.0), "u": (-20.0, 20.0), "w": (-5.0, 30.0)}
VARS = ["x", "y", "u", "w"]

logging.getLogger("rtctools").setLevel(logging.CRITICAL)


def _imports():
    from pymoca.backends.casadi.alias_relation import AliasRelation
    from rtctools._internal.alias_tools import AliasDict
    from rtctools.optimization.collocated_integrated_optimization_problem import (
        CollocatedIntegratedOptimizationProblem,
    )
    from rtctools.optimization.timeseries import Timeseries

    return AliasRelation, AliasDict, CollocatedIntegratedOptimizationProblem, Timeseries


_CLASSES = {}


def synth_class():
    """the synthetic base problem class (built lazily so that `use_repo()` has run)"""
    if "synth" in _CLASSES:
        return _CLASSES["synth"]
    AliasRelation, AliasDict, CIOP, Timeseries = _imports()

    class Synth(CIOP):
        def __init__(self, inst=None, **kw):
            self.inst = inst
            self._times = np.array(inst["times"], dtype=float)
            x = ca.MX.sym("x")
            dx = ca.MX.sym("der(x)")
            y = ca.MX.sym("y")
            u = ca.MX.sym("u")
            w = ca.MX.sym("w")
            c = ca.MX.sym("c")
            p = ca.MX.sym("p")
            q = ca.MX.sym("q")
            t = ca.MX.sym("time")
            self._mx = dict(time=[t], states=[x], derivatives=[dx], algebraics=[y], control_inputs=[u, w],
                            constant_inputs=[c], parameters=[p, q], lookup_tables=[])
            self._res = ca.vertcat(dx + p * x - u - c, y - x - q)
            self._ar = AliasRelation()
            super().__init__(**kw)

        @property
        def dae_variables(self):
            return self._mx

        @property
        def dae_residual(self):
            return self._res

        @property
        def alias_relation(self):
            return self._ar

        @property
        def theta(self):
            return self.inst.get("theta", 1.0)

        def times(self, variable=None):
            return self._times

        @property
        def ensemble_size(self):
            return len(self.inst["pvals"])

        def ensemble_member_probability(self, ensemble_member):
            return self.inst["probs"][ensemble_member]

        def parameters(self, ensemble_member):
            d = AliasDict(self._ar)
            d["p"] = self.inst["pvals"][ensemble_member][0]
            d["q"] = self.inst["pvals"][ensemble_member][1]
            return d

        def constant_inputs(self, ensemble_member):
            d = AliasDict(self._ar)
            d["c"] = Timeseries(self._times, np.array(self.inst["cvals"][ensemble_member], dtype=float))
            return d

        def variable_nominal(self, v):
            nom = self.inst.get("nominals", {})
            if v in nom:
                return nom[v]
            return super().variable_nominal(v)

        def bounds(self):
            b = AliasDict(self._ar)
            for v, r in VAR_RANGE.items():
                b[v] = r
            return b

        def map_options(self):
            mode = self.inst.get("map_mode", "unroll")
            if mode == "thread":
                return {"mode": "thread", "n_threads": 2}
            return {"mode": mode}

    _CLASSES["synth"] = Synth
    return Synth


# ---------------------------------------------------------------------------------------------
# goals from specs


def _target(spec_t, times, size, Timeseries):
    """spec target -> python object handed to rtc-tools"""
    if spec_t is None:
        return NAN
    k = spec_t["k"]
    if k == "sc":
        return float(spec_t["v"])
    if k == "vec":
        return np.array(spec_t["v"], dtype=float)
    if k == "ts":
        return Timeseries(np.array(times, dtype=float), np.array(spec_t["v"], dtype=float))
    if k == "ts2":  # rows per time stamp, `size` columns
        return Timeseries(np.array(times, dtype=float), np.array(spec_t["v"], dtype=float))
    raise ValueError(k)


def make_goal(spec, times, base=None):
    from rtctools.optimization.goal_programming_mixin_base import Goal
    from rtctools.optimization.timeseries import Timeseries

    base = base or Goal
    vars_ = spec["vars"]
    size = len(vars_)
    path = spec["path"]
    tpoint = None if path else times[spec["ti"]]

    offs = spec.get("offset") or [0.0] * size

    class G(base):
        def function(self, pr, m):
            if spec.get("extra"):
                es = [pr.extra_variable(v, m) for v in vars_]
            elif path:
                es = [pr.state(v) + o if o else pr.state(v) for v, o in zip(vars_, offs)]
            else:
                es = [pr.state_at(v, tpoint, ensemble_member=m) + o if o else pr.state_at(v, tpoint, ensemble_member=m)
                      for v, o in zip(vars_, offs)]
            return es[0] if size == 1 else ca.vertcat(*es)

    g = G()
    g.spec = spec
    g.priority = spec["priority"]
    g.order = spec["order"]
    g.weight = spec["weight"]
    g.size = size
    nom = spec["nominal"]
    g.function_nominal = float(nom[0]) if len(nom) == 1 else np.array(nom, dtype=float)
    if spec.get("critical"):
        g.critical = True
    if spec["kind"] != "min":
        if not spec.get("critical"):
            if size == 1:
                g.function_range = (float(spec["range"][0][0]), float(spec["range"][1][0]))
            else:
                g.function_range = (np.array(spec["range"][0], dtype=float), np.array(spec["range"][1], dtype=float))
        g.target_min = _target(spec.get("tmin"), times, size, Timeseries)
        g.target_max = _target(spec.get("tmax"), times, size, Timeseries)
    if spec.get("relaxation"):
        g.relaxation = spec["relaxation"]
    return g


# ---------------------------------------------------------------------------------------------
# affine / quadratic extraction


def affine_of(expr, X):
    """(J, b) with expr == J X + b (caller checks affinity)"""
    F = ca.Function("a", [X], [ca.jacobian(expr, X), expr])
    J, b = F(np.zeros(X.size1()))
    return np.array(J.full() if hasattr(J, "full") else J), np.array(b).ravel()


def quad_of(f, X):
    """(H, c, f0) with f == f0 + c.X + 1/2 X'HX for a quadratic f; plus a spot check"""
    H_e, g_e = ca.hessian(f, X)
    F = ca.Function("q", [X], [H_e, g_e, f])
    z = np.zeros(X.size1())
    H, c, f0 = F(z)
    H = np.array(H.full())
    c = np.array(c).ravel()
    f0 = float(f0)
    return H, c, f0, F


def linform(expr, X):
    """expr (scalar, affine in X) -> (dense coefficient vector, constant)"""
    J, b = affine_of(expr, X)
    return J.reshape(-1), float(b[0])


# ---------------------------------------------------------------------------------------------
# running the real code


def mixin_classes():
    from rtctools.optimization.goal_programming_mixin import GoalProgrammingMixin
    from rtctools.optimization.single_pass_goal_programming_mixin import (
        SinglePassGoalProgrammingMixin,
        SinglePassMethod,
    )

    return GoalProgrammingMixin, SinglePassGoalProgrammingMixin, SinglePassMethod


def problem_class(mode, extra_bases=()):
    key = (mode, tuple(b.__name__ for b in extra_bases))
    if key in _CLASSES:
        return _CLASSES[key]
    GPM, SPM, SPMethod = mixin_classes()
    Synth = synth_class()

    class Hooks:
        def __init__(self, inst=None, **kw):
            self.cap = []
            self.capture = True
            self._goal_objs = None
            super().__init__(inst=inst, **kw)

        def pre(self):
            if self.inst.get("caching_qpsol"):
                from rtctools.optimization.single_pass_goal_programming_mixin import CachingQPSol

                self._qpsol = CachingQPSol()
            super().pre()

        def _all_goals(self):
            if self._goal_objs is None:
                ts = self.inst["times"]
                self._goal_objs = [make_goal(s, ts) for s in self.inst["goals"]]
            return self._goal_objs

        def goals(self):
            return [g for g in self._all_goals() if not g.spec["path"]] + super().goals()

        def path_goals(self):
            return [g for g in self._all_goals() if g.spec["path"]] + super().path_goals()

        # user-defined auxiliary variables b >= |f| (explicit two-sided absolute value, physical units):
        # inst["aux"] = [{"name", "path", "var", "ti"}]
        def _aux_syms(self):
            if getattr(self, "_aux_cache", None) is None:
                self._aux_cache = [(a, ca.MX.sym(a["name"])) for a in self.inst.get("aux", [])]
            return self._aux_cache

        @property
        def path_variables(self):
            return super().path_variables + [sym for a, sym in self._aux_syms() if a["path"]]

        @property
        def extra_variables(self):
            return super().extra_variables + [sym for a, sym in self._aux_syms() if not a["path"]]

        def bounds(self):
            b = super().bounds()
            for a, _ in self._aux_syms():
                b[a["name"]] = (0.0, np.inf)
            return b

        def path_constraints(self, ensemble_member):
            cs = super().path_constraints(ensemble_member)
            for a, _ in self._aux_syms():
                if a["path"]:
                    f = self.state(a["var"])
                    b = self.variable(a["name"])
                    cs.append((b - f, 0.0, np.inf))
                    cs.append((b + f, 0.0, np.inf))
            return cs

        def constraints(self, ensemble_member):
            cs = super().constraints(ensemble_member)
            for a, _ in self._aux_syms():
                if not a["path"]:
                    f = self.state_at(a["var"], self.inst["times"][a["ti"]], ensemble_member=ensemble_member)
                    b = self.extra_variable(a["name"], ensemble_member)
                    cs.append((b - f, 0.0, np.inf))
                    cs.append((b + f, 0.0, np.inf))
            return cs

        def _minabs(self, path):
            from rtctools.optimization.min_abs_goal_programming_mixin import MinAbsGoal

            if getattr(self, "_minabs_objs", None) is None:
                ts = self.inst["times"]
                self._minabs_objs = [make_goal(s, ts, base=MinAbsGoal) for s in self.inst.get("minabs", [])]
            return [g for g in self._minabs_objs if g.spec["path"] == path]

        def min_abs_goals(self):
            return self._minabs(False)

        def min_abs_path_goals(self):
            return self._minabs(True)

        def goal_programming_options(self):
            o = super().goal_programming_options()
            for k, v in self.inst.get("opts", {}).items():
                o[k] = v
            if mode == "keep":
                o["keep_soft_constraints"] = True
            return o

        def solver_options(self):
            o = super().solver_options()
            o["print_time"] = False
            o["error_on_fail"] = False
            solver = self.inst.get("solver", "highs")
            if solver != "ipopt":
                o["casadi_solver"] = self._qpsol if self.inst.get("caching_qpsol") else "qpsol"
                o["solver"] = solver
                o.pop("ipopt", None)
                if solver == "highs":
                    o["highs"] = {"output_flag": False, "time_limit": 5.0, "primal_feasibility_tolerance": 1e-9,
                                  "dual_feasibility_tolerance": 1e-9}
                elif solver == "qpoases":
                    o["printLevel"] = "none"
                elif solver == "osqp":
                    o["osqp"] = {"verbose": False, "eps_abs": 1e-9, "eps_rel": 1e-9, "max_iter": 200000}
            else:
                o["ipopt"]["print_level"] = 0
                o["ipopt"]["tol"] = 1e-10
                o["ipopt"]["sb"] = "yes"
                o["ipopt"]["bound_relax_factor"] = 0.0
            if self.inst.get("expand"):
                o["expand"] = True
            return o

        def priority_completed(self, priority):
            super().priority_completed(priority)
            if self.capture:
                self.cap.append(capture(self, priority))
            else:
                tp = self.transcribed_problem
                lbg = np.array(ca.veccat(*tp["lbg"]), dtype=float).ravel() if len(tp["lbg"]) else np.zeros(0)
                ubg = np.array(ca.veccat(*tp["ubg"]), dtype=float).ravel() if len(tp["ubg"]) else np.zeros(0)
                self.cap.append({"priority": priority, "obj": float(self.objective_value),
                                 "results": results_of(self), "M": len(lbg),
                                 "lbg_tail": lbg[-6:].tolist(), "ubg_tail": ubg[-6:].tolist()})

    if mode in ("default", "keep"):
        bases = (Hooks,) + tuple(extra_bases) + (GPM, Synth)
        cls = type("P_" + mode, bases, {})
    else:
        method = SPMethod.APPEND_CONSTRAINTS_OBJECTIVE if mode == "sp1" else SPMethod.UPDATE_OBJECTIVE_CONSTRAINT_BOUNDS
        bases = (Hooks,) + tuple(extra_bases) + (SPM, Synth)
        cls = type("P_" + mode, bases, {"single_pass_method": method})
    _CLASSES[key] = cls
    return cls


def results_of(pr):
    out = []
    for m in range(pr.ensemble_size):
        r = pr.extract_results(m)
        out.append({v: np.array(r[v], dtype=float).copy() for v in VARS})
    return out


def priorities_of(inst):
    """sorted distinct priorities with the goal indices (into inst['goals']) of each, skipping
    empty goals exactly as documented (a target goal none of whose targets is finite)"""
    out = {}
    for gi, s in enumerate(inst["goals"]):
        if spec_is_empty(s):
            continue
        out.setdefault(int(s["priority"]), []).append(gi)
    return [(p, out[p]) for p in sorted(out)]


def _tvals(t):
    if t is None:
        return [NAN]
    v = t["v"]
    if t["k"] == "sc":
        return [v]
    if t["k"] == "ts2":
        return [x for row in v for x in row]
    return list(v)


def spec_is_empty(s):
    if s["kind"] == "min":
        return False
    tmin, tmax = s.get("tmin"), s.get("tmax")

    def is_set(t):
        return t is not None and (t["k"] in ("ts", "ts2") or any(math.isfinite(x) for x in _tvals(t)))

    if not is_set(tmin) and not is_set(tmax):
        return False  # treated as a minimisation goal by the code
    return not any(math.isfinite(x) for x in _tvals(tmin)) and not any(math.isfinite(x) for x in _tvals(tmax))


def eps_name(path, sym_index, j, lin=False):
    return ("path_" if path else "") + ("lineps_%d_%d" if lin else "eps_%d_%d") % (sym_index, j)


def is_linearized(inst, s):
    """goal whose order is replaced by the piecewise-linear majorant (LinearizedOrderGoalProgrammingMixin)"""
    return bool(inst.get("linearize")) and s["kind"] != "min" and s["order"] > 1 and not s.get("critical")


def var_forms(pr, X, name, path, size, m, T, times):
    """linear forms (coef vector, const) of a goal-programming variable per (component, step)
    through the public API; component-major layout of vector path variables is cross-checked by
    the caller against extract_results"""
    N = X.size1()
    out = {}
    if path:
        if size == 1:
            for t in range(T):
                out[(0, t)] = linform(pr.state_at(name, times[t], ensemble_member=m), X)
        else:
            sv = pr.state_vector(name, m)
            J, b = affine_of(sv, X)
            nom = pr.variable_nominal(name)
            for c in range(size):
                for t in range(T):
                    out[(c, t)] = (J[c * T + t] * nom, float(b[c * T + t]) * nom)
    else:
        ev = pr.extra_variable(name, m)
        J, b = affine_of(ev, X)
        for c in range(size):
            out[(c, None)] = (J[c], float(b[c]))
    assert all(v[0].shape == (N,) for v in out.values())
    return out


def capture(pr, priority):
    """everything C03 needs about the problem just solved (called inside priority_completed)"""
    from rtctools._internal.casadi_helpers import is_affine

    inst = pr.inst
    tp = pr.transcribed_problem
    nlp = tp["nlp"]
    X = nlp["x"]
    N = X.size1()
    times = inst["times"]
    T = len(times)
    E = pr.ensemble_size
    g = nlp["g"]
    f = nlp["f"]
    cap = {"priority": priority, "obj": float(pr.objective_value), "N": N}
    cap["x"] = np.array(pr.solver_output, dtype=float).copy()
    lam_g, lam_x = pr.lagrange_multipliers
    cap["lam_g"] = None if lam_g is None else np.array(lam_g, dtype=float).ravel()
    cap["lam_x"] = None if lam_x is None else np.array(lam_x, dtype=float).ravel()
    cap["lbx"] = np.array(tp["lbx"], dtype=float).ravel()
    cap["ubx"] = np.array(tp["ubx"], dtype=float).ravel()
    cap["lbg"] = np.array(ca.veccat(*tp["lbg"]), dtype=float).ravel() if len(tp["lbg"]) else np.zeros(0)
    cap["ubg"] = np.array(ca.veccat(*tp["ubg"]), dtype=float).ravel() if len(tp["ubg"]) else np.zeros(0)
    cap["g_affine"] = bool(is_affine(g, X)) if g.size1() else True
    A, b0 = affine_of(g, X) if g.size1() else (np.zeros((0, N)), np.zeros(0))
    cap["A"], cap["b0"] = A, b0
    H, c, f0, F = quad_of(f, X)
    cap["H"], cap["c"], cap["f0"] = H, c, f0
    # spot check: f is the quadratic (H, c, f0) at the solution and at one more point
    xs = cap["x"]
    for z in (xs, 0.5 * xs + 0.25):
        fz = float(F(z)[2])
        qz = f0 + c @ z + 0.5 * z @ H @ z
        if not abs(fz - qz) <= 1e-9 * (1 + abs(fz)):
            cap["f_not_quadratic"] = (fz, qz)
    cap["f_at_x"] = float(F(xs)[2])
    # layout of this priority's epsilon / goal-function variables
    prios = priorities_of(inst)
    sym_index = [p for p, _ in prios].index(priority)
    gis = prios[sym_index][1]
    forms = {}
    res = [pr.extract_results(m) for m in range(E)]
    layout_ok = True
    for path in (False, True):
        sub = [gi for gi in gis if inst["goals"][gi]["path"] == path]
        for j, gi in enumerate(sub):
            s = inst["goals"][gi]
            size = len(s["vars"])
            if s.get("critical"):
                continue
            for m in range(E):
                if s["kind"] != "min" and not is_min_like(s):
                    name = eps_name(path, sym_index, j, is_linearized(inst, s))
                    fm = var_forms(pr, X, name, path, size, m, T, times)
                    # cross-check the assumed layout against the decoded results
                    r = np.array(res[m][name], dtype=float)
                    for (cc, t), (a, k) in fm.items():
                        val = a @ xs + k
                        ref = (r.reshape(-1)[cc] if t is None else (r[t] if size == 1 else r[t, cc]))
                        if not abs(val - ref) <= 1e-9 * (1 + abs(ref)):
                            layout_ok = False
                    for key, v in fm.items():
                        forms[(gi, m) + key] = v
                else:
                    offs = s.get("offset") or [0.0] * size
                    for cc, v in enumerate(s["vars"]):
                        if path:
                            for t in range(T):
                                a, k0 = linform(pr.state_at(v, times[t], ensemble_member=m), X)
                                forms[(gi, m, cc, t)] = (a, k0 + offs[cc])
                        else:
                            a, k0 = linform(pr.state_at(v, times[s["ti"]], ensemble_member=m), X)
                            forms[(gi, m, cc, None)] = (a, k0 + offs[cc])
    cap["forms"] = forms
    cap["layout_ok"] = layout_ok
    cap["results"] = [{v: np.array(r[v], dtype=float).copy() for v in VARS} for r in res]
    cap["eps"] = {}
    for path in (False, True):
        sub = [gi for gi in gis if inst["goals"][gi]["path"] == path]
        for j, gi in enumerate(sub):
            s = inst["goals"][gi]
            if s["kind"] != "min" and not is_min_like(s) and not s.get("critical"):
                name = eps_name(path, sym_index, j)
                cap["eps"][gi] = [np.array(res[m][name], dtype=float).copy() for m in range(E)]
    cap["stats"] = {k: v for k, v in dict(pr.solver_stats).items() if k in ("success", "return_status")}
    return cap


def failed_lp(pr):
    """constraint system of the problem whose solve just failed (transcribed_problem is stored
    before the success check), for an independent feasibility verdict"""
    tp = pr.transcribed_problem
    nlp = tp["nlp"]
    X = nlp["x"]
    g = nlp["g"]
    A, b0 = affine_of(g, X) if g.size1() else (np.zeros((0, X.size1())), np.zeros(0))
    return {"A": A, "b0": b0,
            "lbg": np.array(ca.veccat(*tp["lbg"]), dtype=float).ravel() if len(tp["lbg"]) else np.zeros(0),
            "ubg": np.array(ca.veccat(*tp["ubg"]), dtype=float).ravel() if len(tp["ubg"]) else np.zeros(0),
            "lbx": np.array(tp["lbx"], dtype=float).ravel(), "ubx": np.array(tp["ubx"], dtype=float).ravel()}


def is_min_like(s):
    """a goal with a target kind none of whose targets is set is a minimisation goal for the code"""
    if s["kind"] == "min":
        return True
    tmin, tmax = s.get("tmin"), s.get("tmax")

    def is_set(t):
        return t is not None and (t["k"] in ("ts", "ts2") or any(math.isfinite(x) for x in _tvals(t)))

    return not is_set(tmin) and not is_set(tmax)


def run_instance(inst, mode=None, capture_full=True, extra_bases=(), twice=False):
    """returns (outcome, problem); outcome = True/False (solver) or ('raise', ExcName, msg)"""
    mode = mode or inst["mode"]
    if inst.get("linearize"):
        from rtctools.optimization.linearized_order_goal_programming_mixin import (
            LinearizedOrderGoalProgrammingMixin,
        )

        if LinearizedOrderGoalProgrammingMixin not in extra_bases:
            extra_bases = tuple(extra_bases) + (LinearizedOrderGoalProgrammingMixin,)
    if inst.get("minabs"):
        from rtctools.optimization.min_abs_goal_programming_mixin import MinAbsGoalProgrammingMixin

        if MinAbsGoalProgrammingMixin not in extra_bases:
            extra_bases = (MinAbsGoalProgrammingMixin,) + tuple(extra_bases)
    cls = problem_class(mode, extra_bases)
    pr = cls(inst=inst)
    pr.capture = capture_full
    try:
        with quiet_fd():
            ok = pr.optimize()
            if twice:
                pr.first_cap = pr.cap
                pr.cap = []
                ok2 = pr.optimize()
                return (bool(ok), bool(ok2)), pr
    except Exception as e:  # the implementation rejects the input
        return ("raise", type(e).__name__, str(e)[:300]), pr
    if not ok and capture_full:
        try:
            pr.failed = failed_lp(pr)
        except Exception:
            pr.failed = None
    return bool(ok), pr
