"""
C04 — target goals stay inside their epsilon envelope; critical goals are hard; ill-formed goals
are rejected before any solve.

Proof obligations: lean/RtcVerif/Props/C04.lean.  Correspondence (Drivers/C04.lean):
 (a) `_gp_validate_goals` through the real `optimize()` of a synthetic GoalProgrammingMixin /
     SinglePassGoalProgrammingMixin problem: accept / reject + error class vs `validateAll`;
 (b) the goal rows (soft rows + critical rows) of the first priority's transcribed problem,
     evaluated at a random probe point, vs `softRows` / `hardCritical`; bounds of the violation
     variables; `_GoalConstraint.update_bounds` vs `updateBounds` over all weak orderings;
 (c) independent oracle on solved instances (HiGHS for order-1 goals, IPOPT otherwise): envelope
     per goal / member / component / step, epsilon in [0, 1], critical goals met from their
     priority on.
 (d) `_gp_min_max_arrays` of the real class on every goal of an accepted goal set vs the translated
     code-level reference (`minArrRef` / `maxArrRef`), entry by entry.

Translated from the source on every run (obligations besides Props/C04.lean): `update_bounds`
(Gen/UpdateBounds.lean), the soft-to-hard conversion (Gen/HardConstraint.lean) and -- Gen/GoalCode.lean --
`_gp_validate_goals`, `_gp_min_max_arrays`, the soft-constraint / critical-goal construction of
`_gp_goal_constraints`, the `Goal` properties, `bounds()` / `constant_inputs()` / `parameters()` of both mixins
(translators: harness/c04_goalcode.py, generator: translate_c04.gen_goal_code).
"""
import itertools
import math
import re

import numpy as np

from . import c04_synth as S
from .c04_synth import INF, NAN, GoalSpec
from .common import fr, same, unfr

TOL = 1e-6

ERR_PATTERNS = [
    ("nominal", r"Nonpositive nominal value"),
    ("critical-min", r"Minimization goals cannot be critical"),
    ("no-range", r"No function range specified"),
    ("bad-range", r"Invalid function range"),
    ("weight", r"Goal weight should be positive"),
    ("range-on-min", r"Specifying function range not allowed"),
    ("ts-min", r"Target min cannot be a Timeseries"),
    ("ts-max", r"Target max cannot be a Timeseries"),
    ("relax-keepsoft", r"Relaxation not allowed with"),
    ("violid-keepsoft", r"Violation timeseries id not allowed"),
    ("vector-needs-keepsoft", r"needs to be set for vector goal"),
    ("vector-critical", r"Vector goal cannot be critical"),
    ("mono-min", r"Target minimum of goal .* must be greater or equal"),
    ("mono-max", r"Target maximum of goal .* must be less or equal"),
    ("min-gt-max", r"Target minimum exceeds target maximum"),
    ("tmin-le-lb", r"Target minimum should be greater than the lower bound"),
    ("tmin-gt-ub", r"Target minimum should not be greater than the upper bound"),
    ("tmax-ge-ub", r"Target maximum should be smaller than the upper bound"),
    ("tmax-lt-lb", r"Target maximum should not be smaller than the lower bound"),
    ("relax-neg", r"should be a nonnegative value"),
]


def classify(exc):
    msg = str(exc).replace("\n", " ")
    if type(exc) is Exception:
        for name, pat in ERR_PATTERNS:
            if re.search(pat, msg):
                return name
    return "raise:%s:%s" % (type(exc).__name__, msg[:80])


# ---------------------------------------------------------------------------------------------
# independent re-statement of well-formedness (the documented conditions), order-free


def _steps(spec, n):
    return 1 if spec.point is not None else n


def spec_problems(specs, keep_soft, mono, n):
    """set of reasons why the goal set is ill-formed (empty set = well-formed)"""
    bad = set()
    fin = math.isfinite
    for s in specs:
        cells = [(c, i) for c in range(s.size) for i in range(_steps(s, n))]
        if any(v <= 0 for v in s.nom):
            bad.add("nominal")
        if s.crit and not s.is_target:
            bad.add("critical-min")
        if s.crit and s.size > 1:
            bad.add("vector-critical")
        if s.point is not None and (s.tmin[0] == "ts" or s.tmax[0] == "ts"):
            bad.add("ts-on-point")
        if keep_soft:
            if s.relax != 0:
                bad.add("relax-keepsoft")
            if s.vid:
                bad.add("violid-keepsoft")
        elif s.size > 1:
            bad.add("vector-needs-keepsoft")
        if s.relax < 0:
            bad.add("relax-neg")
        if s.is_target:
            if s.has_min and s.has_max:
                for c, i in cells:
                    a, b = s.target_at("min", c, i), s.target_at("max", c, i)
                    if not math.isnan(a) and not math.isnan(b) and a > b:
                        bad.add("min-gt-max")
            if not s.crit:
                if not all(fin(v) for v in s.lo) or not all(fin(v) for v in s.hi):
                    bad.add("no-range")
                else:
                    if any(s.lo_at(c) >= s.hi_at(c) for c in range(s.size)):
                        bad.add("bad-range")
                    for c, i in cells:
                        a, b = s.target_at("min", c, i), s.target_at("max", c, i)
                        if s.has_min and fin(a) and not (s.lo_at(c) < a <= s.hi_at(c)):
                            bad.add("target-outside-range")
                        if s.has_max and fin(b) and not (s.lo_at(c) <= b < s.hi_at(c)):
                            bad.add("target-outside-range")
                if s.w <= 0:
                    bad.add("weight")
        else:
            if not s.rdef:
                bad.add("range-on-min")
    if mono:
        for point in (False, True):
            gs = sorted([s for s in specs if (s.point is not None) == point], key=lambda s: s.prio)
            last = {}
            for s in gs:
                prev = last.get(s.fk)
                last[s.fk] = s
                if prev is None:
                    continue
                for c in range(s.size):
                    for i in range(_steps(s, n)):
                        a, pa = s.target_at("min", c, i), prev.target_at("min", c, i)
                        b, pb = s.target_at("max", c, i), prev.target_at("max", c, i)
                        if s.has_min and not math.isnan(a) and not math.isnan(pa) and a < pa:
                            bad.add("non-monotone")
                        if s.has_max and not math.isnan(b) and not math.isnan(pb) and b > pb:
                            bad.add("non-monotone")
    return bad


#: the conditions the property statement itself names (must be rejected)
DOCUMENTED = {"nominal", "weight", "critical-min", "non-monotone", "target-outside-range"}


# ---------------------------------------------------------------------------------------------
# (a) validation


def min_max_real(pr, spec, times, target_shape):
    """the arrays `_gp_min_max_arrays` returns for the real goal object, as (size, steps) arrays; None if the
    method raises (its own shape assertions)"""
    goal = S.build_goal(spec, times, pr)
    try:
        m, M = pr._gp_min_max_arrays(goal, target_shape)
    except Exception:
        return None
    ns = 1 if target_shape is None else target_shape
    return (np.asarray(m, dtype=float).reshape((spec.size, ns)), np.asarray(M, dtype=float).reshape((spec.size, ns)))


def stream_validate(c, N):
    K = S.problem_classes()
    rng = c.rng
    cases, lines = [], []
    for _ in range(N):
        keep = rng.random() < 0.4
        variant = "SP" if (keep and rng.random() < 0.3) else "GP"
        mono = rng.random() < 0.9
        inst = S.gen_instance(rng)
        n = len(inst["times"])
        specs = S.gen_goal_set(rng, n, keep)
        muts = []
        r = rng.random()
        nm = 0 if r < 0.3 else (1 if r < 0.85 else 2)
        for _k in range(nm):
            m = S.mutate(rng, specs, keep, n)
            if m:
                muts.append(m)
        # F23 (known): a minimisation goal with weight <= 0 -- kept out of this stream
        for s in specs:
            if not s.is_target and s.w <= 0:
                s.w = 1.0
        case = dict(variant=variant, keep=keep, mono=mono, n=n, muts=muts, specs=specs, inst=inst)
        cases.append(case)
        lines.append(dict(op="validate", keep=keep, mono=mono, nT=n,
                          goals=[s.wire() for s in specs if s.point is not None],
                          pgoals=[s.wire() for s in specs if s.point is None]))
    # `Goal.is_empty` (decides which goals form the priorities): model vs the real property
    elines = [dict(op="empty", goal=s.wire()) for case in cases for s in case["specs"]]
    eouts = c.model(elines)
    if eouts is not None:
        times5 = [0.0, 1.0, 2.0, 3.0, 4.0]
        pos = 0
        for case in cases:
            for s in case["specs"]:
                real = bool(S.build_goal(s, times5[:case["n"]]).is_empty)
                c.count()
                c.hit("is_empty/%s" % real)
                if real != S.is_empty(s):
                    c.fail("Goal.is_empty differs from 'target goal without any finite target entry'", s.describe(), real)
                if eouts[pos] != real:
                    c.disagree("Goal.is_empty", s.describe(), eouts[pos], real)
                pos += 1
    outs = c.model(lines)
    mm_jobs = []  # (_gp_min_max_arrays of the real class, per accepted goal) vs the translated reference
    for k, case in enumerate(cases):
        specs, keep, mono, n = case["specs"], case["keep"], case["mono"], case["n"]
        opts = {"check_monotonicity": mono}
        if case["variant"] == "GP":
            opts["keep_soft_constraints"] = keep
        pr = K[case["variant"]](specs=specs, gp_opts=opts, stop_at="started", **case["inst"])
        r = S.run_quiet(pr.optimize)
        impl = "ok" if r[0] in ("ok", "stop") else classify(r[1])
        desc = dict(variant=case["variant"], keep=keep, mono=mono, n=n, muts=case["muts"],
                    goals=[s.describe() for s in specs])
        c.count(("val", case["variant"], keep, tuple(sorted(case["muts"])), impl,
                 tuple(sorted((s.size, s.point is None, s.tmin[0], s.tmax[0], s.crit) for s in specs))))
        c.hit("validate/" + (impl if not impl.startswith("raise:") else "other-exception"))
        c.sample({"stream": "validate", **desc, "impl": impl}, limit=3)
        # ---- oracle (independent of the model): documented ill-formedness => rejected, and
        #      nothing was transcribed / solved before the rejection; well-formed => accepted
        bad = spec_problems(specs, keep, mono, n)
        if impl == "ok":
            if bad & DOCUMENTED:
                c.fail("ill-formed goal set accepted (%s)" % ",".join(sorted(bad & DOCUMENTED)), desc)
        else:
            if pr.n_transcribe or any(e[0] in ("started", "transcribe", "completed") for e in pr.events):
                c.fail("goal set rejected only after a priority was started / transcribed", desc, pr.events)
            if not bad:
                c.fail("well-formed goal set rejected: " + impl, desc)
        # ---- correspondence
        if outs is not None and outs[k] != impl:
            c.disagree("validation outcome", desc, outs[k], impl)
        if impl == "ok" and len(mm_jobs) < 400:
            for s in specs:
                path = s.point is None
                real = min_max_real(pr, s, case["inst"]["times"], n if path else None)
                mm_jobs.append((dict(goal=s.describe(), path=path, n=n), s, path, n if path else 1, real))
    mouts = c.model([dict(op="minmax", goal=s.wire(), path=path, n=ns) for _d, s, path, ns, _r in mm_jobs])
    for (d, s, path, ns, real), mo in zip(mm_jobs, mouts or []):
        c.count(("minmax", s.size, path, s.tmin[0], s.tmax[0]))
        c.hit("min_max_arrays/" + ("raises" if real is None else "%s-%s" % (s.tmin[0], s.tmax[0])))
        ok = True
        for cc in range(s.size):
            for i in range(ns):
                for side in (0, 1):
                    m = mo[cc][i][side]
                    if real is None:
                        ok = ok and m == "none"
                    else:
                        ok = ok and m != "none" and same(m, real[side][cc][i], exact=True)
        if not ok:
            c.disagree("_gp_min_max_arrays", d, mo, None if real is None else [r.tolist() for r in real])


# ---------------------------------------------------------------------------------------------
# (b) rows of the first priority


def first_priority(specs):
    live = [s for s in specs if not S.is_empty(s)]
    if not live:
        return None, [], []
    p = min(int(s.prio) for s in live)
    return p, [s for s in live if int(s.prio) == p and s.point is not None], \
        [s for s in live if int(s.prio) == p and s.point is None]


def probe_values(pr, specs_point, specs_path, sym_index, rng):
    """random decision vector X; physical goal functions and epsilons decoded through the public
    API (state_vector / extra_variable / variable_nominal), rows g(X) with their bounds"""
    import casadi as ca

    discrete, lbx, ubx, lbg, ubg, x0, nlp = pr.last_transcribe
    X = nlp["x"]
    N = X.size1()
    Xv = np.array([rng.uniform(-1, 1) for _ in range(N)])
    n = len(pr.times())
    E = pr.ensemble_size
    outs, names = [], []
    for m in range(E):
        for v in S.VARS:
            outs.append(pr.state_vector(v, m))
            names.append(("sv", v, m))
        for j, s in enumerate(specs_path):
            if s.is_target and not s.crit:
                outs.append(pr.state_vector("path_eps_%d_%d" % (sym_index, j), m))
                names.append(("peps", j, m))
        for j, s in enumerate(specs_point):
            if s.is_target and not s.crit:
                outs.append(pr.extra_variable("eps_%d_%d" % (sym_index, j), m))
                names.append(("eps", j, m))
    outs.append(nlp["g"])
    F = ca.Function("probe", [X], outs)

    def ev(x):
        r = F(x)
        if not isinstance(r, (list, tuple)):
            r = [r]
        return [np.array(v, dtype=float).ravel() for v in r]

    vals = ev(Xv)
    d = dict(zip(names, vals[:-1]))
    g = vals[-1]
    lb = np.array(ca.veccat(*lbg), dtype=float).ravel()
    ub = np.array(ca.veccat(*ubg), dtype=float).ravel()
    phys = [{v: d[("sv", v, m)] * float(pr.variable_nominal(v)) for v in S.VARS} for m in range(E)]
    # index of every entry in X (for the bound check): evaluate the same selections at X = arange(N)
    idx = dict(zip(names, ev(np.arange(N, dtype=float))[:-1]))
    return dict(g=g, lb=lb, ub=ub, phys=phys, d=d, idx=idx, lbx=np.array(lbx).ravel(), ubx=np.array(ubx).ravel(),
                n=n, E=E, N=N)


def match_rows(model_rows, real_rows, exact_bounds=True):
    """every model row (val, lb, ub) consumes one distinct real row; returns unmatched model rows"""
    used = [False] * len(real_rows)
    missing = []
    for (mv, ml, mu) in model_rows:
        hit = None
        for q, (rv, rl, ru) in enumerate(real_rows):
            if used[q]:
                continue
            if same(ml, rl, exact=False) and same(mu, ru, exact=False) and same(mv, rv, exact=False, rtol=1e-9, atol=1e-9):
                hit = q
                break
        if hit is None:
            missing.append((mv, ml, mu))
        else:
            used[hit] = True
    extra = [real_rows[q] for q in range(len(real_rows)) if not used[q]]
    return missing, extra


def stream_rows(c, N):
    K = S.problem_classes()
    rng = c.rng
    lines, insts = [], []
    for _ in range(N):
        keep = rng.random() < 0.5
        inst = S.gen_instance(rng)
        n = len(inst["times"])
        cr = rng.choice([0.0, 0.0, 0.25, 0.5])
        hopts = dict(vr="0", cr=fr(cr), thr=fr(1e-8), fix=False)
        specs = S.gen_goal_set(rng, n, keep, n_prios=rng.choice([1, 1, 2]), max_per_prio=3, allow_relax=not keep)
        if rng.random() < 0.5:  # put every goal into the first priority: more rows per instance
            p0 = min(s.prio for s in specs)
            for s in specs:
                s.prio = p0
            S.fix_order(specs)
        p, gpoint, gpath = first_priority(specs)
        desc = dict(keep=keep, n=n, cr=cr, inst=inst, goals=[s.describe() for s in specs])
        if p is None:
            c.hit("rows/all-goals-empty")
            continue
        pr = K["GP"](specs=specs, gp_opts={"keep_soft_constraints": keep, "constraint_relaxation": cr},
                     stop_at="transcribe", **inst)
        r = S.run_quiet(pr.optimize)
        if r[0] != "stop":
            c.disagree("well-formed goal set did not reach transcribe", desc, "stop", repr(r)[:300])
            continue
        base = K["Base"](**inst)
        rb = S.run_quiet(base.transcribe)
        nb = int(sum(np.array(x).size for x in rb[1][3]))
        pv = probe_values(pr, gpoint, gpath, 0, rng)
        E = pv["E"]
        real = list(zip(pv["g"].tolist(), pv["lb"].tolist(), pv["ub"].tolist()))
        # ---- model rows: soft rows per goal; critical goals go through the store (one entry per
        #      function key, merged in goal order with enforce="self")
        meta = []
        for m in range(E):
            for kind, gl in (("point", gpoint), ("path", gpath)):
                for j, s in enumerate(gl):
                    if not s.is_target or s.crit:
                        continue
                    ns = 1 if kind == "point" else n
                    fs = [[float(x) for x in S.fvalue(s, pv["phys"][m], cc)] for cc in range(s.size)]
                    e = pv["d"][("peps" if kind == "path" else "eps", j, m)]
                    eps = np.asarray(e, dtype=float).reshape((s.size, ns)).tolist()
                    lines.append(dict(op="rows", goal=s.wire(), n=ns, f=[[fr(x) for x in r_] for r_ in fs],
                                      eps=[[fr(x) for x in r_] for r_ in eps]))
                    meta.append(("soft", s, None))
        crit_keys = []  # (kind, fk, goals) in first-insertion order
        for kind, gl in (("point", gpoint), ("path", gpath)):
            for s in gl:
                if s.crit:
                    for entry in crit_keys:
                        if entry[0] == kind and entry[1] == s.fk:
                            entry[2].append(s)
                            break
                    else:
                        crit_keys.append((kind, s.fk, [s]))
        for kind, fk, gl in crit_keys:
            lines.append(dict(op="critchain", goals=[s.wire() for s in gl], n=1 if kind == "point" else n, opts=hopts))
            meta.append(("crit", gl[0], len(gl)))
        insts.append((desc, keep, n, E, gpoint, gpath, pv, real, nb, meta))
    outs = c.model(lines)
    pos = 0
    for desc, keep, n, E, gpoint, gpath, pv, real, nb, meta in insts:
        c.count(("rows", keep, E, n, tuple(sorted((s.size, s.point is None, s.tmin[0], s.tmax[0], s.crit, len(s.nom), len(s.lo))
                                                 for s in gpoint + gpath))))
        c.hit("rows/instances")
        c.programs += 1
        c.sample({"stream": "rows", **desc}, limit=5)
        # ---- epsilon bounds (exact): every violation variable is boxed by [0, 1]
        for key, ii in pv["idx"].items():
            if key[0] in ("peps", "eps"):
                ii = np.asarray(ii, dtype=float).astype(int)
                c.count()
                if not (np.all(pv["lbx"][ii] == 0.0) and np.all(pv["ubx"][ii] == 1.0)):
                    c.fail("violation variable not bounded by [0, 1]", desc,
                           {"lbx": pv["lbx"][ii].tolist(), "ubx": pv["ubx"][ii].tolist()})
        if outs is None:
            continue
        mo = outs[pos:pos + len(meta)]
        pos += len(meta)
        model_rows = []
        for (kind, s, k), o in zip(meta, mo):
            if kind == "soft":
                model_rows += [(unfr(v), unfr(l), unfr(u)) for v, l, u in o]
                c.hit("rows/soft-goal")
            else:
                for m in range(E):
                    f = S.fvalue(s, pv["phys"][m], 0)
                    for i, (l, u) in enumerate(o):
                        model_rows.append((float(f[i]) / s.nom_at(0), unfr(l), unfr(u)))
                c.hit("rows/critical-key")
                if k > 1:
                    c.hit("rows/critical-key-merged")
        missing, extra = match_rows(model_rows, real)
        if missing or len(real) != nb + len(model_rows):
            c.disagree("goal rows of the first priority", desc,
                       {"missing": missing[:6], "n_model": len(model_rows), "n_base": nb},
                       {"n_real": len(real), "unmatched_real": extra[:6]})


# ---------------------------------------------------------------------------------------------
# update_bounds: all weak orderings of four bounds x enforce mode x inf placements


def weak_orderings(k):
    """all maps {0..k-1} -> ranks that are onto an initial segment (weak orderings)"""
    out = []
    for ranks in itertools.product(range(k), repeat=k):
        r = sorted(set(ranks))
        if r == list(range(len(r))):
            out.append(ranks)
    return out


def stream_update_bounds(c):
    from rtctools.optimization.goal_programming_mixin_base import _GoalConstraint
    from rtctools.optimization.timeseries import Timeseries

    cases, lines = [], []
    for ranks in weak_orderings(4):
        top = max(ranks)
        for inf_lo, inf_hi in itertools.product((False, True), repeat=2):
            vals = []
            for r in ranks:
                v = float(2 * r + 1)
                if inf_lo and r == 0:
                    v = -INF
                if inf_hi and r == top and not (inf_lo and r == 0):
                    v = INF
                vals.append(v)
            for enforce_self in (True, False):
                cases.append((vals, enforce_self))
                lines.append(dict(op="update", self=[[fr(vals[0]), fr(vals[1])]], other=[[fr(vals[2]), fr(vals[3])]],
                                  enforceSelf=enforce_self))
    outs = c.model(lines)
    t = np.array([0.0, 1.0])
    for k, (vals, es) in enumerate(cases):
        a = _GoalConstraint(None, None, vals[0], vals[1], True)
        b = _GoalConstraint(None, None, vals[2], vals[3], True)
        a.update_bounds(b, enforce="self" if es else "other")
        res = (float(a.min), float(a.max))
        # Timeseries form (element-wise): same values twice
        a2 = _GoalConstraint(None, None, Timeseries(t, np.array([vals[0]] * 2)), Timeseries(t, np.array([vals[1]] * 2)), True)
        b2 = _GoalConstraint(None, None, Timeseries(t, np.array([vals[2]] * 2)), Timeseries(t, np.array([vals[3]] * 2)), True)
        a2.update_bounds(b2, enforce="self" if es else "other")
        res2 = (float(a2.min.values[1]), float(a2.max.values[1]))
        case = dict(stream="update_bounds", self=vals[:2], other=vals[2:], enforce="self" if es else "other")
        c.count(("ub", tuple(vals), es))
        c.hit("update_bounds")
        # ---- oracle: the kept interval is never left; an intersection is taken exactly
        keep = vals[:2] if es else vals[2:]
        if keep[0] <= keep[1] and not (keep[0] <= res[0] <= res[1] <= keep[1]):
            c.fail("update_bounds(enforce=%s) leaves the bounds it must keep" % case["enforce"], case, res)
        lo, hi = max(vals[0], vals[2]), min(vals[1], vals[3])
        if vals[0] <= vals[1] and vals[2] <= vals[3] and lo <= hi and res != (lo, hi):
            c.fail("update_bounds of two intersecting intervals is not their intersection", case, res)
        if res2 != res:
            c.fail("update_bounds: Timeseries form differs from the scalar form", case, (res, res2))
        if outs is not None:
            mo = outs[k][0]
            if not (same(mo[0], res[0], exact=True) and same(mo[1], res[1], exact=True)):
                c.disagree("update_bounds", case, mo, res)


# ---------------------------------------------------------------------------------------------
# (c) solved instances: the envelope oracle


def check_envelope(c, case_desc, s, res_m, eps, where, slack=0.0):
    """envelope of one non-critical target goal for one member; eps shaped (size, nsteps)"""
    n_bad = 0
    for cc in range(s.size):
        f = S.fvalue(s, res_m, cc)
        lo, hi = s.lo_at(cc), s.hi_at(cc)
        scale = TOL * max(1.0, abs(hi - lo), s.nom_at(cc)) + slack
        for i in range(len(f)):
            e = float(eps[cc][i])
            c.count()
            if not (-TOL <= e <= 1 + TOL):
                c.fail("violation variable outside [0, 1] " + where, case_desc, dict(goal=s.describe(), comp=cc, step=i, eps=e))
                n_bad += 1
                continue
            a, b = s.target_at("min", cc, i), s.target_at("max", cc, i)
            if s.has_min and math.isfinite(a):
                c.hit("envelope/active-min")
                if f[i] < a + e * (lo - a) - scale:
                    c.fail("goal function below its epsilon envelope " + where, case_desc,
                           dict(goal=s.describe(), comp=cc, step=i, eps=e, f=float(f[i]), bound=a + e * (lo - a)))
                    n_bad += 1
            if s.has_max and math.isfinite(b):
                c.hit("envelope/active-max")
                if f[i] > b + e * (hi - b) + scale:
                    c.fail("goal function above its epsilon envelope " + where, case_desc,
                           dict(goal=s.describe(), comp=cc, step=i, eps=e, f=float(f[i]), bound=b + e * (hi - b)))
                    n_bad += 1
            if e <= TOL:
                c.hit("envelope/eps0-target-met")
    return n_bad


def check_critical(c, case_desc, s, res_m, where, slack=0.0):
    f = S.fvalue(s, res_m, 0)
    scale = TOL * max(1.0, s.nom_at(0)) + slack
    for i in range(len(f)):
        a, b = s.target_at("min", 0, i), s.target_at("max", 0, i)
        c.count()
        if s.has_min and math.isfinite(a) and f[i] < a - scale:
            c.fail("critical goal not met " + where, case_desc, dict(goal=s.describe(), step=i, f=float(f[i]), target_min=a))
        if s.has_max and math.isfinite(b) and f[i] > b + scale:
            c.fail("critical goal not met " + where, case_desc, dict(goal=s.describe(), step=i, f=float(f[i]), target_max=b))


def eps_array(res_m, name, size, nsteps):
    e = np.asarray(res_m[name], dtype=float)
    if e.ndim == 2:  # (nsteps, size)
        return e.T
    if size > 1 and nsteps == 1:
        return e.reshape((size, 1))
    return e.reshape((1, -1))


def priorities_of(specs):
    live = [s for s in specs if not S.is_empty(s)]
    return sorted({int(s.prio) for s in live}), live


def inject_unattainable(rng, specs, highs):
    """a target goal that cannot be fully met (violation > 0 at steps the model can still move),
    with a nominal different from 1, and at a later priority a goal pushing the same quantity the
    other way: the retained envelope of the first goal is then what holds the later solution"""
    used = {int(s.prio) for s in specs}
    free = [p for p in range(-4, 14) if p not in used]
    pa, pc = sorted(rng.sample(free, 2))
    uid = max(s.uid for s in specs) + 1
    var = rng.choice(["x", "x", "y"])
    lo, hi = S.RANGES[var]
    far = rng.choice([0.6, 0.8, 0.9])
    nom = rng.choice([10.0, 5.0, 10.0, 0.5])
    order = 1 if highs else rng.choice([1, 2])
    if rng.random() < 0.5:
        ga = GoalSpec(terms=[(var, 1.0)], fk="g%d" % uid, tmin=("s", far * hi), lo=[lo], hi=[hi], rdef=False,
                      nom=[nom], prio=pa, order=order, uid=uid)
        gc = GoalSpec(terms=[(var, 1.0)], fk="g%d" % (uid + 1), prio=pc, order=1, uid=uid + 1)
    else:
        ga = GoalSpec(terms=[(var, 1.0)], fk="g%d" % uid, tmax=("s", far * lo), lo=[lo], hi=[hi], rdef=False,
                      nom=[nom], prio=pa, order=order, uid=uid)
        gc = GoalSpec(terms=[(var, -1.0)], fk="g%d" % (uid + 1), prio=pc, order=1, uid=uid + 1)
    specs.extend([ga, gc])


def stream_solved(c, N):
    K = S.problem_classes()
    rng = c.rng
    for _ in range(N):
        variant = rng.choice(["GP", "GP", "GP", "SP", "SP2"])
        keep = True if variant != "GP" else rng.random() < 0.4
        highs = rng.random() < 0.7
        inst = S.gen_instance(rng)
        n = len(inst["times"])
        specs = S.gen_goal_set(rng, n, keep, orders=(1,) if highs else (1, 2), allow_equal=False,
                               allow_relax=not keep)
        if variant == "GP" and not keep and rng.random() < 0.35:
            inject_unattainable(rng, specs, highs)
        prios, live = priorities_of(specs)
        opts = {}
        cr = 0.0
        if not keep and rng.random() < 0.3:
            cr = opts["constraint_relaxation"] = rng.choice([0.125, 0.5])
        if variant == "GP":
            opts["keep_soft_constraints"] = keep
        if not highs and rng.random() < 0.7:
            opts["fix_minimized_values"] = False
        desc = dict(variant=variant, keep=keep, solver="highs" if highs else "ipopt", n=n, inst=inst, opts=opts,
                    goals=[s.describe() for s in specs])
        # history dimension: a share of the problems has a parent whose constant_inputs() returns one
        # cached dictionary per member (as IOMixin's @cached does), and is optimised a SECOND time on
        # the same object after every target moved
        cached = rng.random() < 0.4
        rerun = cached or rng.random() < 0.1
        pr = K[variant](specs=specs, gp_opts=opts, use_highs=highs, cache_inputs=cached, **inst)
        runs = [specs] + ([S.shift_targets(specs, rng.choice([-0.25, 0.25]))] if rerun else [])
        for run_no, specs in enumerate(runs):
            if run_no:
                pr.set_specs(specs)
                prios, live = priorities_of(specs)
                desc = dict(desc, second_optimize_call=True, cached_constant_inputs=cached,
                            goals=[s.describe() for s in specs])
                c.hit("solved/second-optimize-call" + ("-cached-inputs" if cached else ""))
            r = S.run_quiet(pr.optimize)
            c.programs += 1
            if r[0] == "raise":
                c.hit("solved/exception")
                c.disagree("well-formed goal set: optimize() raised", desc, "ok", classify(r[1]))
                break
            success = bool(r[1])
            c.hit("solved/success" if success else "solved/solver-failure")
            c.hit("solved/" + variant + ("-keep" if keep and variant == "GP" else ""))
            c.count(("solved", variant, keep, highs, len(prios), success, inst["pvals"].__len__(),
                     tuple(sorted((s.size, s.point is None, s.tmin[0], s.tmax[0], s.crit) for s in live))))
            c.sample({"stream": "solved", **desc, "success": success, "completed": [p for p, *_ in pr.snaps]}, limit=6)
            done = [p for p, *_ in pr.snaps]
            if success and done != prios:
                c.fail("optimize() reported success without completing every priority", desc, dict(done=done, prios=prios))
            E = len(inst["pvals"])
            for k, (p, res, _tp, _obj, _xo) in enumerate(pr.snaps):
                # the priorities whose violation variables are part of this solution
                visible = range(0, k + 1) if keep else [k]
                for i in visible:
                    gp = [s for s in live if int(s.prio) == prios[i]]
                    for kind, gl in (("point", [s for s in gp if s.point is not None]),
                                     ("path", [s for s in gp if s.point is None])):
                        for j, s in enumerate(gl):
                            if not s.is_target or s.crit:
                                continue
                            name = ("path_eps_%d_%d" if kind == "path" else "eps_%d_%d") % (i, j)
                            for m in range(E):
                                if name not in res[m]:
                                    c.fail("violation variable %s missing from the results" % name, desc)
                                    continue
                                eps = eps_array(res[m], name, s.size, n if kind == "path" else 1)
                                check_envelope(c, desc, s, res[m], eps, "(priority %d seen at priority %d)" % (prios[i], p))
                # multi-pass without keep_soft: the envelope of every EARLIER goal, for the violation it
                # reported at its own priority, also holds in this later solution (retained hard
                # constraint; goal relaxation and constraint_relaxation are the configured slack)
                if not keep:
                    for i in range(k):
                        res_i = pr.snaps[i][1]
                        gp = [s for s in live if int(s.prio) == prios[i]]
                        for kind, gl in (("point", [s for s in gp if s.point is not None]),
                                         ("path", [s for s in gp if s.point is None])):
                            for j, s in enumerate(gl):
                                if not s.is_target or s.crit:
                                    continue
                                name = ("path_eps_%d_%d" if kind == "path" else "eps_%d_%d") % (i, j)
                                for m in range(E):
                                    if name in res_i[m]:
                                        eps = eps_array(res_i[m], name, s.size, n if kind == "path" else 1)
                                        check_envelope(c, desc, s, res[m], eps,
                                                       "(violation reported at priority %d, solution of priority %d)" % (prios[i], p),
                                                       slack=s.relax + cr * s.nom_at(0))
                                        c.hit("envelope/earlier-goal-on-later-solution")
                # critical goals: from their priority on
                for s in live:
                    if s.crit and int(s.prio) <= p:
                        for m in range(E):
                            check_critical(c, desc, s, res[m], "at priority %d" % p, slack=s.relax + cr * s.nom_at(0))
                            c.hit("critical/checked")
            if success:
                for m in range(E):
                    fin = pr.extract_results(m)
                    for s in live:
                        if s.crit:
                            check_critical(c, desc, s, fin, "in the final result", slack=s.relax + cr * s.nom_at(0))


# ---------------------------------------------------------------------------------------------
# known findings / corpus


def probe_f23(c):
    K = S.problem_classes()
    inst = dict(times=[0.0, 1.0, 2.0], pvals=[[0.5, 0.0]], cvals=[[1.0, 1.0, 1.0]], nom={}, x0=[0.0], probs=None)
    spec = GoalSpec(terms=[("x", 1.0)], fk="a", w=-1.0, order=1, prio=1, uid=1)
    pr = K["GP"](specs=[spec], stop_at="started", **inst)
    r = S.run_quiet(pr.optimize)
    c.count(("probe", "F23"))
    c.known_probe("F23", r[0] in ("ok", "stop"), "minimisation goal with weight -1 is accepted by the goal validation")


def probe_f27(c):
    K = S.problem_classes()
    inst = dict(times=[0.0, 1.0, 2.0, 3.0], pvals=[[0.5, 0.0]], cvals=[[1.0] * 4], nom={}, x0=None, probs=None)
    specs = [
        GoalSpec(terms=[("x", 1.0)], fk="k", tmax=("s", 5.0), lo=[-50.0], hi=[50.0], rdef=False, order=1, prio=1, uid=1),
        GoalSpec(terms=[("x", 1.0)], fk="k", tmin=("s", 6.0), crit=True, prio=2, uid=2),
        GoalSpec(terms=[("x", 1.0)], fk="k3", order=1, prio=3, uid=3),
    ]
    pr = K["GP"](specs=specs, use_highs=True, **inst)
    r = S.run_quiet(pr.optimize)
    c.count(("probe", "F27"))
    reproduced = False
    if r[0] == "ok" and r[1]:
        for p, res, *_ in pr.snaps:
            if p >= 2 and np.any(np.asarray(res[0]["x"]) < 6.0 - 1e-3):
                reproduced = True
    c.known_probe("F27", reproduced,
                  "critical goal x>=6 disjoint from the retained bound x<=5 of an earlier priority is silently not met "
                  "(optimize() returns True)")


CORPUS_UPDATE = [
    # F4 (fixed): the stored bounds survive a critical goal on the same key
    ((2.0, INF), (-INF, 8.0), True, (2.0, 8.0)),
    ((2.0, 5.0), (0.0, 10.0), True, (2.0, 5.0)),
]


def run_corpus(c):
    from rtctools.optimization.goal_programming_mixin_base import _GoalConstraint

    for a, b, es, exp in CORPUS_UPDATE:
        x = _GoalConstraint(None, None, a[0], a[1], True)
        x.update_bounds(_GoalConstraint(None, None, b[0], b[1], True), enforce="self" if es else "other")
        c.count(("corpus", "F4", a, b))
        if (float(x.min), float(x.max)) != exp:
            c.fail("update_bounds(enforce='self') loses the stored bounds (F4)", dict(self=a, other=b),
                   (float(x.min), float(x.max)))
    # F4 end to end: p1 x >= 2 (met), p2 critical x <= 8, p3 minimise x  =>  x stays >= 2
    K = S.problem_classes()
    inst = dict(times=[0.0, 1.0, 2.0, 3.0], pvals=[[0.5, 0.0]], cvals=[[1.0] * 4], nom={}, x0=None, probs=None)
    specs = [
        GoalSpec(terms=[("x", 1.0)], fk="k", tmin=("s", 2.0), lo=[-50.0], hi=[50.0], rdef=False, order=1, prio=1, uid=1),
        GoalSpec(terms=[("x", 1.0)], fk="k", tmax=("s", 8.0), crit=True, prio=2, uid=2),
        GoalSpec(terms=[("x", 1.0)], fk="k3", order=1, prio=3, uid=3),
    ]
    pr = K["GP"](specs=specs, use_highs=True, **inst)
    r = S.run_quiet(pr.optimize)
    c.count(("corpus", "F4-e2e"))
    if r[0] != "ok" or not r[1]:
        c.fail("F4 corpus instance no longer solves", dict(goals=[s.describe() for s in specs]), repr(r)[:200])
    else:
        x = np.asarray(pr.extract_results(0)["x"])
        if np.any(x < 2.0 - TOL) or np.any(x > 8.0 + TOL):
            c.fail("critical goal on a key with an earlier retained bound: bounds lost (F4)",
                   dict(goals=[s.describe() for s in specs]), x.tolist())


def replay(c, rp):
    """re-run the deterministic parts (proofs, corpus, kernel enumeration, probes) and show the
    recorded failing inputs"""
    from .translate import gen_update_bounds
    from .translate_c04 import gen_goal_code, gen_hard_constraint

    c.prove(extra=gen_update_bounds(c) + gen_hard_constraint(c) + gen_goal_code(c))  # + kernels translated from the source
    for f in rp.get("failures", []) + rp.get("correspondence_disagreements", []):
        print("recorded:", f["what"])
    run_corpus(c)
    stream_update_bounds(c)
    probe_f23(c)
    probe_f27(c)


def run(c):
    c.rule = (
        "synthetic linear model (x'=-p x+u+c, y=x+q; 2-5 steps, 1-2 members, nominals) with random goal sets: "
        "target / minimisation / critical, path and point, scalar / vector / Timeseries targets with NaN and inf "
        "gaps, shared function keys with monotone targets, 1-3 priorities, keep_soft on/off, single pass; "
        "validation stream = well-formed sets with 0-2 ill-forming mutations out of 26; rows stream = complete "
        "multiset of goal rows of the first priority at a random probe point; update_bounds = all 75 weak "
        "orderings x inf placements x 2 modes; solved stream = envelope per goal/member/component/step; "
        "_gp_min_max_arrays of every goal of an accepted set vs the translated reference, entry by entry.  "
        "distinct = (stream, variant, options, mutation set, outcome, goal-shape signature) tuples"
    )
    c.assumptions = [
        "the solver returns a point satisfying lbx/ubx/lbg/ubg to tolerance when it reports success (oracle tolerance 1e-6)",
        "CasADi evaluates if_else / Function / map as documented (rows compared at probe points, 1e-9 relative)",
        "Timeseries targets are given on the problem's own time grid (interpolate is then the identity); a target "
        "series covering only part of the grid is outside the model (its soft rows get the constant-input fill 0.0)",
        "goal priorities are ints; goal sizes of goals sharing a function key agree",
        "violation_tolerance is left at its default (inf); the branch it guards is not modelled",
        "translator table of harness/c04_goalcode.py (trusted): NumPy broadcasting / transpose / np.where masks read "
        "element-wise, a Timeseries target's values identified with the target cells, ca.if_else(fabs(t) < c, a, b) false "
        "on nan / inf, problem.variable(name) / parameters(m)[name] = the entry of the dictionaries that "
        "constant_inputs() / parameters() return, function keys independent of the ensemble member",
    ]
    from .translate import gen_update_bounds
    from .translate_c04 import gen_goal_code, gen_hard_constraint

    # + kernels translated from the source on every run (update_bounds; soft-to-hard conversion; goal validation,
    #   target broadcasting and soft-constraint construction)
    c.prove(extra=gen_update_bounds(c) + gen_hard_constraint(c) + gen_goal_code(c))
    run_corpus(c)
    stream_update_bounds(c)
    stream_validate(c, c.n(400, 12000))
    stream_rows(c, c.n(80, 1500))
    stream_solved(c, c.n(80, 1500))
    probe_f23(c)
    probe_f27(c)
    c.exhaustive = False
    c.notes.append("partial: C04_critical_hard needs the critical interval to share a point with the entry already "
                   "stored for its key (otherwise known finding F27, witness theorem C04_critical_disjoint_witness); "
                   "the validation model covers int priorities and list-shaped ranges/nominals; F23 (weight of "
                   "minimisation goals unchecked) is the code's behaviour and is mirrored by the model. ")
    c.notes.append("Gen/GoalCode.lean (re-generated on every run): validation chain, min/max arrays, sentinel constants, "
                   "slice indices, soft-row expression and rows, n_active, epsilon size and bounds, critical-goal member loop, "
                   "Goal properties, constant_inputs()/parameters() of both mixins -- each proved equal to a code-level "
                   "reference that Props/C04.lean connects to the model. ")
    c.notes.append("update_bounds enumerated over all weak orderings of its four arguments (complete for a "
                   "min/max kernel); the other streams are samples; the unbounded claims are the theorems")
