"""
Source-to-Lean translation of the goal validation, the target broadcasting and the soft-constraint
construction of goal_programming_mixin_base.py (C04).  Used by `translate_c04.gen_goal_code`.

Translated on every run of the C04 check from /repo:

  * `_gp_validate_goals`  (whole method: priority sort, the three loops, every `raise` with the path
    condition under which it is reached, for path and non-path goals and both options that influence
    it)  ->  `valLoop1Gen`, `valMonoGen`, `valLoop3Gen`, `validateGen`; theorems `*_eq_ref` against the
    code-level reference of `Model/C04Code.lean`, which `Proofs/C04Code.lean` proves equal to
    `C04.checkDef`, `C04.checkMono`, `C04.checkTargets`, `C04.validate` (the functions
    `C04_validate_sound_complete` / `C04_validation_order` are about).
  * `_gp_min_max_arrays`  (per target kind x target_shape x size > 1, with NumPy shapes tracked
    symbolically)  ->  `minArrGen`, `maxArrGen`; reference `minMaxRef`, proved to read `Target.at`.
  * the soft-constraint part of `_gp_goal_constraints`: sentinel replacement of NaN / -inf (+inf)
    target entries, slice indices of vector goals, `_soft_constraint_func`, the two `_GoalConstraint`
    rows per target side, the epsilon symbol size, `n_active`; and `bounds()` of both goal-programming
    mixins (epsilon bounds)  ->  `minConstGen`, `maxConstGen`, `keepMinGen`, `keepMaxGen`, `softExprGen`,
    `softRowsGen`, `nActiveGen`, `epsSizeGen`, `epsBoundsGen`; reference proved equal to `C04.softRows`,
    `Goal.minSym`, `Goal.keepMin`, `C04.epsBounds`.

Table  Python construct  ->  model term  (anything else: TranslationError = broken obligation)

  --- goal attributes (goal variable `goal` -> g, `prev` -> prev)
  goal.function_range ; m, M = goal.function_range ; goal.function_range[k]
                                            per-component entries  g.loAt c / g.hiAt c ; as lists g.rangeLo / g.rangeHi
  goal.function_range != (np.nan, np.nan)   !g.rangeDefault
  goal.function_nominal                     g.nominal (list) ; g.nomAt c (in a row)
  goal.critical / has_target_min / has_target_max / has_target_bounds      g.critical / g.hasMin / g.hasMax / g.hasTargetBounds
  goal.weight / relaxation / size           g.weight / g.relaxation / g.size
  goal.violation_timeseries_id is not None  g.violationId
  isinstance(goal.target_min, Timeseries)   g.tmin.isSeries    (in a 3-way isinstance chain: the constructor of g.tmin)
  isinstance(m, ca.MX): ...                 skipped (function ranges are numeric; the body may not raise)
  try: int(goal.priority) except ValueError: raise      no check (int priorities)
  options["keep_soft_constraints"|"check_monotonicity"|"scale_by_problem_size"]     o.keepSoft | o.checkMonotonicity | scale
  --- conditions
  np.any(L <= 0) (L a nominal list)         L.any (fun n => decide (n <= 0))
  np.all(np.isfinite(m)) (m a range entry)  g.rangeLo.all XVal.isFinite
  np.any(m >= M) (range entries)            (List.range g.size).any (fun c => xle (g.hiAt c) (g.loAt c))
  x <= 0, x < 0.0, x != 0.0, size > 1       decide (...)
  not a ; a and b ; a or b                  !a ; a && b ; a || b
  --- arrays over the (component, step) cells of a goal
  self._gp_min_max_arrays(goal, target_shape)           (g.mAt c i, g.MAt c i) on cells g.size x nSteps
  np.broadcast_to(goal.function_range[k], A.shape[::-1]).transpose()       g.loAt c / g.hiAt c
  np.isnan(A) ; np.isfinite(A) ; np.isneginf(A) ; np.isposinf(A)    xIsNan A ; A.isFinite ; xIsNinf A ; xIsPinf A
  np.logical_not(a) ; np.logical_or(a, b) ; a | b ; ~a  !a ; a || b ; a || b ; !a
  indices = np.where(mask) ; A[indices] OP B[indices] ; np.any(...)       anyCell g.size nSteps (fun c i => mask && OP A B)
  a < b ; a > b ; a <= b ; a >= b           xlt a b ; xlt b a ; xle a b ; xle b a
  --- statements
  raise Exception("<message>")              some Err.<ctor>   (ctor by the message, table ERR_CTORS)
  if c: A [elif/else: B]                    if c then [[A]] else [[B]]
  s1 ; s2 ; ...                             firstErr [[[s1]], [[s2]], ...]
  for goal in goals: body                   firstOf (fun g => [[body]]) gs
  goals = sorted(goals, key=lambda x: x.priority)       gs := sortByPriority goals   (stable)
  if is_path_goal: target_shape = len(self.times()) else: target_shape = None     nSteps := if isPath then nTimes else 1
  for e in range(self.ensemble_size): fk_goal_map = {}; for goal in goals: fk = goal.get_function_key(self, e);
      prev = fk_goal_map.get(fk); fk_goal_map[fk] = goal; if prev is not None: body
                                            monoWalkWith (fun g prev => [[body]]) [] gs   (keys do not depend on the member)
  --- _gp_min_max_arrays (NumPy shapes tracked symbolically: T = target_shape, S = goal.size)
  self.interpolate(times, ts.times, ts.values, f, f)    ts.values (Timeseries given on the problem's grid), shape (T,) or (T, S)
  np.broadcast_to(x, shape) ; x.transpose() ; np.full(T, v) ; np.array([v]) ; x.ndim ; len(x)      NumPy semantics on (shape, element)
  --- soft constraints
  Timeseries(ts.times, ts.values) ; x.copy()            the same cells
  x[inds] = v ; x.values[inds] = v          cell := if inds then v else cell
  sys.float_info.max                        floatMax
  ~np.all(np.broadcast_to(inds.transpose(), (goal.size, n_times)), axis=1)       fun c => !((List.range n).all fun i => inds c i)
  np.full(goal.size, True)                  fun c => true
  problem.variable(target) / problem.parameters(ensemble_member)[target]         the constant registered under that name
  problem.variable(epsilon.name()) / problem.extra_variable(epsilon.name(), m)   eps
  goal.function(problem, ensemble_member)   f
  ca.if_else(ca.fabs(t) < c, a, b)          ifAbsLt t c (fun t => a) b      (comparison false on nan / inf)
  expr[inds]                                rows of the kept components only
  _GoalConstraint(goal, partial(_soft_constraint_func, target=V, bound=B, inds=I), lo, hi, False)     rows (value, lo, hi)
  np.sum(mask.astype(int), axis=-1) ; np.maximum(n, 1)  count over the steps of component c ; max n 1
  bounds[epsilon.name()] = (0.0, 1.0) for epsilon in (all four epsilon lists)    epsBounds
  --- further tables: critical-goal member loop (`translate_crit_calls`), `Goal` properties (class `Props`),
      `constant_inputs()` / `parameters()` of both mixins (`translate_inputs_method`)
"""
import ast
import os
import re

from .common import REPO
from .translate import TranslationError, _find_method

BASE = os.path.join("src", "rtctools", "optimization", "goal_programming_mixin_base.py")
MIXIN = os.path.join("src", "rtctools", "optimization", "goal_programming_mixin.py")
SPMIXIN = os.path.join("src", "rtctools", "optimization", "single_pass_goal_programming_mixin.py")

ERR_CTORS = [
    ("nominal", r"Nonpositive nominal value"),
    ("criticalMin", r"Minimization goals cannot be critical"),
    ("noRange", r"No function range specified"),
    ("badRange", r"Invalid function range"),
    ("weight", r"Goal weight should be positive"),
    ("rangeOnMin", r"Specifying function range not allowed"),
    ("tsMin", r"Target min cannot be a Timeseries"),
    ("tsMax", r"Target max cannot be a Timeseries"),
    ("relaxKeepSoft", r"Relaxation not allowed with"),
    ("violIdKeepSoft", r"Violation timeseries id not allowed"),
    ("vectorNeedsKeepSoft", r"needs to be set for vector goal"),
    ("vectorCritical", r"Vector goal cannot be critical"),
    ("monoMin", r"Target minimum of goal .* must be greater or equal"),
    ("monoMax", r"Target maximum of goal .* must be less or equal"),
    ("minGtMax", r"Target minimum exceeds target maximum"),
    ("tminLeLb", r"Target minimum should be greater than the lower bound"),
    ("tminGtUb", r"Target minimum should not be greater than the upper bound"),
    ("tmaxGeUb", r"Target maximum should be smaller than the upper bound"),
    ("tmaxLtLb", r"Target maximum should not be smaller than the lower bound"),
    ("relaxNeg", r"should be a nonnegative value"),
]


def TE(msg, node=None):
    if node is not None:
        msg += ": " + ast.dump(node)[:120]
    return TranslationError(msg)


def is_name(node, name):
    return isinstance(node, ast.Name) and node.id == name


def is_np(node, attr=None):
    return isinstance(node, ast.Attribute) and is_name(node.value, "np") and (attr is None or node.attr == attr)


def is_self_call(node, meth):
    return isinstance(node, ast.Call) and isinstance(node.func, ast.Attribute) and is_name(node.func.value, "self") \
        and node.func.attr == meth


def is_len_times(node):
    return isinstance(node, ast.Call) and is_name(node.func, "len") and len(node.args) == 1 \
        and is_self_call(node.args[0], "times") and not node.args[0].args


def is_option(node, key=None):
    ok = isinstance(node, ast.Subscript) and is_name(node.value, "options") and isinstance(node.slice, ast.Constant)
    return ok and (key is None or node.slice.value == key)


def num(c):
    from fractions import Fraction
    f = Fraction(c)
    return "%d" % f.numerator if f.denominator == 1 else "(%d / %d)" % (f.numerator, f.denominator)


class V:
    """a symbolic value: `kind` + fields"""

    def __init__(self, kind, **kw):
        self.kind = kind
        self.__dict__.update(kw)

    def __repr__(self):
        return "V(%s)" % ", ".join("%s=%r" % kv for kv in self.__dict__.items())


def raise_ctor(st):
    """`raise Exception("...".format(...))` -> Err constructor"""
    e = st.exc
    if not (isinstance(e, ast.Call) and is_name(e.func, "Exception") and len(e.args) == 1):
        raise TE("unsupported raise", st)
    a = e.args[0]
    if isinstance(a, ast.Call) and isinstance(a.func, ast.Attribute) and a.func.attr == "format":
        a = a.func.value
    if not (isinstance(a, ast.Constant) and isinstance(a.value, str)):
        raise TE("raise without a literal message", st)
    for ctor, pat in ERR_CTORS:
        if re.search(pat, a.value.replace("\n", " ")):
            return ctor
    raise TE("unknown validation message %r" % a.value[:60])


def contains_raise(stmts):
    return any(isinstance(n, ast.Raise) for s in stmts for n in ast.walk(s))


OPT_BOOL = {"keep_soft_constraints": "o.keepSoft", "check_monotonicity": "o.checkMonotonicity",
            "scale_by_problem_size": "scale"}
GOAL_BOOL = {"critical": "critical", "has_target_min": "hasMin", "has_target_max": "hasMax",
             "has_target_bounds": "hasTargetBounds"}
GOAL_RAT = {"weight": "weight", "relaxation": "relaxation"}
CMP = {ast.Lt: ("xlt", False, "<"), ast.Gt: ("xlt", True, ">"), ast.LtE: ("xle", False, "≤"), ast.GtE: ("xle", True, "≥")}


class Interp:
    """expressions of the validation / soft-constraint code over symbolic values"""

    def __init__(self, env=None, atoms=None):
        self.env = dict(env or {})
        self.atoms = atoms if atoms is not None else []  # atomic conditions met (shared between forks)

    def atom(self, lean, reg=None):
        reg = reg or lean
        if reg not in self.atoms:
            self.atoms.append(reg)
        return V("bool", lean=lean)

    def fork(self):
        o = self.__class__.__new__(self.__class__)
        o.__dict__.update(self.__dict__)
        o.env = dict(self.env)
        return o

    # ---- goal attributes
    def goal_attr(self, g, attr, node):
        if attr in GOAL_BOOL:
            return self.atom("%s.%s" % (g, GOAL_BOOL[attr]))
        if attr in GOAL_RAT:
            return V("rat", lean="%s.%s" % (g, GOAL_RAT[attr]))
        if attr == "size":
            return V("nat", lean="%s.size" % g)
        if attr == "function_nominal":
            return V("ratlist", lean="%s.nominal" % g, goal=g)
        if attr == "function_range":
            return V("rangepair", goal=g)
        if attr in ("target_min", "target_max"):
            return V("target", goal=g, side="tmin" if attr == "target_min" else "tmax")
        if attr == "violation_timeseries_id":
            return V("violid", goal=g)
        raise TE("unsupported goal attribute " + attr, node)

    def range_ent(self, g, k):
        return V("range", goal=g, side="Lo" if k == 0 else "Hi")

    @staticmethod
    def range_comp(v):
        return "(%s.%sAt c)" % (v.goal, "lo" if v.side == "Lo" else "hi")

    @staticmethod
    def range_list(v):
        return "%s.range%s" % (v.goal, v.side)

    # ---- expressions
    def ev(self, node):
        if isinstance(node, ast.Name):
            if node.id in self.env:
                v = self.env[node.id]
                if v.kind == "bool" and v.lean == "isPath":
                    self.atom("isPath")
                return v
            raise TE("unknown name " + node.id)
        if isinstance(node, ast.Constant):
            if node.value is None:
                return V("none")
            if isinstance(node.value, bool):
                return V("bool", lean="true" if node.value else "false")
            if isinstance(node.value, (int, float)):
                return V("num", value=node.value)
            raise TE("unsupported constant", node)
        if isinstance(node, ast.Attribute):
            if is_np(node, "inf"):
                return V("xnum", lean="XVal.pinf")
            if is_np(node, "nan"):
                return V("xnum", lean="XVal.nan")
            if isinstance(node.value, ast.Attribute) and is_name(node.value.value, "sys") \
                    and node.value.attr == "float_info" and node.attr == "max":
                return V("floatmax", neg=False)
            base = self.ev(node.value)
            if base.kind == "goal":
                return self.goal_attr(base.lean, node.attr, node)
            return self.attr_of(base, node.attr, node)
        if isinstance(node, ast.UnaryOp):
            if isinstance(node.op, ast.Not):
                return V("bool", lean="(!%s)" % self.b(node.operand))
            if isinstance(node.op, ast.Invert):
                v = self.ev(node.operand)
                return self.invert(v, node)
            if isinstance(node.op, ast.USub):
                v = self.ev(node.operand)
                if v.kind == "floatmax":
                    return V("floatmax", neg=not v.neg)
                if v.kind == "xnum" and v.lean == "XVal.pinf":
                    return V("xnum", lean="XVal.ninf")
                if v.kind == "num":
                    return V("num", value=-v.value)
            raise TE("unsupported unary operator", node)
        if isinstance(node, ast.BoolOp):
            op = " && " if isinstance(node.op, ast.And) else " || "
            return V("bool", lean="(" + op.join(self.b(x) for x in node.values) + ")")
        if isinstance(node, ast.BinOp) and isinstance(node.op, (ast.BitOr, ast.BitAnd)):
            a, c = self.ev(node.left), self.ev(node.right)
            if a.kind == "cmask" and c.kind == "cmask":
                return V("cmask", lean="(%s %s %s)" % (a.lean, "||" if isinstance(node.op, ast.BitOr) else "&&", c.lean))
            raise TE("unsupported mask operator", node)
        if isinstance(node, ast.Compare) and len(node.ops) == 1:
            return self.compare(node)
        if isinstance(node, ast.Subscript):
            return self.subscript(node)
        if isinstance(node, ast.Call):
            return self.call(node)
        if isinstance(node, ast.Tuple):
            return V("tuple", items=[self.ev(x) for x in node.elts])
        raise TE("unsupported expression", node)

    def attr_of(self, base, attr, node):
        if base.kind == "cell" and attr == "shape":
            return V("shape", rev=False)
        if base.kind == "ts" and attr == "values":
            return V("cell", lean=base.lean, ts=base)
        if base.kind == "ts" and attr == "times":
            return V("tstimes")
        if base.kind == "target" and attr in ("times", "values"):
            # attributes of a Timeseries target
            if attr == "times":
                return V("tstimes")
            return V("cell", lean="(%s.%sAt c i)" % (base.goal, "m" if base.side == "tmin" else "M"), of=base)
        raise TE("unsupported attribute ." + attr, node)

    def invert(self, v, node):
        if v.kind == "cmask":
            return V("cmask", lean="(!%s)" % v.lean)
        if v.kind == "compmask":
            return V("compmask", lean="(!%s)" % v.lean, goal=v.goal)
        if v.kind == "bool":
            return V("bool", lean="(!%s)" % v.lean)
        raise TE("unsupported ~", node)

    def compare(self, node):
        op = node.ops[0]
        left, right = node.left, node.comparators[0]
        # goal.function_range != (np.nan, np.nan)
        if isinstance(op, ast.NotEq) and isinstance(right, ast.Tuple) and len(right.elts) == 2 \
                and all(is_np(x, "nan") for x in right.elts):
            a = self.ev(left)
            if a.kind == "rangepair":
                return self.atom("(!%s.rangeDefault)" % a.goal, "%s.rangeDefault" % a.goal)
        a, c = self.ev(left), self.ev(right)
        if isinstance(op, (ast.Is, ast.IsNot)) and c.kind == "none":
            if a.kind == "violid":
                return self.atom(("%s.violationId" if isinstance(op, ast.IsNot) else "(!%s.violationId)") % a.goal,
                                 "%s.violationId" % a.goal)
            if a.kind == "goal" and a.lean == "prev":
                return V("prevtest", positive=isinstance(op, ast.IsNot))
            raise TE("unsupported None test", node)
        # scalar against a number
        if a.kind in ("rat", "nat") and c.kind == "num":
            sym = {ast.Lt: "<", ast.Gt: ">", ast.LtE: "≤", ast.GtE: "≥", ast.NotEq: "≠", ast.Eq: "="}.get(type(op))
            if sym is None:
                raise TE("unsupported comparison", node)
            return self.atom("decide (%s %s %s)" % (a.lean, sym, num(c.value)))
        if a.kind == "ratlist" and c.kind == "num" and type(op) in CMP:
            return V("ratmask", list=a.lean, pred="fun n => decide (n %s %s)" % (CMP[type(op)][2], num(c.value)))
        if type(op) not in CMP:
            raise TE("unsupported comparison", node)
        fn, swap, _ = CMP[type(op)]
        if a.kind == "range" and c.kind == "range" and a.goal == c.goal:
            x, y = self.range_comp(a), self.range_comp(c)
            if swap:
                x, y = y, x
            return V("compmask", lean="(%s %s %s)" % (fn, x, y), goal=a.goal)
        if a.kind == "sel" and c.kind == "sel":
            if a.mask != c.mask:
                raise TE("comparison of selections with different index sets", node)
            x, y = (c.lean, a.lean) if swap else (a.lean, c.lean)
            return V("cmask", lean="(%s && %s %s %s)" % (a.mask, fn, x, y))
        raise TE("unsupported comparison", node)

    def subscript(self, node):
        if is_option(node):
            k = node.slice.value
            if k in OPT_BOOL:
                return self.atom(OPT_BOOL[k])
            raise TE("unsupported option " + str(k))
        base = self.ev(node.value)
        if base.kind == "rangepair" and isinstance(node.slice, ast.Constant) and node.slice.value in (0, 1):
            return self.range_ent(base.goal, node.slice.value)
        if base.kind == "shape" and isinstance(node.slice, ast.Slice) and node.slice.lower is None \
                and node.slice.upper is None and isinstance(node.slice.step, ast.UnaryOp) \
                and isinstance(node.slice.step.op, ast.USub) and isinstance(node.slice.step.operand, ast.Constant) \
                and node.slice.step.operand.value == 1:
            return V("shape", rev=not base.rev)
        if base.kind == "cell":
            ix = self.ev(node.slice)
            if ix.kind == "idx":
                return V("sel", lean=base.lean, mask=ix.mask)
        raise TE("unsupported subscript", node)

    def call(self, node):
        f = node.func
        args = node.args
        if is_name(f, "isinstance") and len(args) == 2:
            v = self.ev(args[0])
            if v.kind == "target" and is_name(args[1], "Timeseries"):
                r = self.atom("%s.%s.isSeries" % (v.goal, v.side))
                r.isinst = (v, "series")
                return r
            if v.kind == "target" and is_np(args[1], "ndarray"):
                return V("isinst", isinst=(v, "vector"))
            raise TE("unsupported isinstance", node)
        if is_self_call(node, "_gp_min_max_arrays"):
            return self.min_max_call(node)
        if is_len_times(node):
            return V("ntimes")
        if is_name(f, "len") and len(args) == 1:
            v = self.ev(args[0])
            if v.kind == "tstimes":
                return V("ntimes")
            raise TE("unsupported len", node)
        if is_np(f):
            return self.np_call(f.attr, node)
        if isinstance(f, ast.Attribute) and f.attr == "transpose" and not args:
            v = self.ev(f.value)
            if v.kind == "bcast":
                return v.result
            if v.kind == "cmask":
                return V("cmask", lean=v.lean, transposed=True)
            raise TE("unsupported transpose", node)
        if isinstance(f, ast.Attribute) and f.attr == "copy" and not args:
            v = self.ev(f.value)
            if v.kind == "target":
                return V("cell", lean="(%s.%sAt c i)" % (v.goal, "m" if v.side == "tmin" else "M"), of=v)
            raise TE("unsupported copy", node)
        if is_name(f, "Timeseries") and len(args) == 2:
            t, vals = self.ev(args[0]), self.ev(args[1])
            if t.kind == "tstimes" and vals.kind == "cell":
                return V("ts", lean=vals.lean)
            raise TE("unsupported Timeseries construction", node)
        raise TE("unsupported call", node)

    def min_max_call(self, node):
        args = node.args
        kws = {k.arg: k.value for k in node.keywords}
        if len(args) == 2 and not kws:
            gnode, ts = args
        elif len(args) == 1 and set(kws) == {"target_shape"}:
            gnode, ts = args[0], kws["target_shape"]
        else:
            raise TE("unexpected use of _gp_min_max_arrays", node)
        g = self.ev(gnode)
        if g.kind != "goal":
            raise TE("_gp_min_max_arrays of a non-goal", node)
        if not (is_len_times(ts) or (isinstance(ts, ast.Name) and self.env.get(ts.id) is not None
                                     and self.env[ts.id].kind == "nsteps")):
            raise TE("_gp_min_max_arrays: target_shape is not the number of steps", node)
        return V("tuple", items=[V("cell", lean="(%s.mAt c i)" % g.lean), V("cell", lean="(%s.MAt c i)" % g.lean)])

    def np_call(self, name, node):
        args = node.args
        kws = {k.arg: k.value for k in node.keywords}
        if name in ("isnan", "isfinite", "isneginf", "isposinf") and len(args) == 1:
            v = self.ev(args[0])
            fn = {"isnan": "xIsNan %s", "isfinite": "XVal.isFinite %s", "isneginf": "xIsNinf %s",
                  "isposinf": "xIsPinf %s"}[name]
            if v.kind == "cell":
                return V("cmask", lean="(" + fn % v.lean + ")")
            if v.kind == "range" and name == "isfinite":
                return V("listmask", list=self.range_list(v), pred="XVal.isFinite")
            raise TE("unsupported np.%s argument" % name, node)
        if name == "logical_not" and len(args) == 1:
            return self.invert(self.ev(args[0]), node)
        if name == "logical_or" and len(args) == 2:
            a, c = self.ev(args[0]), self.ev(args[1])
            if a.kind == "cmask" and c.kind == "cmask":
                return V("cmask", lean="(%s || %s)" % (a.lean, c.lean))
            raise TE("unsupported logical_or", node)
        if name == "where" and len(args) == 1:
            v = self.ev(args[0])
            if v.kind == "cmask":
                return V("idx", mask=v.lean)
            raise TE("unsupported np.where", node)
        if name == "any" and len(args) == 1 and set(kws) == {"axis"}:
            v = self.ev(args[0])
            if v.kind == "bcast_mask" and isinstance(kws["axis"], ast.Constant) and kws["axis"].value == 1:
                return V("compmask", lean="((List.range n).any (fun i => %s))" % v.lean, goal=v.goal, perstep=True)
            raise TE("unsupported np.any", node)
        if name == "any" and len(args) == 1 and not kws:
            v = self.ev(args[0])
            if v.kind == "ratmask":
                return self.atom("(%s.any (%s))" % (v.list, v.pred))
            if v.kind == "compmask":
                return self.atom("((List.range %s.size).any (fun c => %s))" % (v.goal, v.lean))
            if v.kind == "cmask":
                return self.atom("(anyCell %s.size nSteps (fun c i => %s))" % (self.cell_goal(), v.lean))
            raise TE("unsupported np.any", node)
        if name == "all" and len(args) == 1:
            v = self.ev(args[0])
            if v.kind == "listmask" and not kws:
                return self.atom("(%s.all %s)" % (v.list, v.pred))
            if v.kind == "bcast_mask" and set(kws) == {"axis"} and isinstance(kws["axis"], ast.Constant) \
                    and kws["axis"].value == 1:
                return V("compmask", lean="((List.range n).all (fun i => %s))" % v.lean, goal=v.goal, perstep=True)
            raise TE("unsupported np.all", node)
        if name == "broadcast_to" and len(args) == 2:
            v, sh = self.ev(args[0]), self.ev(args[1])
            if v.kind == "range" and sh.kind == "shape" and sh.rev:
                return V("bcast", result=V("cell", lean=self.range_comp(v)))
            if v.kind == "cmask" and getattr(v, "transposed", False) and sh.kind == "tuple" and len(sh.items) == 2 \
                    and sh.items[0].kind == "nat" and sh.items[0].lean.endswith(".size") and sh.items[1].kind == "ntimes":
                return V("bcast_mask", lean=v.lean, goal=sh.items[0].lean[:-5])
            raise TE("unsupported broadcast_to", node)
        if name == "full" and len(args) == 2:
            n, v = self.ev(args[0]), self.ev(args[1])
            if n.kind == "nat" and n.lean.endswith(".size") and v.kind == "bool":
                return V("compmask", lean=v.lean, goal=n.lean[:-5])
            raise TE("unsupported np.full", node)
        raise TE("unsupported numpy function np." + name, node)

    def cell_goal(self):
        return "g"

    def b(self, node):
        v = self.ev(node)
        if v.kind == "bool":
            return v.lean
        raise TE("not a condition", node)


# =================================================================================================
# (1) _gp_validate_goals


class Validate(Interp):
    """statements of a loop body -> a Lean term of type `Option Err`"""

    def block(self, stmts):
        terms = []
        for st in stmts:
            t = self.stmt(st)
            if t is not None:
                terms.append(t)
        if not terms:
            return None
        return terms[0] if len(terms) == 1 else "(firstErr [" + ",\n      ".join(terms) + "])"

    def stmt(self, st):
        if isinstance(st, ast.Expr) and isinstance(st.value, ast.Constant):
            return None
        if isinstance(st, (ast.Pass, ast.Assert)):
            return None
        if isinstance(st, ast.Raise):
            return "(some Err.%s)" % raise_ctor(st)
        if isinstance(st, ast.Assign):
            self.assign(st)
            return None
        if isinstance(st, ast.Try):
            return self.try_int_priority(st)
        if isinstance(st, ast.If):
            return self.branch(st)
        raise TE("unsupported statement", st)

    def assign(self, st):
        if len(st.targets) != 1:
            raise TE("chained assignment", st)
        t = st.targets[0]
        v = self.ev(st.value)
        if isinstance(t, ast.Name):
            self.env[t.id] = v
            return
        if isinstance(t, ast.Tuple) and all(isinstance(x, ast.Name) for x in t.elts):
            if v.kind == "rangepair" and len(t.elts) == 2:
                items = [self.range_ent(v.goal, 0), self.range_ent(v.goal, 1)]
            elif v.kind == "tuple" and len(v.items) == len(t.elts):
                items = v.items
            else:
                raise TE("tuple assignment shape", st)
            for x, it in zip(t.elts, items):
                self.env[x.id] = it
            return
        raise TE("unsupported assignment target", st)

    def try_int_priority(self, st):
        ok = len(st.body) == 1 and isinstance(st.body[0], ast.Expr) and isinstance(st.body[0].value, ast.Call) \
            and is_name(st.body[0].value.func, "int") and len(st.handlers) == 1 \
            and is_name(st.handlers[0].type, "ValueError") and not st.orelse and not st.finalbody
        if ok:
            a = st.body[0].value.args
            ok = len(a) == 1 and isinstance(a[0], ast.Attribute) and a[0].attr == "priority"
        if not ok:
            raise TE("unsupported try statement", st)
        return None

    def branch(self, st):
        test = st.test
        # isinstance(m, ca.MX): numeric ranges only
        if isinstance(test, ast.Call) and is_name(test.func, "isinstance") and len(test.args) == 2 \
                and isinstance(test.args[1], ast.Attribute) and is_name(test.args[1].value, "ca") \
                and test.args[1].attr == "MX":
            if contains_raise(st.body) or st.orelse:
                raise TE("MX normalisation branch raises")
            return None
        cond = self.b(test)
        a, c = self.fork(), self.fork()
        ta = a.block(st.body)
        tc = c.block(st.orelse) if st.orelse else None
        if ta is None and tc is None:
            return None
        return "(if %s then %s else %s)" % (cond, ta or "none", tc or "none")


def _strip_doc(body):
    return [s for s in body if not (isinstance(s, ast.Expr) and isinstance(s.value, ast.Constant))]


def translate_validate():
    """-> dict(loop1=term, mono=term, loop3=term, order=[...]) ; raises TranslationError"""
    fn = _find_method(ast.parse(open(os.path.join(REPO, BASE)).read()), "_GoalProgrammingMixinBase", "_gp_validate_goals")
    if [a.arg for a in fn.args.args] != ["self", "goals", "is_path_goal"]:
        raise TE("unexpected signature of _gp_validate_goals")
    body = _strip_doc(fn.body)
    out = {}
    parts = []  # the top-level checks in source order
    sorted_seen = False
    nsteps_known = False
    base_env = {"is_path_goal": V("bool", lean="isPath")}
    n_loops = 0
    for st in body:
        # goals = sorted(goals, key=lambda x: x.priority)
        if isinstance(st, ast.Assign) and is_name(st.targets[0], "goals"):
            v = st.value
            ok = isinstance(v, ast.Call) and is_name(v.func, "sorted") and len(v.args) == 1 and is_name(v.args[0], "goals") \
                and len(v.keywords) == 1 and v.keywords[0].arg == "key" and isinstance(v.keywords[0].value, ast.Lambda)
            if ok:
                lam = v.keywords[0].value
                ok = len(lam.args.args) == 1 and isinstance(lam.body, ast.Attribute) and lam.body.attr == "priority" \
                    and is_name(lam.body.value, lam.args.args[0].arg)
            if not ok or parts:
                raise TE("goals are not sorted by priority before the checks", st)
            sorted_seen = True
            continue
        if isinstance(st, ast.Assign) and is_name(st.targets[0], "options"):
            if not is_self_call(st.value, "goal_programming_options"):
                raise TE("unexpected options", st)
            continue
        if isinstance(st, ast.For):
            if not sorted_seen:
                raise TE("loop over unsorted goals")
            if not (is_name(st.target, "goal") and is_name(st.iter, "goals") and not st.orelse):
                raise TE("unexpected loop", st)
            n_loops += 1
            env = dict(base_env)
            env["goal"] = V("goal", lean="g")
            if nsteps_known:
                env["target_shape"] = V("nsteps")
            it = Validate(env)
            term = it.block(st.body) or "none"
            name = "loop1" if not nsteps_known else "loop3"
            if name in out:
                raise TE("more loops over the goals than expected")
            out[name] = term
            out[name + "_atoms"] = list(it.atoms)
            parts.append(name)
            continue
        if isinstance(st, ast.If) and is_name(st.test, "is_path_goal"):
            ok = len(st.body) == 1 and len(st.orelse) == 1 and all(
                isinstance(s, ast.Assign) and is_name(s.targets[0], "target_shape") for s in (st.body[0], st.orelse[0]))
            ok = ok and is_len_times(st.body[0].value) and isinstance(st.orelse[0].value, ast.Constant) \
                and st.orelse[0].value.value is None
            if not ok:
                raise TE("target_shape is not len(times()) / None", st)
            nsteps_known = True
            continue
        if isinstance(st, ast.If) and is_option(st.test, "check_monotonicity"):
            if not nsteps_known or st.orelse or "mono" in out:
                raise TE("unexpected monotonicity block")
            out["mono"], out["mono_atoms"] = _translate_mono(st.body, base_env)
            parts.append("mono")
            continue
        raise TE("unsupported top-level statement", st)
    if {k for k in out if not k.endswith("_atoms")} != {"loop1", "mono", "loop3"}:
        raise TE("validation structure: expected two loops and the monotonicity block, got %s" % sorted(out))
    out["order"] = parts
    return out


def _translate_mono(stmts, base_env):
    try:
        (outer,) = stmts
        assert isinstance(outer, ast.For) and is_name(outer.target, "e")
        it = outer.iter
        assert isinstance(it, ast.Call) and is_name(it.func, "range") and len(it.args) == 1
        assert isinstance(it.args[0], ast.Attribute) and is_name(it.args[0].value, "self") and it.args[0].attr == "ensemble_size"
        init, inner = _strip_doc(outer.body)
        assert isinstance(init, ast.Assign) and is_name(init.targets[0], "fk_goal_map") and isinstance(init.value, ast.Dict) \
            and not init.value.keys
        assert isinstance(inner, ast.For) and is_name(inner.target, "goal") and is_name(inner.iter, "goals")
        fk_st, prev_st, put_st, if_st = _strip_doc(inner.body)
        # fk = goal.get_function_key(self, e)
        assert isinstance(fk_st, ast.Assign) and is_name(fk_st.targets[0], "fk")
        c = fk_st.value
        assert isinstance(c, ast.Call) and isinstance(c.func, ast.Attribute) and c.func.attr == "get_function_key" \
            and is_name(c.func.value, "goal")
        # prev = fk_goal_map.get(fk)
        assert isinstance(prev_st, ast.Assign) and is_name(prev_st.targets[0], "prev")
        c = prev_st.value
        assert isinstance(c, ast.Call) and isinstance(c.func, ast.Attribute) and c.func.attr == "get" \
            and is_name(c.func.value, "fk_goal_map") and len(c.args) == 1 and is_name(c.args[0], "fk")
        # fk_goal_map[fk] = goal
        assert isinstance(put_st, ast.Assign) and isinstance(put_st.targets[0], ast.Subscript) \
            and is_name(put_st.targets[0].value, "fk_goal_map") and is_name(put_st.targets[0].slice, "fk") \
            and is_name(put_st.value, "goal")
        # if prev is not None:
        assert isinstance(if_st, ast.If) and not if_st.orelse
        t = if_st.test
        assert isinstance(t, ast.Compare) and is_name(t.left, "prev") and isinstance(t.ops[0], ast.IsNot) \
            and isinstance(t.comparators[0], ast.Constant) and t.comparators[0].value is None
    except (AssertionError, ValueError):
        raise TE("monotonicity block: unexpected shape (function-key walk)")
    env = dict(base_env)
    env.update(goal=V("goal", lean="g"), prev=V("goal", lean="prev"), target_shape=V("nsteps"))
    it = Validate(env)
    term = it.block(if_st.body) or "none"
    return term, list(it.atoms)


# =================================================================================================
# (3) soft-constraint construction inside _gp_goal_constraints


class Soft(Interp):
    """the per-goal part of `_gp_goal_constraints` that builds constants, slice indices and soft rows"""

    def three_way(self, st, side):
        """if isinstance(t, Timeseries): A elif isinstance(t, np.ndarray): B else: C  ->  per target kind
        (const cell term, keep term)"""
        res = {}
        kinds = []
        cur = st
        while True:
            if not isinstance(cur, ast.If):
                raise TE("target kind chain", cur)
            v = self.ev(cur.test)
            tgt, kind = getattr(v, "isinst", (None, None))
            if tgt is None or tgt.side != side or tgt.goal != "g":
                raise TE("target kind test on an unexpected object", cur.test)
            kinds.append((kind, cur.body))
            if len(cur.orelse) == 1 and isinstance(cur.orelse[0], ast.If):
                cur = cur.orelse[0]
                continue
            kinds.append(("scalar", cur.orelse))
            break
        if [k for k, _ in kinds] != ["series", "vector", "scalar"]:
            raise TE("target kinds: expected Timeseries / ndarray / else, got %s" % [k for k, _ in kinds])
        return kinds

    def run_kind(self, kind, stmts, names):
        """straight-line block for one target kind; returns (const cell term, keep comp term)"""
        sub = self.fork()
        sub.kind = kind
        for s in stmts:
            sub.simple(s)
        const = sub.env.get(names["const"])
        keep = sub.env.get(names["keep"])
        if const is None or keep is None:
            raise TE("constant / slice indices not defined for a %s target" % kind)
        if const.kind == "ts":
            const = V("cell", lean=const.lean)
        if const.kind == "target":
            const = V("cell", lean="(%s.%sAt c i)" % (const.goal, "m" if const.side == "tmin" else "M"))
        if kind == "vector" and keep.kind == "cmask":
            keep = V("compmask", lean=keep.lean, goal="g")
        if const.kind != "cell" or keep.kind != "compmask":
            raise TE("unexpected constant / slice indices for a %s target" % kind)
        lean = const.lean
        klean = keep.lean
        if kind == "vector":
            # per-component arrays: the step index does not exist
            lean = lean.replace(" c i)", " c 0)")
            klean = klean.replace(" c i)", " c 0)")
        return lean, klean

    def simple(self, st):
        if isinstance(st, ast.Assign) and len(st.targets) == 1:
            t = st.targets[0]
            if isinstance(t, ast.Name):
                self.env[t.id] = self.ev(st.value)
                return
            if isinstance(t, ast.Subscript):
                # x[inds] = v  /  x.values[inds] = v
                holder = t.value
                ix = self.ev(t.slice)
                val = self.ev(st.value)
                if ix.kind != "cmask" or val.kind != "floatmax":
                    raise TE("unsupported masked store", st)
                vlean = "(XVal.fin (-floatMax))" if val.neg else "(XVal.fin floatMax)"
                if isinstance(holder, ast.Name):
                    cur = self.ev(holder)
                    if cur.kind != "cell":
                        raise TE("masked store into a non-array", st)
                    self.env[holder.id] = V("cell", lean="(if %s then %s else %s)" % (ix.lean, vlean, cur.lean))
                    return
                if isinstance(holder, ast.Attribute) and holder.attr == "values" and isinstance(holder.value, ast.Name):
                    cur = self.ev(holder.value)
                    if cur.kind != "ts":
                        raise TE("masked store into a non-Timeseries", st)
                    self.env[holder.value.id] = V("ts", lean="(if %s then %s else %s)" % (ix.lean, vlean, cur.lean))
                    return
        raise TE("unsupported statement in a target-kind branch", st)


def _find_stmt(stmts, pred, what):
    hits = [s for s in stmts if pred(s)]
    if len(hits) != 1:
        raise TE("%s: expected exactly one statement, found %d" % (what, len(hits)))
    return hits[0]


def translate_soft():
    """-> dict of Lean terms for the soft-constraint construction"""
    tree = ast.parse(open(os.path.join(REPO, BASE)).read())
    fn = _find_method(tree, "_GoalProgrammingMixinBase", "_gp_goal_constraints")
    if [a.arg for a in fn.args.args] != ["self", "goals", "sym_index", "options", "is_path_goal"]:
        raise TE("unexpected signature of _gp_goal_constraints")
    body = _strip_doc(fn.body)
    loop = _find_stmt(body, lambda s: isinstance(s, ast.For), "goal loop")
    ok = isinstance(loop.target, ast.Tuple) and len(loop.target.elts) == 2 and is_name(loop.target.elts[1], "goal") \
        and isinstance(loop.iter, ast.Call) and is_name(loop.iter.func, "enumerate") and is_name(loop.iter.args[0], "goals")
    if not ok:
        raise TE("unexpected goal loop", loop)
    lb = loop.body
    out = {}
    env = {"goal": V("goal", lean="g"), "is_path_goal": V("bool", lean="isPath")}

    # ---- epsilon symbol: elif goal.has_target_bounds: epsilon = ca.MX.sym(eps_format.format(sym_index, j), goal.size)
    first = lb[0]
    try:
        assert isinstance(first, ast.If) and Interp(env).b(first.test) == "g.critical"
        (el,) = first.orelse
        assert isinstance(el, ast.If) and Interp(env).b(el.test) == "g.hasTargetBounds" and not el.orelse
        sym_st, app_st = el.body
        c = sym_st.value
        assert is_name(sym_st.targets[0], "epsilon") and isinstance(c, ast.Call) and isinstance(c.func, ast.Attribute) \
            and c.func.attr == "sym" and len(c.args) == 2
        size = Interp(env).ev(c.args[1])
        assert size.kind == "nat"
        assert isinstance(app_st, ast.Expr) and isinstance(app_st.value, ast.Call) and app_st.value.func.attr == "append" \
            and is_name(app_st.value.func.value, "epsilons") and is_name(app_st.value.args[0], "epsilon")
    except (AssertionError, ValueError, AttributeError, IndexError):
        raise TE("epsilon symbol creation: unexpected shape")
    out["epsSize"] = size.lean

    # ---- constants and slice indices per side
    for side, flag, var, cname, kname, fmt in (("tmin", "g.hasMin", "min_variable", "target_min", "target_min_slice_inds", "min_format"),
                                               ("tmax", "g.hasMax", "max_variable", "target_max", "target_max_slice_inds", "max_format")):
        def is_side_if(s):
            try:
                return isinstance(s, ast.If) and Interp(env).b(s.test) == flag and any(
                    isinstance(x, ast.Assign) and is_name(x.targets[0], var) for x in s.body)
            except TranslationError:
                return False
        st = _find_stmt(lb, is_side_if, "constant block of " + cname)
        sub = Soft(env)
        kinds = None
        registered = None
        for s in st.body:
            if isinstance(s, ast.Expr) and isinstance(s.value, ast.Constant):
                continue
            if isinstance(s, ast.Assign) and is_name(s.targets[0], var):
                c = s.value
                if not (isinstance(c, ast.Call) and isinstance(c.func, ast.Attribute) and c.func.attr == "format"
                        and is_name(c.func.value, fmt)):
                    raise TE("unexpected name of the target constant", s)
                continue
            if isinstance(s, ast.Assign) and is_name(s.targets[0], kname):
                sub.simple(s)
                continue
            if isinstance(s, ast.If):
                if kinds is not None:
                    raise TE("two target kind chains")
                kinds = sub.three_way(s, side)
                continue
            if isinstance(s, ast.Expr) and isinstance(s.value, ast.Call) and isinstance(s.value.func, ast.Attribute) \
                    and s.value.func.attr == "append" and is_name(s.value.func.value, "extra_constants"):
                a = s.value.args
                if not (len(a) == 1 and isinstance(a[0], ast.Tuple) and len(a[0].elts) == 2 and is_name(a[0].elts[0], var)
                        and is_name(a[0].elts[1], cname)):
                    raise TE("unexpected registration of the target constant", s)
                registered = True
                continue
            raise TE("unsupported statement in the constant block", s)
        if kinds is None or not registered:
            raise TE("constant block of %s: kind chain / registration missing" % cname)
        if not (len(st.orelse) == 1 and isinstance(st.orelse[0], ast.Assign) and is_name(st.orelse[0].targets[0], var)
                and isinstance(st.orelse[0].value, ast.Constant) and st.orelse[0].value.value is None):
            raise TE("else branch of the constant block")
        res = {}
        for kind, stmts in kinds:
            res[kind] = sub.run_kind(kind, stmts, dict(const=cname, keep=kname))
        out[side] = res

    # ---- n_active of target goals
    out["nActive"] = _translate_n_active(lb, env)

    # ---- the soft constraint rows
    def is_rows_if(s):
        try:
            return isinstance(s, ast.If) and Interp(env).b(s.test) == "g.hasTargetBounds" and any(
                isinstance(x, ast.If) for x in s.body)
        except TranslationError:
            return False
    rows_if = _find_stmt(lb, is_rows_if, "constraint block")
    (crit_if,) = rows_if.body
    if Interp(env).b(crit_if.test) != "g.critical" or len(crit_if.orelse) != 1:
        raise TE("constraint block: expected if goal.critical / else")
    mloop = crit_if.orelse[0]
    if not (isinstance(mloop, ast.For) and is_name(mloop.target, "ensemble_member")):
        raise TE("soft constraints: member loop", mloop)
    mb = _strip_doc(mloop.body)
    fdef = _find_stmt(mb, lambda s: isinstance(s, ast.FunctionDef), "_soft_constraint_func")
    out["softExpr"] = _translate_soft_func(fdef)
    sides = []
    for s in mb:
        if s is fdef:
            continue
        if not isinstance(s, ast.If):
            raise TE("unsupported statement in the member loop", s)
        sides.append(_translate_side(s, fdef.name))
    out["sides"] = sides
    return out


def _translate_n_active(lb, env):
    def has_n_active(s):
        return isinstance(s, ast.If) and any(isinstance(x, ast.Assign) and is_name(x.targets[0], "n_active")
                                             for x in ast.walk(s) if isinstance(x, ast.Assign))
    obj_if = _find_stmt(lb, has_n_active, "objective block")
    # if not goal.critical: if hasattr(...): ... elif goal.has_target_bounds: <if is_path and scale: ... else: n_active = 1>
    cur = obj_if.body[0] if Interp(env).b(obj_if.test) == "(!g.critical)" else None
    if not isinstance(cur, ast.If):
        raise TE("objective block: unexpected shape")
    try:
        (el,) = cur.orelse
        assert isinstance(el, ast.If) and Interp(env).b(el.test) == "g.hasTargetBounds"
        na_if = el.body[0]
        assert isinstance(na_if, ast.If)
    except (AssertionError, ValueError):
        raise TE("objective block: n_active branch not found")
    it = Soft(env)
    cond = it.b(na_if.test)
    a = it.fork()
    for s in na_if.body:
        a.n_active_stmt(s)
    (e,) = na_if.orelse
    if not (isinstance(e, ast.Assign) and is_name(e.targets[0], "n_active") and isinstance(e.value, ast.Constant)):
        raise TE("n_active: else branch")
    v = a.env.get("n_active")
    if v is None or v.kind != "natc":
        raise TE("n_active: not a count")
    return "(if %s then %s else %s)" % (cond, v.lean, num(e.value.value))


def _n_active_stmt(self, st):
    if isinstance(st, ast.Expr) and isinstance(st.value, ast.Constant):
        return
    if not (isinstance(st, ast.Assign) and len(st.targets) == 1):
        raise TE("n_active: unsupported statement", st)
    t = st.targets[0]
    if isinstance(t, ast.Tuple):
        v = self.ev(st.value)
        if v.kind != "tuple" or len(v.items) != len(t.elts):
            raise TE("n_active: tuple assignment", st)
        for x, itv in zip(t.elts, v.items):
            self.env[x.id] = itv
        return
    val = st.value
    # np.sum(goal_active.astype(int), axis=-1)
    if isinstance(val, ast.Call) and is_np(val.func, "sum"):
        a = val.args[0]
        kws = {k.arg: k.value for k in val.keywords}
        ok = isinstance(a, ast.Call) and isinstance(a.func, ast.Attribute) and a.func.attr == "astype" \
            and set(kws) == {"axis"} and isinstance(kws["axis"], ast.UnaryOp) and isinstance(kws["axis"].operand, ast.Constant) \
            and kws["axis"].operand.value == 1
        if not ok:
            raise TE("n_active: unsupported sum", st)
        m = self.ev(a.func.value)
        if m.kind != "cmask":
            raise TE("n_active: sum of a non-mask", st)
        self.env[t.id] = V("natc", lean="((List.range n).filter (fun i => %s)).length" % m.lean)
        return
    if isinstance(val, ast.Call) and is_np(val.func, "maximum") and len(val.args) == 2:
        a, c = self.ev(val.args[0]), self.ev(val.args[1])
        if a.kind == "natc" and c.kind == "num":
            self.env[t.id] = V("natc", lean="(max (%s) %s)" % (a.lean, num(c.value)))
            return
        raise TE("n_active: unsupported maximum", st)
    self.env[t.id] = self.ev(val)


Soft.n_active_stmt = _n_active_stmt


def _translate_soft_func(fdef):
    """`_soft_constraint_func`: the returned expression over (target, f, eps, bound, nom)"""
    params = [a.arg for a in fdef.args.args]
    if params[:4] != ["problem", "target", "bound", "inds"]:
        raise TE("_soft_constraint_func: unexpected parameters %r" % params)
    defaults = dict(zip(params[-len(fdef.args.defaults):], fdef.args.defaults))
    for k, want in (("goal", "goal"), ("epsilon", "epsilon"), ("ensemble_member", "ensemble_member"),
                    ("is_path_constraint", "is_path_goal")):
        if not (k in defaults and is_name(defaults[k], want)):
            raise TE("_soft_constraint_func: default of %s" % k)
    env = {}  # name -> one of the atoms 'target' 'eps' 'f' 'nom' 'bound'
    env["bound"] = "bound"
    ret = None
    for st in _strip_doc(fdef.body):
        if isinstance(st, ast.If) and is_name(st.test, "is_path_constraint"):
            def read(stmts, path):
                r = {}
                for s in stmts:
                    if not (isinstance(s, ast.Assign) and isinstance(s.targets[0], ast.Name)):
                        raise TE("_soft_constraint_func: unsupported statement", s)
                    r[s.targets[0].id] = _symbol_read(s.value, path)
                return r
            a, c = read(st.body, True), read(st.orelse, False)
            if a != c:
                raise TE("_soft_constraint_func: path and point branches read different symbols")
            env.update(a)
            continue
        if isinstance(st, ast.Assign) and is_name(st.targets[0], "inds"):
            continue  # inds = inds.nonzero()[0].astype(int).tolist(): the kept components as an index list
        if isinstance(st, ast.Assign) and isinstance(st.targets[0], ast.Name):
            v = st.value
            if isinstance(v, ast.Call) and isinstance(v.func, ast.Attribute) and is_name(v.func.value, "goal") \
                    and v.func.attr == "function" and [getattr(x, "id", None) for x in v.args] == ["problem", "ensemble_member"]:
                env[st.targets[0].id] = "f"
                continue
            if isinstance(v, ast.Attribute) and is_name(v.value, "goal") and v.attr == "function_nominal":
                env[st.targets[0].id] = "nom"
                continue
            raise TE("_soft_constraint_func: unsupported assignment", st)
        if isinstance(st, ast.Return):
            ret = st.value
            continue
        raise TE("_soft_constraint_func: unsupported statement", st)
    if ret is None:
        raise TE("_soft_constraint_func: no return")
    if not (isinstance(ret, ast.Subscript) and is_name(ret.slice, "inds")):
        raise TE("_soft_constraint_func: the result is not restricted to the kept components")
    call = ret.value
    if not (isinstance(call, ast.Call) and isinstance(call.func, ast.Attribute) and is_name(call.func.value, "ca")
            and call.func.attr == "if_else" and len(call.args) == 3):
        raise TE("_soft_constraint_func: expected ca.if_else")
    cond, a, b = call.args
    ok = isinstance(cond, ast.Compare) and len(cond.ops) == 1 and isinstance(cond.ops[0], ast.Lt) \
        and isinstance(cond.left, ast.Call) and isinstance(cond.left.func, ast.Attribute) and cond.left.func.attr == "fabs" \
        and len(cond.left.args) == 1 and isinstance(cond.left.args[0], ast.Name) and env.get(cond.left.args[0].id) == "target"
    if not ok:
        raise TE("_soft_constraint_func: condition is not fabs(target) < c")
    thr = _rat_expr(cond.comparators[0], env)
    return "ifAbsLt target %s (fun t => %s) %s" % (thr, _rat_expr(a, env), _rat_expr(b, env))


def _symbol_read(node, path):
    """problem.variable(target) / problem.parameters(ensemble_member)[target] -> 'target';
    problem.variable(epsilon.name()) / problem.extra_variable(epsilon.name(), ensemble_member) -> 'eps'"""
    def eps_name(n):
        return isinstance(n, ast.Call) and isinstance(n.func, ast.Attribute) and n.func.attr == "name" \
            and is_name(n.func.value, "epsilon")
    if path:
        if isinstance(node, ast.Call) and isinstance(node.func, ast.Attribute) and is_name(node.func.value, "problem") \
                and node.func.attr == "variable" and len(node.args) == 1:
            if is_name(node.args[0], "target"):
                return "target"
            if eps_name(node.args[0]):
                return "eps"
    else:
        if isinstance(node, ast.Subscript) and is_name(node.slice, "target") and isinstance(node.value, ast.Call) \
                and isinstance(node.value.func, ast.Attribute) and node.value.func.attr == "parameters" \
                and is_name(node.value.func.value, "problem") and len(node.value.args) == 1 \
                and is_name(node.value.args[0], "ensemble_member"):
            return "target"
        if isinstance(node, ast.Call) and isinstance(node.func, ast.Attribute) and is_name(node.func.value, "problem") \
                and node.func.attr == "extra_variable" and len(node.args) == 2 and eps_name(node.args[0]) \
                and is_name(node.args[1], "ensemble_member"):
            return "eps"
    raise TE("_soft_constraint_func: unsupported symbol read", node)


def _rat_expr(node, env):
    if isinstance(node, ast.Name):
        a = env.get(node.id)
        if a == "target":
            return "t"
        if a in ("eps", "f", "nom", "bound"):
            return a
        raise TE("_soft_constraint_func: unknown name " + node.id)
    if isinstance(node, ast.Constant) and isinstance(node.value, (int, float)):
        return num(node.value)
    if isinstance(node, ast.Attribute) and isinstance(node.value, ast.Attribute) and is_name(node.value.value, "sys") \
            and node.value.attr == "float_info" and node.attr == "max":
        return "floatMax"
    if isinstance(node, ast.UnaryOp) and isinstance(node.op, ast.USub):
        return "(-%s)" % _rat_expr(node.operand, env)
    if isinstance(node, ast.BinOp):
        op = {ast.Add: "+", ast.Sub: "-", ast.Mult: "*", ast.Div: "/"}.get(type(node.op))
        if op is None:
            raise TE("_soft_constraint_func: unsupported operator", node)
        return "(%s %s %s)" % (_rat_expr(node.left, env), op, _rat_expr(node.right, env))
    raise TE("_soft_constraint_func: unsupported expression", node)


def _translate_side(st, fname):
    """if goal.has_target_X and np.any(X_slice_inds): _f = partial(...); constraint = _GoalConstraint(...); append
    -> dict(flag, keep, target, bound, lb, ub)"""
    t = st.test
    if not (isinstance(t, ast.BoolOp) and isinstance(t.op, ast.And) and len(t.values) == 2) or st.orelse:
        raise TE("soft row guard", st)
    flag_n, any_n = t.values
    if not (isinstance(flag_n, ast.Attribute) and is_name(flag_n.value, "goal") and flag_n.attr in ("has_target_min", "has_target_max")):
        raise TE("soft row guard: flag", st)
    if not (isinstance(any_n, ast.Call) and is_np(any_n.func, "any") and len(any_n.args) == 1 and isinstance(any_n.args[0], ast.Name)):
        raise TE("soft row guard: np.any(slice inds)", st)
    guard_inds = any_n.args[0].id
    try:
        f_st, c_st, a_st = st.body
        p = f_st.value
        assert is_name(f_st.targets[0], "_f") and isinstance(p, ast.Call) and isinstance(p.func, ast.Attribute) \
            and is_name(p.func.value, "functools") and p.func.attr == "partial" and len(p.args) == 1 and is_name(p.args[0], fname)
        kws = {k.arg: k.value for k in p.keywords}
        assert set(kws) == {"target", "bound", "inds"}
        assert isinstance(kws["target"], ast.Name) and isinstance(kws["inds"], ast.Name)
        b = kws["bound"]
        assert isinstance(b, ast.Subscript) and isinstance(b.value, ast.Attribute) and is_name(b.value.value, "goal") \
            and b.value.attr == "function_range" and isinstance(b.slice, ast.Constant) and b.slice.value in (0, 1)
        gc = c_st.value
        assert is_name(c_st.targets[0], "constraint") and isinstance(gc, ast.Call) and is_name(gc.func, "_GoalConstraint") \
            and len(gc.args) == 5 and is_name(gc.args[0], "goal") and is_name(gc.args[1], "_f") \
            and isinstance(gc.args[4], ast.Constant) and gc.args[4].value is False
        ap = a_st.value
        assert isinstance(ap, ast.Call) and ap.func.attr == "append" and is_name(ap.args[0], "constraint")
        tgt = ap.func.value
        assert isinstance(tgt, ast.Subscript) and is_name(tgt.value, "soft_constraints") and is_name(tgt.slice, "ensemble_member")
    except (AssertionError, ValueError, AttributeError, IndexError):
        raise TE("soft row construction: unexpected shape", st)

    def ebound(n):
        if isinstance(n, ast.Constant) and isinstance(n.value, (int, float)):
            return "(EVal.fin %s)" % num(n.value)
        if is_np(n, "inf"):
            return "EVal.pinf"
        if isinstance(n, ast.UnaryOp) and isinstance(n.op, ast.USub) and is_np(n.operand, "inf"):
            return "EVal.ninf"
        raise TE("soft row bound", n)
    return dict(flag=flag_n.attr, guard_inds=guard_inds, target=kws["target"].id, inds=kws["inds"].id,
                bound=b.slice.value, lb=ebound(gc.args[2]), ub=ebound(gc.args[3]))


def translate_eps_bounds(path, cls):
    """`bounds()` of a goal-programming mixin: every epsilon of the lists that `extra_variables` and
    `path_variables` expose gets (0.0, 1.0)"""
    fn = _find_method(ast.parse(open(os.path.join(REPO, path)).read()), cls, "bounds")
    body = _strip_doc(fn.body)
    try:
        first, loop, ret = body
        assert is_name(first.targets[0], "bounds") and is_name(ret.value, "bounds") and isinstance(loop, ast.For)
        names = set()
        for n in ast.walk(loop.iter):
            if isinstance(n, ast.Attribute) and is_name(n.value, "self"):
                names.add(n.attr.split("__")[-1])
        want = set()
        for prop in ("extra_variables", "path_variables"):
            pf = _find_method(ast.parse(open(os.path.join(REPO, path)).read()), cls, prop)
            (r,) = _strip_doc(pf.body)
            assert isinstance(r, ast.Return)
            for n in ast.walk(r.value):
                assert isinstance(n, (ast.BinOp, ast.Add, ast.Attribute, ast.Name, ast.Load)), n
                if isinstance(n, ast.Attribute) and is_name(n.value, "self"):
                    want.add(n.attr.split("__")[-1])
        assert names == want and names, (names, want)
        for n in ast.walk(loop.iter):
            assert isinstance(n, (ast.BinOp, ast.Add, ast.Attribute, ast.Name, ast.Load)), n
        (asg,) = loop.body
        t = asg.targets[0]
        assert isinstance(t, ast.Subscript) and is_name(t.value, "bounds") and isinstance(t.slice, ast.Call) \
            and t.slice.func.attr == "name" and is_name(t.slice.func.value, loop.target.id)
        v = asg.value
        assert isinstance(v, ast.Tuple) and len(v.elts) == 2 and all(isinstance(x, ast.Constant) for x in v.elts)
    except (AssertionError, ValueError, AttributeError, IndexError) as e:
        raise TE("%s.bounds(): unexpected shape (%s)" % (cls, e))
    return "(%s, %s)" % (num(v.elts[0].value), num(v.elts[1].value))


# =================================================================================================
# (2) _gp_min_max_arrays: concrete execution per (target kind, target_shape given?, size > 1) with NumPy
#     shapes tracked symbolically


class Arr:
    """a NumPy array: shape (tuple of dims: 1, 'T' = target_shape = len(times()), 'S' = goal.size,
    'L' = length of an ndarray target, 'K' = number of columns of 2-D Timeseries values) and the element
    as a function of index terms"""

    def __init__(self, shape, elem):
        self.shape, self.elem = tuple(shape), elem

    @property
    def ndim(self):
        return len(self.shape)


class AssertFails(Exception):
    pass


def _dim_eq(a, b, hyps):
    """are two symbolic dims equal?  'L' = 'S' and 'K' = 'S' are recorded as hypotheses on the goal"""
    if a == b:
        return True
    pair = {a, b}
    if pair == {"L", "S"} or pair == {"K", "S"}:
        hyps.add("len(ndarray target) = goal.size" if "L" in pair else "columns of the Timeseries values = goal.size")
        return True
    return False


class MinMax:
    def __init__(self, kinds, path, gt1):
        self.kinds = kinds  # {'tmin': kind, 'tmax': kind}
        self.path, self.gt1 = path, gt1
        self.env = {}
        self.hyps = set()
        self.ret = None
        self.fills = {}

    def S(self):
        return "S" if self.gt1 else 1

    # ---- values: Arr | ('target', side) | ('int', dim) | ('bool', b) | ('none',) | ('x', lean XVal) | opaque
    def ev(self, node):
        if isinstance(node, ast.Name):
            if node.id == "target_shape":
                return ("int", "T") if self.path else ("none",)
            if node.id in self.env:
                return self.env[node.id]
            raise TE("_gp_min_max_arrays: unknown name " + node.id)
        if isinstance(node, ast.Constant):
            if node.value is None:
                return ("none",)
            if isinstance(node.value, int):
                return ("int", node.value)
            raise TE("_gp_min_max_arrays: constant", node)
        if is_np(node, "inf"):
            return ("x", "XVal.pinf")
        if isinstance(node, ast.UnaryOp) and isinstance(node.op, ast.USub) and is_np(node.operand, "inf"):
            return ("x", "XVal.ninf")
        if isinstance(node, ast.Attribute):
            if is_name(node.value, "g") and node.attr in ("target_min", "target_max"):
                return ("target", "tmin" if node.attr == "target_min" else "tmax")
            if is_name(node.value, "g") and node.attr == "size":
                return ("int", self.S())
            v = self.ev(node.value)
            if isinstance(v, Arr) and node.attr == "ndim":
                return ("int", v.ndim)
            if isinstance(v, Arr) and node.attr == "shape":
                return ("shape", v.shape)
            if isinstance(v, tuple) and v[0] == "target" and node.attr in ("times", "values"):
                if self.kinds[v[1]] not in ("series1", "series2"):
                    raise TE("_gp_min_max_arrays: .%s of a non-Timeseries target" % node.attr)
                return ("ts" + node.attr, v[1])
            raise TE("_gp_min_max_arrays: attribute", node)
        if isinstance(node, ast.Tuple):
            return ("tuple", [self.ev(x) for x in node.elts])
        if isinstance(node, ast.List):
            return ("list", [self.ev(x) for x in node.elts])
        if isinstance(node, ast.IfExp):
            return self.ev(node.body) if self.truth(node.test) else self.ev(node.orelse)
        if isinstance(node, ast.Call):
            return self.call(node)
        raise TE("_gp_min_max_arrays: expression", node)

    def truth(self, node):
        if isinstance(node, ast.BoolOp):
            vals = [self.truth(x) for x in node.values]
            return all(vals) if isinstance(node.op, ast.And) else any(vals)
        if isinstance(node, ast.UnaryOp) and isinstance(node.op, ast.Not):
            return not self.truth(node.operand)
        if isinstance(node, ast.Call) and is_name(node.func, "isinstance") and len(node.args) == 2:
            v = self.ev(node.args[0])
            if not (isinstance(v, tuple) and v[0] == "target"):
                raise TE("_gp_min_max_arrays: isinstance of a non-target", node)
            k = self.kinds[v[1]]
            if is_name(node.args[1], "Timeseries"):
                return k in ("series1", "series2")
            if is_np(node.args[1], "ndarray"):
                return k == "vector"
            raise TE("_gp_min_max_arrays: isinstance class", node)
        if isinstance(node, ast.Compare) and len(node.ops) == 1:
            a, b = self.ev(node.left), self.ev(node.comparators[0])
            op = node.ops[0]
            if a[0] == "int" and b[0] == "int":
                if isinstance(op, ast.Gt):
                    if a[1] == "S" and b[1] == 1:
                        return True
                    if isinstance(a[1], int) and isinstance(b[1], int):
                        return a[1] > b[1]
                if isinstance(op, ast.Eq) and isinstance(a[1], int) and isinstance(b[1], int):
                    return a[1] == b[1]
                raise TE("_gp_min_max_arrays: comparison of dims", node)
            if isinstance(op, ast.Is) and b == ("none",):
                return a == ("none",)
            if isinstance(op, ast.Eq):
                sa = self.as_shape(a)
                sb = self.as_shape(b)
                return len(sa) == len(sb) and all(_dim_eq(x, y, self.hyps) for x, y in zip(sa, sb))
            raise TE("_gp_min_max_arrays: comparison", node)
        v = self.ev(node)
        if v == ("none",):
            return False
        if v[0] == "int":
            return True  # target_shape = len(times()) >= 1
        raise TE("_gp_min_max_arrays: truth value", node)

    def as_shape(self, v):
        if v[0] == "shape":
            return tuple(v[1])
        if v[0] == "tuple":
            return tuple(x[1] for x in v[1])
        raise TE("_gp_min_max_arrays: not a shape")

    def target_arr(self, side):
        """a scalar / ndarray target as an array value"""
        k = self.kinds[side]
        if k == "scalar":
            return Arr((), lambda ix: "%s.sv" % side)
        if k == "vector":
            a = Arr(("L",), lambda ix: "(%s.vec.getD %s .nan)" % (side, ix[0]))
            a.side = side
            return a
        raise AssertFails("a Timeseries target used as an array")

    def call(self, node):
        f, args = node.func, node.args
        if is_self_call(node, "times") and not args:
            return ("times",)
        if is_self_call(node, "interpolate") and len(args) == 5:
            t, ts, vals, f1, f2 = [self.ev(a) for a in args]
            if t != ("times",) or ts[0] != "tstimes" or vals[0] != "tsvalues" or ts[1] != vals[1]:
                raise TE("_gp_min_max_arrays: interpolate arguments", node)
            self.fills[vals[1]] = (f1[1], f2[1])
            n = "T" if self.path else "N"
            sd = vals[1]
            if self.kinds[sd] == "series1":
                return Arr((n,), lambda ix: "((%s.cols.getD 0 []).getD %s .nan)" % (sd, ix[0]))
            return Arr((n, "K"), lambda ix: "((%s.cols.getD %s []).getD %s .nan)" % (sd, ix[1], ix[0]))
        if is_name(f, "len") and len(args) == 1:
            v = self.ev(args[0])
            if isinstance(v, Arr) and v.ndim >= 1:
                return ("int", v.shape[0])
            raise TE("_gp_min_max_arrays: len", node)
        if isinstance(f, ast.Attribute) and f.attr == "transpose" and not args:
            v = self.ev(f.value)
            if not isinstance(v, Arr):
                raise TE("_gp_min_max_arrays: transpose of a non-array", node)
            e = v.elem
            return Arr(v.shape[::-1], lambda ix, e=e: e(ix[::-1]))
        if is_np(f, "broadcast_to") and len(args) == 2:
            v, sh = self.ev(args[0]), self.as_shape(self.ev(args[1]))
            if isinstance(v, tuple) and v[0] == "target":
                v = self.target_arr(v[1])
            if not isinstance(v, Arr) or v.ndim > len(sh):
                raise TE("_gp_min_max_arrays: broadcast_to", node)
            off = len(sh) - v.ndim
            stretch = []
            for k, d in enumerate(v.shape):
                want = sh[off + k]
                if d == want or d == 1:
                    stretch.append(d == 1 and want != 1)
                elif d == "L" and want in ("S", 1):
                    stretch.append("L")  # an ndarray target of length goal.size or 1: NumPy broadcasting read
                else:
                    raise AssertFails("broadcast_to: shape %r to %r" % (v.shape, sh))
            e = v.elem

            def elem(ix, e=e, off=off, stretch=stretch, side=getattr(v, "side", None)):
                sub = []
                for k, s in enumerate(stretch):
                    sub.append("0" if s is True else ix[off + k])
                if "L" in stretch:
                    return "(getB %s.vec %s .nan)" % (side, sub[stretch.index("L")])
                return e(sub)
            return Arr(sh, elem)
        if is_np(f, "full") and len(args) == 2:
            n, v = self.ev(args[0]), self.ev(args[1])
            if n[0] != "int" or not (isinstance(v, tuple) and v[0] == "target"):
                raise TE("_gp_min_max_arrays: np.full", node)
            if self.kinds[v[1]] != "scalar":
                raise AssertFails("np.full with an array fill value")
            return Arr((n[1],), lambda ix, sd=v[1]: "%s.sv" % sd)
        if is_np(f, "array") and len(args) == 1:
            v = self.ev(args[0])
            if v[0] == "list" and len(v[1]) == 1 and v[1][0][0] == "target":
                a = self.target_arr(v[1][0][1])
                e = a.elem
                return Arr((1,) + a.shape, lambda ix, e=e: e(ix[1:]))
            raise TE("_gp_min_max_arrays: np.array", node)
        raise TE("_gp_min_max_arrays: call", node)

    def run(self, stmts):
        for st in stmts:
            if self.ret is not None:
                raise TE("_gp_min_max_arrays: statement after return")
            if isinstance(st, ast.Expr) and isinstance(st.value, ast.Constant):
                continue
            if isinstance(st, ast.Assign) and len(st.targets) == 1:
                t = st.targets[0]
                if isinstance(t, ast.Name):
                    self.env[t.id] = self.ev(st.value)
                    continue
                if isinstance(t, ast.Tuple) and isinstance(st.value, ast.Tuple) and len(t.elts) == len(st.value.elts):
                    for x, v in zip(t.elts, st.value.elts):
                        self.env[x.id] = self.ev(v)
                    continue
            if isinstance(st, ast.If):
                self.run(st.body if self.truth(st.test) else st.orelse)
                continue
            if isinstance(st, ast.Assert):
                if not self.truth(st.test):
                    raise AssertFails("assert")
                continue
            if isinstance(st, ast.Return):
                v = self.ev(st.value)
                if not (v[0] == "tuple" and len(v[1]) == 2 and all(isinstance(x, Arr) for x in v[1])):
                    raise TE("_gp_min_max_arrays: return value")
                self.ret = v[1]
                continue
            raise TE("_gp_min_max_arrays: statement", st)


KINDS = ("scalar", "vector", "series1", "series2")


def _only_invalid_other(per_side, side, vals):
    """the entries that are None are None because the OTHER side's own array is invalid for this
    (target_shape, size) combination, not because this side's array changed"""
    other = "tmax" if side == "tmin" else "tmin"
    for k_other, v in vals.items():
        if v is None:
            # the other side alone (paired with a scalar on this side) must already be invalid
            if per_side[other][k_other]["scalar"] is not None:
                return False
    return True


def translate_min_max():
    """-> {(side, kind, path, gt1): Lean term or None (the code's shape assertion fails)}, fills, hypotheses"""
    fn = _find_method(ast.parse(open(os.path.join(REPO, BASE)).read()), "_GoalProgrammingMixinBase", "_gp_min_max_arrays")
    if [a.arg for a in fn.args.args] != ["self", "g", "target_shape"]:
        raise TE("unexpected signature of _gp_min_max_arrays")
    d = fn.args.defaults
    if not (len(d) == 1 and isinstance(d[0], ast.Constant) and d[0].value is None):
        raise TE("_gp_min_max_arrays: default of target_shape")
    table, hyps, fills = {}, set(), {}
    for path in (True, False):
        for gt1 in (True, False):
            per_side = {"tmin": {}, "tmax": {}}
            for kmin in KINDS:
                for kmax in KINDS:
                    mm = MinMax({"tmin": kmin, "tmax": kmax}, path, gt1)
                    try:
                        mm.run(fn.body)
                        if mm.ret is None:
                            raise TE("_gp_min_max_arrays: no return")
                        want = (("S",) if gt1 else ()) + (("T",) if path else (1,))
                        res = []
                        for a in mm.ret:
                            if len(a.shape) != len(want) or not all(_dim_eq(x, y, mm.hyps) for x, y in zip(a.shape, want)):
                                raise AssertFails("shape")
                            res.append(a.elem(["c", "i"] if gt1 else ["i"]))
                    except AssertFails:
                        res = None
                    else:
                        hyps |= mm.hyps
                        for s, fl in mm.fills.items():
                            fills.setdefault(s, set()).add(fl)
                    # record per side; a side's result must not depend on the other side's kind
                    per_side["tmin"].setdefault(kmin, {})[kmax] = None if res is None else res[0]
                    per_side["tmax"].setdefault(kmax, {})[kmin] = None if res is None else res[1]
            for side in ("tmin", "tmax"):
                for k in KINDS:
                    vals = per_side[side][k]
                    ok = [v for v in vals.values() if v is not None]
                    # the combination is valid for this side if it is valid together with a scalar other side
                    v = vals["scalar"]
                    if any(x != v for x in vals.values()) and not (v is not None and all(x in (v, None) for x in vals.values())
                                                                   and _only_invalid_other(per_side, side, vals)):
                        table[(side, k, path, gt1)] = dict(vals)  # depends on the kind of the other target
                    else:
                        table[(side, k, path, gt1)] = v
    return table, fills, hyps


# =================================================================================================
# critical goals inside _gp_goal_constraints: which member's constraint goes where, with which epsilon


def translate_crit_calls():
    """-> Lean term of type List (Nat × Nat × Rat × Nat × Bool): per member (slot in `hard_constraints`, member handed
    to `_gp_goal_hard_constraint`, epsilon entry, epsilon length, existing constraint is None)"""
    tree = ast.parse(open(os.path.join(REPO, BASE)).read())
    fn = _find_method(tree, "_GoalProgrammingMixinBase", "_gp_goal_constraints")
    loop = _find_stmt(_strip_doc(fn.body), lambda s: isinstance(s, ast.For), "goal loop")
    lb = loop.body
    env = {"goal": V("goal", lean="g"), "is_path_goal": V("bool", lean="isPath")}
    first = lb[0]
    try:
        assert isinstance(first, ast.If) and Interp(env).b(first.test) == "g.critical"
        body = [s for s in first.body if not isinstance(s, ast.Assert)]
        (eps_st,) = body
        assert is_name(eps_st.targets[0], "epsilon")
        z = eps_st.value
        assert isinstance(z, ast.Call) and is_np(z.func, "zeros") and len(z.args) == 1
        a = z.args[0]
        assert isinstance(a, ast.IfExp) and is_name(a.test, "is_path_goal") and is_len_times(a.body) \
            and isinstance(a.orelse, ast.Constant) and isinstance(a.orelse.value, int)
        eps_len = "(if isPath then nTimes else %d)" % a.orelse.value
    except (AssertionError, ValueError, AttributeError, IndexError):
        raise TE("critical goals: epsilon is not np.zeros(len(times()) if is_path_goal else 1)")

    def is_rows_if(s):
        try:
            return isinstance(s, ast.If) and Interp(env).b(s.test) == "g.hasTargetBounds" and any(
                isinstance(x, ast.If) for x in s.body)
        except TranslationError:
            return False
    rows_if = _find_stmt(lb, is_rows_if, "constraint block")
    (crit_if,) = rows_if.body
    if Interp(env).b(crit_if.test) != "g.critical":
        raise TE("constraint block: expected if goal.critical")
    try:
        (mloop,) = crit_if.body
        assert isinstance(mloop, ast.For) and isinstance(mloop.target, ast.Name) and not mloop.orelse
        mv = mloop.target.id
        it = mloop.iter
        assert isinstance(it, ast.Call) and is_name(it.func, "range") and len(it.args) == 1 \
            and isinstance(it.args[0], ast.Attribute) and is_name(it.args[0].value, "self") and it.args[0].attr == "ensemble_size"
        c_st, a_st = _strip_doc(mloop.body)
        call = c_st.value
        assert is_name(c_st.targets[0], "constraint") and is_self_call(call, "_gp_goal_hard_constraint") and len(call.args) == 6 \
            and not call.keywords
        g_, e_, ex_, m_, o_, p_ = call.args
        assert is_name(g_, "goal") and is_name(e_, "epsilon") and is_name(o_, "options") and is_name(p_, "is_path_goal")
        ap = a_st.value
        assert isinstance(ap, ast.Call) and ap.func.attr == "append" and is_name(ap.args[0], "constraint")
        slot = ap.func.value
        assert isinstance(slot, ast.Subscript) and is_name(slot.value, "hard_constraints")
    except (AssertionError, ValueError, AttributeError, IndexError):
        raise TE("critical goals: unexpected shape of the member loop")

    def member(n):
        if is_name(n, mv):
            return "m"
        if isinstance(n, ast.Constant) and isinstance(n.value, int) and not isinstance(n.value, bool):
            return str(n.value)
        raise TE("critical goals: member index", n)
    existing_none = "true" if (isinstance(ex_, ast.Constant) and ex_.value is None) else "false"
    return "(List.range E).map fun m => (%s, %s, (0 : Rat), %s, %s)" % (member(slot.slice), member(m_), eps_len, existing_none)


# =================================================================================================
# Goal.has_target_min / has_target_max / has_target_bounds / is_empty


class Props:
    """property bodies of `Goal`: Booleans over `self.target_min` / `self.target_max`
         isinstance(t, Timeseries)      t.isSeries
         np.any(np.isfinite(t))         t.anyFinite   (float: finite; ndarray: some entry finite; `.values` of a
                                                       Timeseries: some entry finite)
         self.has_target_min / _max     g.hasMin / g.hasMax
         if c: return a ; rest          if c then a else [[rest]]"""

    def __init__(self):
        self.env = {}

    def tgt(self, node):
        if isinstance(node, ast.Attribute) and is_name(node.value, "self") and node.attr in ("target_min", "target_max"):
            return "g.tmin" if node.attr == "target_min" else "g.tmax"
        if isinstance(node, ast.Name) and node.id in self.env and self.env[node.id][0] == "t":
            return self.env[node.id][1]
        if isinstance(node, ast.Attribute) and node.attr == "values":
            return self.tgt(node.value)
        raise TE("Goal property: not a target", node)

    def b(self, node):
        if isinstance(node, ast.Constant) and isinstance(node.value, bool):
            return "true" if node.value else "false"
        if isinstance(node, ast.Name) and node.id in self.env and self.env[node.id][0] == "b":
            return self.env[node.id][1]
        if isinstance(node, ast.Attribute) and is_name(node.value, "self") and node.attr in ("has_target_min", "has_target_max"):
            return "g.hasMin" if node.attr == "has_target_min" else "g.hasMax"
        if isinstance(node, ast.UnaryOp) and isinstance(node.op, ast.Not):
            return "(!%s)" % self.b(node.operand)
        if isinstance(node, ast.BoolOp):
            return "(" + (" && " if isinstance(node.op, ast.And) else " || ").join(self.b(x) for x in node.values) + ")"
        if isinstance(node, ast.Call) and is_name(node.func, "isinstance") and len(node.args) == 2 \
                and is_name(node.args[1], "Timeseries"):
            return "%s.isSeries" % self.tgt(node.args[0])
        if isinstance(node, ast.Call) and is_np(node.func, "any") and len(node.args) == 1 and not node.keywords:
            a = node.args[0]
            if isinstance(a, ast.Call) and is_np(a.func, "isfinite") and len(a.args) == 1:
                return "%s.anyFinite" % self.tgt(a.args[0])
        raise TE("Goal property: unsupported condition", node)

    def block(self, stmts):
        stmts = _strip_doc(stmts)
        if not stmts:
            raise TE("Goal property: no return")
        st, rest = stmts[0], stmts[1:]
        if isinstance(st, ast.Return):
            return self.b(st.value)
        if isinstance(st, ast.Assign) and len(st.targets) == 1 and isinstance(st.targets[0], ast.Name):
            name = st.targets[0].id
            try:
                self.env[name] = ("t", self.tgt(st.value))
            except TranslationError:
                self.env[name] = ("b", self.b(st.value))
            return self.block(rest)
        if isinstance(st, ast.If):
            # `if isinstance(x, Timeseries): x = x.values` -- the values of a series are read by anyFinite
            if len(st.body) == 1 and isinstance(st.body[0], ast.Assign) and not st.orelse \
                    and isinstance(st.body[0].targets[0], ast.Name) and isinstance(st.body[0].value, ast.Attribute) \
                    and st.body[0].value.attr == "values" and is_name(st.body[0].value.value, st.body[0].targets[0].id):
                self.b(st.test)
                return self.block(rest)
            cond = self.b(st.test)
            a = Props()
            a.env = dict(self.env)
            ta = a.block(st.body + rest) if not _ends_with_return(st.body) else a.block(st.body)
            c = Props()
            c.env = dict(self.env)
            tc = c.block((st.orelse or []) + rest) if not _ends_with_return(st.orelse) else c.block(st.orelse)
            return "(if %s then %s else %s)" % (cond, ta, tc)
        raise TE("Goal property: unsupported statement", st)


def _ends_with_return(stmts):
    return bool(stmts) and isinstance(stmts[-1], ast.Return)


def translate_goal_props():
    tree = ast.parse(open(os.path.join(REPO, BASE)).read())
    out = {}
    for name in ("has_target_min", "has_target_max", "has_target_bounds", "is_empty"):
        fn = _find_method(tree, "Goal", name)
        out[name] = Props().block(fn.body)
    return out


# =================================================================================================
# constant_inputs() / parameters() of the goal-programming mixins: how the registered target constants reach
# the problem


def translate_inputs_method(path, cls, meth):
    """-> Lean term (over origKeys d sub prob n) of the method's result; table:
         X = super().<meth>(ensemble_member)                                   d
         if ensemble_member not in self.__original_…_keys: … = set(X.keys())   orig := match origKeys with | some o => o | none => keys d
         for k in set(X.keys()): if k not in …[ensemble_member]: del X[k]      dictKeepOnly d orig
         for variable, value in self.__A + self.__B: … X[variable] = value     (A ++ B).foldl (fun acc kv => dictSet acc kv.1 (conv kv.2))
         if variable in X: continue  /  if variable not in X: X[variable] = …  if dictHas acc kv.1 then acc else dictSet …
         value = Timeseries(self.times(), np.broadcast_to(value, (n_times, len(value))))  [ndarray]   one column per entry, n copies
         value = Timeseries(self.times(), np.full(n_times, value))             [float]     one column, n copies"""
    fn = _find_method(ast.parse(open(os.path.join(REPO, path)).read()), cls, meth)
    if [a.arg for a in fn.args.args] != ["self", "ensemble_member"]:
        raise TE("%s.%s: unexpected signature" % (cls, meth))
    want_suffix = "path_timeseries" if meth == "constant_inputs" else "parameters"
    body = _strip_doc(fn.body)
    what = "%s.%s" % (cls, meth)

    def orig_attr(node):
        return isinstance(node, ast.Attribute) and is_name(node.value, "self") and node.attr.endswith("_keys") \
            and "original" in node.attr

    try:
        s0 = body.pop(0)
        X = s0.targets[0].id
        c = s0.value
        assert isinstance(c, ast.Call) and isinstance(c.func, ast.Attribute) and c.func.attr == meth \
            and isinstance(c.func.value, ast.Call) and is_name(c.func.value.func, "super") \
            and len(c.args) == 1 and is_name(c.args[0], "ensemble_member")
        ret = body.pop()
        assert isinstance(ret, ast.Return) and is_name(ret.value, X)
    except (AssertionError, AttributeError, IndexError):
        raise TE(what + ": frame (super() call / return) not understood")

    def keys_of_x(node):  # set(X.keys())
        return isinstance(node, ast.Call) and is_name(node.func, "set") and len(node.args) == 1 \
            and isinstance(node.args[0], ast.Call) and isinstance(node.args[0].func, ast.Attribute) \
            and node.args[0].func.attr == "keys" and is_name(node.args[0].func.value, X)

    remember = removal = False
    write = None
    conv_text = None
    for st in body:
        # remember the original keys once per member
        if isinstance(st, ast.If) and isinstance(st.test, ast.Compare) and isinstance(st.test.ops[0], ast.NotIn) \
                and is_name(st.test.left, "ensemble_member") and orig_attr(st.test.comparators[0]) and not st.orelse:
            ok = len(st.body) == 1 and isinstance(st.body[0], ast.Assign) and isinstance(st.body[0].targets[0], ast.Subscript) \
                and orig_attr(st.body[0].targets[0].value) and is_name(st.body[0].targets[0].slice, "ensemble_member") \
                and keys_of_x(st.body[0].value)
            if not ok or remember or removal or write:
                raise TE(what + ": remembering the original keys", st)
            remember = True
            continue
        # drop what earlier calls wrote
        if isinstance(st, ast.For) and isinstance(st.target, ast.Name) and keys_of_x(st.iter):
            kv = st.target.id
            try:
                (cond,) = st.body
                t = cond.test
                assert isinstance(cond, ast.If) and not cond.orelse and isinstance(t, ast.Compare) and isinstance(t.ops[0], ast.NotIn) \
                    and is_name(t.left, kv) and isinstance(t.comparators[0], ast.Subscript) and orig_attr(t.comparators[0].value) \
                    and is_name(t.comparators[0].slice, "ensemble_member")
                (dl,) = cond.body
                assert isinstance(dl, ast.Delete) and len(dl.targets) == 1 and isinstance(dl.targets[0], ast.Subscript) \
                    and is_name(dl.targets[0].value, X) and is_name(dl.targets[0].slice, kv)
            except (AssertionError, ValueError):
                raise TE(what + ": removal loop", st)
            if not remember or removal or write:
                raise TE(what + ": removal loop out of place")
            removal = True
            continue
        if isinstance(st, ast.Assign) and is_name(st.targets[0], "n_times") and is_len_times(st.value):
            continue
        if isinstance(st, ast.For) and isinstance(st.target, ast.Tuple) and len(st.target.elts) == 2 and write is None:
            var, val = [e.id for e in st.target.elts]
            lists = []

            def walk(n):
                if isinstance(n, ast.BinOp) and isinstance(n.op, ast.Add):
                    walk(n.left)
                    walk(n.right)
                elif isinstance(n, ast.Attribute) and is_name(n.value, "self"):
                    nm = n.attr.split("__")[-1]
                    if nm == "subproblem_" + want_suffix:
                        lists.append("sub")
                    elif nm == "problem_" + want_suffix:
                        lists.append("prob")
                    else:
                        raise TE(what + ": unexpected list " + n.attr)
                else:
                    raise TE(what + ": pending lists", n)
            walk(st.iter)
            conv = {"vector": None, "scalar": None}
            guard = False
            wrote = False
            for s in st.body:
                if wrote:
                    raise TE(what + ": statement after the write", s)
                if isinstance(s, ast.If) and isinstance(s.test, ast.Call) and is_name(s.test.func, "isinstance"):
                    cur = s
                    while cur is not None:
                        kind = _value_kind_test(cur.test, val)
                        (a,) = cur.body
                        if not (isinstance(a, ast.Assign) and is_name(a.targets[0], val)):
                            raise TE(what + ": conversion branch", a)
                        conv[kind] = _ts_conv(a.value, val, kind, what)
                        if len(cur.orelse) == 1 and isinstance(cur.orelse[0], ast.If):
                            cur = cur.orelse[0]
                        elif not cur.orelse:
                            cur = None
                        else:
                            raise TE(what + ": conversion chain", cur)
                    continue
                if isinstance(s, ast.If) and isinstance(s.test, ast.Compare) and is_name(s.test.left, var) \
                        and is_name(s.test.comparators[0], X):
                    if isinstance(s.test.ops[0], ast.In) and len(s.body) == 1 and isinstance(s.body[0], ast.Continue) and not s.orelse:
                        guard = True
                        continue
                    if isinstance(s.test.ops[0], ast.NotIn) and len(s.body) == 1 and not s.orelse and _is_write(s.body[0], X, var, val):
                        guard = True
                        wrote = True
                        continue
                    raise TE(what + ": guard of the write", s)
                if _is_write(s, X, var, val):
                    wrote = True
                    continue
                raise TE(what + ": loop body", s)
            if not wrote:
                raise TE(what + ": the loop does not write the dictionary")
            if meth == "constant_inputs":
                if conv["vector"] is None or conv["scalar"] is None:
                    raise TE(what + ": ndarray / float values are not converted to a Timeseries")
                cv = "(CONV n)"
                conv_text = "match t with | .vector vs => %s | .scalar v => %s | .series cols => .series cols" \
                    % (conv["vector"], conv["scalar"])
            else:
                if conv["vector"] is not None or conv["scalar"] is not None:
                    raise TE(what + ": unexpected conversion of parameter values")
                cv = "id"
            pend = " ++ ".join(lists)
            setter = "dictSet acc kv.1 (%s kv.2)" % cv
            if guard:
                setter = "(if dictHas acc kv.1 then acc else %s)" % setter
            write = "(%s).foldl (fun acc kv => %s)" % (pend, setter)
            continue
        raise TE(what + ": unsupported statement", st)
    if write is None:
        raise TE(what + ": no write loop")
    if remember:
        orig = "(match origKeys with | some o => o | none => d.map Prod.fst)"
        d1 = "(dictKeepOnly d %s)" % orig if removal else "d"
        return "(%s, %s %s)" % (orig, write, d1), True, conv_text
    return "%s d" % write, False, conv_text


def _is_write(s, X, var, val):
    return isinstance(s, ast.Assign) and len(s.targets) == 1 and isinstance(s.targets[0], ast.Subscript) \
        and is_name(s.targets[0].value, X) and is_name(s.targets[0].slice, var) and is_name(s.value, val)


def _value_kind_test(test, val):
    """isinstance(value, np.ndarray) -> 'vector' ; not isinstance(value, Timeseries) (after the ndarray test) -> 'scalar'"""
    neg = False
    if isinstance(test, ast.UnaryOp) and isinstance(test.op, ast.Not):
        neg, test = True, test.operand
    if isinstance(test, ast.Call) and is_name(test.func, "isinstance") and len(test.args) == 2 and is_name(test.args[0], val):
        if is_np(test.args[1], "ndarray") and not neg:
            return "vector"
        if is_name(test.args[1], "Timeseries") and neg:
            return "scalar"
    raise TE("value kind test", test)


def _ts_conv(node, val, kind, what):
    """Timeseries(self.times(), <array>) with the array built from the value"""
    if not (isinstance(node, ast.Call) and is_name(node.func, "Timeseries") and len(node.args) == 2
            and is_self_call(node.args[0], "times")):
        raise TE(what + ": conversion to a Timeseries", node)
    a = node.args[1]
    if isinstance(a, ast.Call) and is_np(a.func, "broadcast_to") and len(a.args) == 2 and is_name(a.args[0], val) and kind == "vector":
        sh = a.args[1]
        ok = isinstance(sh, ast.Tuple) and len(sh.elts) == 2 and is_name(sh.elts[0], "n_times") \
            and isinstance(sh.elts[1], ast.Call) and is_name(sh.elts[1].func, "len") and is_name(sh.elts[1].args[0], val)
        if ok:
            return "(.series (vs.map fun v => List.replicate n v))"
    if isinstance(a, ast.Call) and is_np(a.func, "full") and len(a.args) == 2 and is_name(a.args[0], "n_times") \
            and is_name(a.args[1], val) and kind == "scalar":
        return "(.series [List.replicate n v])"
    raise TE(what + ": array of the converted Timeseries", a)
