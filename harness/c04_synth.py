"""
Synthetic goal-programming problems and goal specifications shared by the C04 and C02 checks.

`GoalSpec` is plain data (what the Lean model receives); `build_goal` turns it into a real
`rtctools` `Goal`; `make_problem` builds a pure-Python `CollocatedIntegratedOptimizationProblem`
(no Modelica): x' = -p*x + u + c, y = x + q, control u, per-member parameters / inputs,
optional nominals, all variables bounded.  Everything is observed through the public API.
"""
import logging
import math

import numpy as np

from .common import fr, quiet_fd

NAN = float("nan")
INF = float("inf")

VARS = ("x", "y", "u")
RANGES = {"x": (-50.0, 50.0), "y": (-100.0, 100.0), "u": (-20.0, 20.0)}


class Stop(Exception):
    """raised by the harness problem classes to leave optimize() at a chosen point"""


# ---------------------------------------------------------------------------------------------
# goal specifications


class GoalSpec:
    """one goal as data.  Targets: ("s", float) | ("v", [floats]) | ("ts", [[col0], [col1]...])"""

    def __init__(self, **kw):
        self.terms = [("x", 1.0)]  # function = sum coef * state(var)  (one list per component)
        self.size = 1
        self.point = None  # grid index for point goals (None = path goal)
        self.fk = None
        self.tmin = ("s", NAN)
        self.tmax = ("s", NAN)
        self.lo = [NAN]
        self.hi = [NAN]
        self.rdef = True
        self.nom = [1.0]
        self.w = 1.0
        self.order = 2
        self.prio = 1
        self.crit = False
        self.relax = 0.0
        self.vid = False
        self.uid = None
        self.state = None  # StateGoal on this state name ("x", "u", "y", or the negated alias "nx" = -x)
        self.__dict__.update(kw)

    # what the property statement calls the kind of goal
    @property
    def has_min(self):
        return _has(self.tmin)

    @property
    def has_max(self):
        return _has(self.tmax)

    @property
    def is_target(self):
        return self.has_min or self.has_max

    def comp_terms(self, c):
        return self.terms[c] if self.size > 1 else self.terms

    def wire(self):
        return {
            "size": self.size, "fk": self.fk, "tmin": _wire_t(self.tmin), "tmax": _wire_t(self.tmax),
            "lo": [fr(v) for v in self.lo], "hi": [fr(v) for v in self.hi], "rdef": bool(self.rdef),
            "nom": [fr(v) for v in self.nom], "w": fr(self.w), "ord": int(self.order), "prio": int(self.prio),
            "crit": bool(self.crit), "relax": fr(self.relax), "vid": bool(self.vid),
        }

    def describe(self):
        d = dict(self.__dict__)
        return d

    def target_at(self, which, c, i):
        """value of the broadcast target array at (component, step) -- independent of the model"""
        k, v = self.tmin if which == "min" else self.tmax
        if k == "s":
            return v
        if k == "v":
            return v[0] if len(v) == 1 else v[c]
        col = v[0] if len(v) == 1 else v[c]
        return col[i]

    def lo_at(self, c):
        return self.lo[0] if len(self.lo) == 1 else self.lo[c]

    def hi_at(self, c):
        return self.hi[0] if len(self.hi) == 1 else self.hi[c]

    def nom_at(self, c):
        return self.nom[0] if len(self.nom) == 1 else self.nom[c]


def _has(t):
    k, v = t
    if k == "ts":
        return True
    if k == "s":
        return math.isfinite(v)
    return any(math.isfinite(x) for x in v)


def _wire_t(t):
    k, v = t
    if k == "s":
        return {"k": "s", "v": fr(v)}
    if k == "v":
        return {"k": "v", "v": [fr(x) for x in v]}
    return {"k": "ts", "v": [[fr(x) for x in col] for col in v]}


def is_empty(spec):
    if not spec.is_target:
        return False

    def anyfin(t):
        k, v = t
        if k == "s":
            return math.isfinite(v)
        if k == "v":
            return any(math.isfinite(x) for x in v)
        return any(math.isfinite(x) for col in v for x in col)

    return not anyfin(spec.tmin) and not anyfin(spec.tmax)


def build_goal(spec, times, problem=None):
    """a real rtctools Goal from a spec (a `StateGoal` when `spec.state` is set: function, function
    key, range and nominal then come from the repo's `StateGoal.__init__`)"""
    import casadi as ca
    from rtctools.optimization.goal_programming_mixin_base import Goal, StateGoal
    from rtctools.optimization.timeseries import Timeseries

    times = np.asarray(times, dtype=float)

    if spec.state is not None:
        def tgt_s(t):
            k, v = t
            return float(v) if k == "s" else Timeseries(times, np.array(v[0], dtype=float))

        SG = type("SG", (StateGoal,), dict(state=spec.state, target_min=tgt_s(spec.tmin), target_max=tgt_s(spec.tmax),
                                           priority=spec.prio, weight=spec.w, order=spec.order,
                                           critical=spec.crit, relaxation=spec.relax))
        g = SG(problem)
        g.spec = spec
        return g

    def expr(pr, m, terms):
        e = 0
        for var, coef in terms:
            if spec.point is None:
                s = pr.state(var)
            else:
                s = pr.state_at(var, float(times[spec.point]), ensemble_member=m)
            e = e + coef * s
        return e

    class G(Goal):
        def function(self, pr, m):
            if spec.size == 1:
                return expr(pr, m, spec.terms)
            return ca.vertcat(*[expr(pr, m, t) for t in spec.terms])

    g = G()
    g.spec = spec

    def tgt(t):
        k, v = t
        if k == "s":
            return float(v)
        if k == "v":
            return np.array(v, dtype=float)
        vals = np.array(v, dtype=float)  # (ncols, n)
        return Timeseries(times, vals[0].copy() if vals.shape[0] == 1 else vals.T.copy())

    g.target_min = tgt(spec.tmin)
    g.target_max = tgt(spec.tmax)
    if not spec.rdef:
        lo = float(spec.lo[0]) if len(spec.lo) == 1 else np.array(spec.lo, dtype=float)
        hi = float(spec.hi[0]) if len(spec.hi) == 1 else np.array(spec.hi, dtype=float)
        g.function_range = (lo, hi)
    g.function_nominal = float(spec.nom[0]) if len(spec.nom) == 1 else np.array(spec.nom, dtype=float)
    g.weight = spec.w
    g.order = spec.order
    g.priority = spec.prio
    g.critical = spec.crit
    g.relaxation = spec.relax
    g.size = spec.size
    if spec.vid:
        g.violation_timeseries_id = "viol_%s" % spec.uid
    g.function_key = spec.fk
    return g


ALIASES = {"x": ("x", 1.0), "y": ("y", 1.0), "u": ("u", 1.0), "nx": ("x", -1.0)}


def state_goal_spec(state, inst, **kw):
    """spec of a StateGoal: terms / key / range / nominal as the documented rule gives them
    (key = canonical name, prefixed with "-" under a negated alias; range = the state's bounds;
    nominal = the variable nominal)"""
    canon, sign = ALIASES[state]
    lo, hi = RANGES[canon]
    if sign < 0:
        lo, hi = -hi, -lo
    return GoalSpec(state=state, terms=[(canon, sign)], fk=(canon if sign > 0 else "-" + canon), lo=[lo], hi=[hi],
                    rdef=False, nom=[float(inst["nom"].get(canon, 1.0))], **kw)


def shift_targets(specs, delta):
    """copies of the specs with every finite target entry moved by `delta` (uniform: monotone
    chains and min <= max are preserved)"""
    def sh(t):
        k, v = t
        f = lambda x: x + delta if math.isfinite(x) else x  # noqa
        if k == "s":
            return (k, f(v))
        if k == "v":
            return (k, [f(x) for x in v])
        return (k, [[f(x) for x in col] for col in v])

    out = []
    for s in specs:
        h = GoalSpec(**{k: (list(v) if isinstance(v, list) else v) for k, v in s.__dict__.items()})
        h.tmin, h.tmax = sh(s.tmin), sh(s.tmax)
        out.append(h)
    return out


def term_range(terms):
    """interval hull of sum coef*var over the variable boxes"""
    lo = sum(min(c * RANGES[v][0], c * RANGES[v][1]) for v, c in terms)
    hi = sum(max(c * RANGES[v][0], c * RANGES[v][1]) for v, c in terms)
    return lo, hi


def fvalue(spec, results, c=0):
    """goal function of component c per step from a results dictionary (independent of the
    goal object): path goal -> array over steps; point goal -> one-element array"""
    terms = spec.comp_terms(c)
    v = sum(coef * np.asarray(results[var], dtype=float) for var, coef in terms)
    if spec.point is not None:
        return np.array([v[spec.point]])
    return v


# ---------------------------------------------------------------------------------------------
# the problem


_CLASSES = {}


def problem_classes():
    """(Base, GP, SinglePass) problem classes, created once (imports rtctools lazily)"""
    if _CLASSES:
        return _CLASSES
    import casadi as ca
    from pymoca.backends.casadi.alias_relation import AliasRelation
    from rtctools._internal.alias_tools import AliasDict
    from rtctools.optimization.collocated_integrated_optimization_problem import (
        CollocatedIntegratedOptimizationProblem,
    )
    from rtctools.optimization.goal_programming_mixin import GoalProgrammingMixin
    from rtctools.optimization.single_pass_goal_programming_mixin import (
        SinglePassGoalProgrammingMixin,
        SinglePassMethod,
    )
    from rtctools.optimization.timeseries import Timeseries

    logging.getLogger("rtctools").setLevel(logging.CRITICAL)

    class Base(CollocatedIntegratedOptimizationProblem):
        """x' = -p*x + u + c ; y = x + q (algebraic)"""

        def __init__(self, times=None, pvals=None, cvals=None, nom=None, x0=None, probs=None, cache_inputs=False, **kw):
            self._times = np.array(times, dtype=float)
            self._pvals = pvals
            self._cvals = cvals
            self._nom = nom or {}
            self._x0 = x0
            self._probs = probs
            self._cache_inputs = cache_inputs  # constant_inputs() returns ONE dict object per member (as IOMixin's @cached does)
            self._ci_cache = {}
            x = ca.MX.sym("x")
            dx = ca.MX.sym("der(x)")
            y = ca.MX.sym("y")
            u = ca.MX.sym("u")
            c = ca.MX.sym("c")
            p = ca.MX.sym("p")
            q = ca.MX.sym("q")
            t = ca.MX.sym("time")
            self._mx = dict(time=[t], states=[x], derivatives=[dx], algebraics=[y], control_inputs=[u],
                            constant_inputs=[c], parameters=[p, q], lookup_tables=[])
            self._res = ca.vertcat(dx + p * x - u - c, y - x - q)
            self._ar = AliasRelation()
            self._ar.add("x", "-nx")  # nx = -x: a negated alias (StateGoals on it get the key "-x")
            super().__init__(**kw)

        @property
        def dae_variables(self):
            return self._mx

        @property
        def dae_residual(self):
            return self._res

        @property
        def alias_relation(self):
            return self._ar

        def times(self, variable=None):
            return self._times

        @property
        def ensemble_size(self):
            return len(self._pvals)

        def ensemble_member_probability(self, ensemble_member):
            if self._probs is None:
                return 1.0 / len(self._pvals)
            return self._probs[ensemble_member]

        def parameters(self, ensemble_member):
            d = AliasDict(self._ar)
            d["p"] = self._pvals[ensemble_member][0]
            d["q"] = self._pvals[ensemble_member][1]
            return d

        def constant_inputs(self, ensemble_member):
            if self._cache_inputs and ensemble_member in self._ci_cache:
                return self._ci_cache[ensemble_member]
            d = AliasDict(self._ar)
            d["c"] = Timeseries(self._times, np.array(self._cvals[ensemble_member], dtype=float))
            if self._cache_inputs:
                self._ci_cache[ensemble_member] = d
            return d

        def variable_nominal(self, v):
            # nominals are magnitudes: an alias (also a negated one) has the nominal of its canonical name
            canon = self._ar.canonical_signed(v)[0] if v in ("nx",) else v
            if canon in self._nom:
                return self._nom[canon]
            return super().variable_nominal(v)

        def bounds(self):
            b = AliasDict(self._ar)
            for v in VARS:
                b[v] = RANGES[v]
            return b

        def history(self, ensemble_member):
            h = AliasDict(self._ar)
            if self._x0 is not None:
                h["x"] = Timeseries(self._times[:1], np.array([self._x0[ensemble_member]], dtype=float))
            return h

        def map_options(self):
            return {"mode": "unroll"}

        def solver_options(self):
            o = super().solver_options()
            o["ipopt"]["print_level"] = 0
            o["ipopt"]["tol"] = 1e-10
            o["ipopt"]["sb"] = "yes"
            o["print_time"] = False
            return o

    class _GPCommon:
        """goal bookkeeping + hooks shared by the two mixin variants"""

        def __init__(self, specs=None, gp_opts=None, use_highs=False, stop_at=None, on_completed=None, **kw):
            self._specs = specs or []
            self._gp_opts = gp_opts or {}
            self._use_highs = use_highs
            self._stop_at = stop_at  # "started" | "transcribe" | None
            self.snaps = []  # (priority, [results per member], transcribed problem, objective, x)
            self.extras = []  # what the `on_completed` callback returned, per completed priority
            self._on_completed = on_completed
            self.events = []
            self.n_transcribe = 0
            self.last_transcribe = None
            super().__init__(**kw)
            t = self.times()
            self._goal_objs = [build_goal(s, t, problem=self) for s in self._specs]

        def set_specs(self, specs):
            """new goals for a further optimize() call on the same object"""
            self._specs = specs
            self._goal_objs = [build_goal(s, self.times(), problem=self) for s in specs]
            self.snaps, self.extras, self.events = [], [], []

        def goals(self):
            return [g for g in self._goal_objs if g.spec.point is not None]

        def path_goals(self):
            return [g for g in self._goal_objs if g.spec.point is None]

        def goal_programming_options(self):
            o = super().goal_programming_options()
            o.update(self._gp_opts)
            return o

        def solver_options(self):
            o = super().solver_options()
            if self._use_highs:
                o["casadi_solver"] = "qpsol"
                o["solver"] = "highs"
                o.pop("ipopt", None)
                o["highs"] = {"output_flag": False}
                o["error_on_fail"] = False
            return o

        def priority_started(self, priority):
            super().priority_started(priority)
            self.events.append(("started", priority))
            if self._stop_at == "started":
                raise Stop()

        def transcribe(self):
            self.n_transcribe += 1
            self.events.append(("transcribe",))
            tr = super().transcribe()
            self.last_transcribe = tr
            if self._stop_at == "transcribe":
                raise Stop()
            return tr

        def priority_completed(self, priority):
            res = [
                {k: np.array(v, dtype=float).copy() for k, v in self.extract_results(m).items()}
                for m in range(self.ensemble_size)
            ]
            tp = dict(self.transcribed_problem)
            self.snaps.append((priority, res, tp, float(self.objective_value), np.array(self.solver_output).copy()))
            self.events.append(("completed", priority))
            self.extras.append(self._on_completed(self, priority) if self._on_completed else None)
            super().priority_completed(priority)

    class GP(_GPCommon, GoalProgrammingMixin, Base):
        pass

    class SP(_GPCommon, SinglePassGoalProgrammingMixin, Base):
        pass

    class SP2(_GPCommon, SinglePassGoalProgrammingMixin, Base):
        single_pass_method = SinglePassMethod.UPDATE_OBJECTIVE_CONSTRAINT_BOUNDS

    _CLASSES.update(Base=Base, GP=GP, SP=SP, SP2=SP2)
    return _CLASSES


def gen_instance(rng, max_members=2):
    """random small linear model: grid, members, parameters, inputs, nominals"""
    n = rng.choice([2, 3, 3, 4, 5])
    steps = [rng.choice([0.5, 1.0, 1.0, 2.0]) for _ in range(n - 1)]
    t0 = rng.choice([0.0, 0.0, 10.0])
    times = [t0]
    for s in steps:
        times.append(times[-1] + s)
    E = rng.randint(1, max_members)
    pvals = [[rng.choice([0.0, 0.25, 0.5, 1.0]), rng.choice([0.0, 1.0, -2.0])] for _ in range(E)]
    if E > 1 and rng.random() < 0.3:
        pvals = [pvals[0]] * E
    cvals = [[rng.choice([0.5, 1.0, -1.0, 0.0]) for _ in range(n)] for _ in range(E)]
    nom = {}
    if rng.random() < 0.5:
        nom = {"x": rng.choice([1.0, 10.0, 0.5]), "u": rng.choice([1.0, 5.0])}
    x0 = [rng.choice([0.0, 1.0, -3.0, 5.0]) for _ in range(E)] if rng.random() < 0.7 else None
    probs = None
    if E > 1 and rng.random() < 0.5:
        w = [rng.choice([1.0, 2.0, 3.0]) for _ in range(E)]
        probs = [x / sum(w) for x in w]
    return dict(times=times, pvals=pvals, cvals=cvals, nom=nom, x0=x0, probs=probs)


def run_quiet(fn):
    """call fn() with C-level output silenced; returns ("ok", value) | ("stop",) | ("raise", exc)"""
    with quiet_fd():
        try:
            return ("ok", fn())
        except Stop:
            return ("stop",)
        except Exception as e:  # noqa
            return ("raise", e)


# ---------------------------------------------------------------------------------------------
# goal-set generators


def _grid_val(rng, lo, hi):
    """a value on the 1/2-grid in [lo, hi] (lo <= hi assumed, both finite)"""
    a = math.ceil(lo * 2)
    b = math.floor(hi * 2)
    if a > b:
        return lo
    return rng.randint(a, b) / 2.0


class KeyTrack:
    """running target interval of a shared function key (per step), for monotone sequences"""

    def __init__(self, terms, nom, point, nsteps, lo, hi):
        self.terms, self.nom, self.point, self.nsteps, self.lo, self.hi = terms, nom, point, nsteps, lo, hi
        self.cur_min = [-INF] * nsteps
        self.cur_max = [INF] * nsteps
        self.closed = False  # after a minimisation goal no further goal uses the key


def gen_terms(rng):
    r = rng.random()
    if r < 0.6:
        return [(rng.choice(VARS), 1.0)]
    if r < 0.8:
        return [(rng.choice(VARS), rng.choice([-1.0, 2.0, 0.5]))]
    a, b = rng.sample(VARS, 2)
    return [(a, 1.0), (b, rng.choice([1.0, -1.0, 0.5]))]


def gen_goal_set(rng, n, keep_soft, n_prios=None, allow_vector=True, allow_crit=True, orders=(1, 2),
                 allow_equal=True, allow_relax=True, share_prob=0.45, max_per_prio=2, allow_point=True,
                 gaps=True):
    """a well-formed goal set: list of GoalSpec over 1..3 priorities (random priority numbers)"""
    n_prios = n_prios or rng.choice([1, 2, 2, 3])
    prios = sorted(rng.sample(range(-2, 9), n_prios))
    keys = {}
    specs = []
    uid = [0]

    def new_uid():
        uid[0] += 1
        return uid[0]

    for p in prios:
        for _ in range(rng.randint(1, max_per_prio)):
            u = new_uid()
            shared = None
            open_keys = [k for k, t in keys.items() if not t.closed]
            if open_keys and rng.random() < share_prob:
                shared = rng.choice(sorted(open_keys))
            vec = allow_vector and keep_soft and shared is None and rng.random() < 0.2
            if shared is not None:
                kt = keys[shared]
                terms, nom, point, lo, hi = kt.terms, kt.nom, kt.point, kt.lo, kt.hi
                nsteps = kt.nsteps
                size = 1
            else:
                point = rng.randrange(n) if (allow_point and not vec and rng.random() < 0.3) else None
                nsteps = 1 if point is not None else n
                if vec:
                    size = 2
                    terms = [gen_terms(rng), gen_terms(rng)]
                    rr = [term_range(t) for t in terms]
                    lo = [r[0] for r in rr]
                    hi = [r[1] for r in rr]
                    if rng.random() < 0.3:
                        lo, hi = [min(lo)], [max(hi)]
                    nom = [rng.choice([1.0, 10.0]) for _ in range(2)] if rng.random() < 0.5 else [rng.choice([1.0, 10.0, 0.5])]
                else:
                    size = 1
                    terms = gen_terms(rng)
                    l, h = term_range(terms)
                    lo, hi = [l], [h]
                    nom = [rng.choice([1.0, 1.0, 10.0, 0.5])]
            kind = rng.choice(["min", "tmin", "tmax", "both", "both"])
            crit = allow_crit and not vec and kind != "min" and rng.random() < 0.2
            if vec and kind == "min" and rng.random() < 0.5:
                kind = "tmin"
            s = GoalSpec(terms=terms, size=size, point=point, prio=p, uid=u, nom=list(nom),
                         w=rng.choice([1.0, 1.0, 2.5, 0.5]), order=rng.choice(orders), crit=crit)
            s.fk = shared if shared is not None else "g%d" % u
            if kind == "min":
                if shared is not None:
                    keys[shared].closed = True
                if allow_relax and not keep_soft and rng.random() < 0.25:
                    s.relax = rng.choice([0.125, 0.5])
                specs.append(s)
                continue
            # target goal
            s.lo, s.hi, s.rdef = list(lo), list(hi), False
            if crit and rng.random() < 0.5:
                s.lo, s.hi, s.rdef = [NAN], [NAN], True  # critical goals need no range
            kt = keys.get(s.fk)
            if kt is None and size == 1 and rng.random() < 0.6:
                kt = keys[s.fk] = KeyTrack(terms, nom, point, nsteps, lo, hi)
            ncols = size
            tform = "s"
            if point is None and rng.random() < 0.5:
                tform = "ts"
            if point is None and kt is not None and max(kt.cur_min) > min(kt.cur_max):
                tform = "ts"  # no constant fits the running per-step intervals
            elif size > 1 and rng.random() < 0.6:
                tform = "v"
            if tform == "ts" and size > 1 and rng.random() < 0.3:
                ncols = 1
            mins, maxs = [], []

            def pick_pair(km, kM, lo_c, hi_c):
                a_ = max(km, lo_c + 1.0, -8.0)
                b_ = min(kM, hi_c - 1.0, 8.0)
                if a_ > b_:  # the running interval left the comfortable zone: stay inside it
                    a_ = max(km, lo_c + 0.5)
                    b_ = min(kM, hi_c - 0.5)
                tm_ = _grid_val(rng, a_, b_)
                tM_ = _grid_val(rng, tm_, b_)
                if not allow_equal and tM_ == tm_:
                    if tm_ + 1.0 <= b_:
                        tM_ = tm_ + 1.0
                    elif tm_ - 1.0 >= a_:
                        tm_ = tm_ - 1.0
                return tm_, tM_

            for c in range(ncols):
                lo_c = max(lo) if ncols == 1 and size > 1 else (lo[0] if len(lo) == 1 else lo[c])
                hi_c = min(hi) if ncols == 1 and size > 1 else (hi[0] if len(hi) == 1 else hi[c])
                if tform != "ts":
                    km = max(kt.cur_min) if kt else -INF
                    kM = min(kt.cur_max) if kt else INF
                    tm, tM = pick_pair(km, kM, lo_c, hi_c)
                    cmin, cmax = [tm] * nsteps, [tM] * nsteps
                else:
                    cmin, cmax = [], []
                    for i in range(nsteps):
                        tm, tM = pick_pair(kt.cur_min[i] if kt else -INF, kt.cur_max[i] if kt else INF, lo_c, hi_c)
                        cmin.append(tm)
                        cmax.append(tM)
                mins.append(cmin)
                maxs.append(cmax)
            if not allow_equal and kind == "both":
                if tform != "ts":
                    if any(mins[c][0] == maxs[c][0] for c in range(ncols)):
                        kind = rng.choice(["tmin", "tmax"])
                else:
                    for c in range(ncols):
                        for i in range(nsteps):
                            if mins[c][i] == maxs[c][i]:
                                if rng.random() < 0.5:
                                    mins[c][i] = NAN
                                else:
                                    maxs[c][i] = NAN
            if tform == "ts" and gaps:
                for c in range(ncols):
                    for i in range(nsteps):
                        r = rng.random()
                        if r < 0.2:
                            mins[c][i] = NAN
                        elif r < 0.25 and (kt is None or kt.cur_min[i] == -INF):
                            mins[c][i] = -INF
                        r = rng.random()
                        if r < 0.2:
                            maxs[c][i] = NAN
                        elif r < 0.25 and (kt is None or kt.cur_max[i] == INF):
                            maxs[c][i] = INF
                if rng.random() < 0.04:  # an empty goal: no finite target entry at all
                    for c in range(ncols):
                        mins[c] = [NAN] * nsteps
                        maxs[c] = [NAN] * nsteps
            if kind in ("tmin", "both"):
                s.tmin = ("s", mins[0][0]) if tform == "s" else (("v", [m[0] for m in mins]) if tform == "v" else ("ts", mins))
            if kind in ("tmax", "both"):
                s.tmax = ("s", maxs[0][0]) if tform == "s" else (("v", [m[0] for m in maxs]) if tform == "v" else ("ts", maxs))
            if kt is not None:
                for i in range(nsteps):
                    if kind in ("tmin", "both") and math.isfinite(mins[0][i]):
                        kt.cur_min[i] = max(kt.cur_min[i], mins[0][i])
                    if kind in ("tmax", "both") and math.isfinite(maxs[0][i]):
                        kt.cur_max[i] = min(kt.cur_max[i], maxs[0][i])
            if allow_relax and not keep_soft and rng.random() < 0.2:
                s.relax = rng.choice([0.125, 0.5])
            specs.append(s)
    rng.shuffle(specs)
    fix_order(specs)
    return specs


def fix_order(specs):
    """goals of one priority sharing a key keep their generation order (the validation walks the
    goals in stable priority order)"""
    groups = {}
    for pos, sp in enumerate(specs):
        groups.setdefault((sp.fk, sp.prio), []).append(pos)
    for poss in groups.values():
        if len(poss) > 1:
            members = sorted((specs[q] for q in poss), key=lambda sp: sp.uid)
            for q, sp in zip(poss, members):
                specs[q] = sp
    return specs


MUTATIONS = [
    "nominal0", "nominal-neg", "weight0", "weight-neg", "critical-min", "no-range", "range-inf", "range-eq",
    "range-rev", "range-on-min", "ts-on-point-min", "ts-on-point-max", "relax-keepsoft", "violid-keepsoft",
    "vector-nokeep", "vector-critical", "mono-min", "mono-max", "min-gt-max", "tmin-eq-lb", "tmin-below-lb",
    "tmin-gt-ub", "tmax-eq-ub", "tmax-above-ub", "tmax-lt-lb", "relax-neg",
]


def _tmap(t, f):
    k, v = t
    if k == "s":
        return (k, f(v))
    if k == "v":
        return (k, [f(x) for x in v])
    return (k, [[f(x) for x in col] for col in v])


def _tset_one(rng, t, val):
    """set one finite entry of a target to `val` (all entries for scalars)"""
    k, v = t
    if k == "s":
        return (k, val)
    if k == "v":
        v = list(v)
        idx = [i for i, x in enumerate(v) if math.isfinite(x)] or [0]
        v[rng.choice(idx)] = val
        return (k, v)
    v = [list(col) for col in v]
    idx = [(c, i) for c, col in enumerate(v) for i, x in enumerate(col) if math.isfinite(x)] or [(0, 0)]
    c, i = rng.choice(idx)
    v[c][i] = val
    return (k, v)


def mutate(rng, specs, keep_soft, n):
    """apply one ill-forming mutation in place; returns its name or None if not applicable"""
    mut = rng.choice(MUTATIONS)
    tg = [s for s in specs if s.is_target and not s.crit]
    mg = [s for s in specs if not s.is_target]
    anyg = rng.choice(specs)
    pick = lambda l: rng.choice(l) if l else None  # noqa
    if mut == "nominal0":
        anyg.nom = [0.0] if len(anyg.nom) == 1 else [anyg.nom[0], 0.0]
    elif mut == "nominal-neg":
        anyg.nom = [-1.0] + list(anyg.nom[1:])
    elif mut in ("weight0", "weight-neg"):
        g = pick(tg)
        if g is None:
            return None
        g.w = 0.0 if mut == "weight0" else -1.0
    elif mut == "critical-min":
        g = pick(mg)
        if g is None:
            return None
        g.crit = True
    elif mut == "no-range":
        g = pick(tg)
        if g is None:
            return None
        g.lo, g.hi, g.rdef = [NAN], [NAN], True
    elif mut == "range-inf":
        g = pick(tg)
        if g is None:
            return None
        if rng.random() < 0.5:
            g.lo = [-INF] * len(g.lo)
        else:
            g.hi = [INF] * len(g.hi)
    elif mut in ("range-eq", "range-rev"):
        g = pick(tg)
        if g is None:
            return None
        if mut == "range-eq":
            g.hi = list(g.lo)
        else:
            g.lo, g.hi = list(g.hi), list(g.lo)
    elif mut == "range-on-min":
        g = pick(mg)
        if g is None:
            return None
        l, h = term_range(g.comp_terms(0))
        g.lo, g.hi, g.rdef = [l], [h], False
    elif mut in ("ts-on-point-min", "ts-on-point-max"):
        pg = [s for s in specs if s.point is not None and s.is_target]
        g = pick(pg)
        if g is None:
            return None
        if mut == "ts-on-point-min":
            v = g.tmin[1] if g.has_min else 0.0
            g.tmin = ("ts", [[v if isinstance(v, float) else 0.0] * n])
        else:
            v = g.tmax[1] if g.has_max else 0.0
            g.tmax = ("ts", [[v if isinstance(v, float) else 0.0] * n])
    elif mut == "relax-keepsoft":
        if not keep_soft:
            return None
        anyg.relax = 0.25
    elif mut == "violid-keepsoft":
        if not keep_soft:
            return None
        anyg.vid = True
    elif mut == "vector-nokeep":
        if keep_soft:
            return None
        g = pick([s for s in specs if s.size == 1 and s.point is None])
        if g is None:
            return None
        g.size = 2
        g.terms = [g.terms, gen_terms(rng)]
        if g.is_target and not g.rdef:
            pass  # scalar range / nominal broadcast
    elif mut == "vector-critical":
        g = pick([s for s in specs if s.size > 1 and s.is_target])
        if g is None:
            return None
        g.crit = True
    elif mut in ("mono-min", "mono-max"):
        # a later goal on the same key that is looser than an earlier one
        cands = [s for s in specs if s.size == 1 and s.is_target and s.tmin[0] != "v"
                 and (s.has_min if mut == "mono-min" else s.has_max)
                 and any(math.isfinite(s.target_at("min" if mut == "mono-min" else "max", 0, i))
                         for i in range(1 if s.point is not None else n))]
        g = pick(cands)
        if g is None:
            return None
        maxp = max(s.prio for s in specs)
        h = GoalSpec(**{k: (list(v) if isinstance(v, list) else v) for k, v in g.__dict__.items()})
        h.uid = max(s.uid for s in specs) + 1
        h.prio = rng.randint(g.prio, maxp + 1)
        h.crit = False
        if h.rdef:
            l, hh = term_range(h.comp_terms(0))
            h.lo, h.hi, h.rdef = [l], [hh], False
        if mut == "mono-min":
            h.tmin = _tmap(g.tmin, lambda x: x)
            h.tmin = _tset_one(rng, h.tmin, min(x for x in _flat(g.tmin) if math.isfinite(x)) - 0.5)
            h.tmax = ("s", NAN)
        else:
            h.tmax = _tmap(g.tmax, lambda x: x)
            h.tmax = _tset_one(rng, h.tmax, max(x for x in _flat(g.tmax) if math.isfinite(x)) + 0.5)
            h.tmin = ("s", NAN)
        # the new goal must be the *next* one with this key in priority order: drop later sharers
        later = [s for s in specs if s.fk == g.fk and s is not g and s.prio >= g.prio]
        for s in later:
            s.fk = "m%d" % s.uid
        specs.append(h)
    elif mut == "min-gt-max":
        g = pick([s for s in specs if s.has_min and s.has_max and s.tmin[0] == s.tmax[0]])
        if g is None:
            return None
        g.tmin, g.tmax = _tmap(g.tmax, lambda x: x + 0.5 if math.isfinite(x) else x), g.tmin
    elif mut in ("tmin-eq-lb", "tmin-below-lb", "tmin-gt-ub"):
        g = pick([s for s in tg if s.has_min and len(s.lo) == 1])
        if g is None:
            return None
        val = {"tmin-eq-lb": g.lo[0], "tmin-below-lb": g.lo[0] - 1.0, "tmin-gt-ub": g.hi[0] + 0.5}[mut]
        g.tmin = _tset_one(rng, g.tmin, val)
    elif mut in ("tmax-eq-ub", "tmax-above-ub", "tmax-lt-lb"):
        g = pick([s for s in tg if s.has_max and len(s.hi) == 1])
        if g is None:
            return None
        val = {"tmax-eq-ub": g.hi[0], "tmax-above-ub": g.hi[0] + 1.0, "tmax-lt-lb": g.lo[0] - 0.5}[mut]
        g.tmax = _tset_one(rng, g.tmax, val)
    elif mut == "relax-neg":
        anyg.relax = -0.25
    return mut


def _flat(t):
    k, v = t
    if k == "s":
        return [v]
    if k == "v":
        return list(v)
    return [x for col in v for x in col]
