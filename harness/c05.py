"""
C05 — variable bounds and initial conditions are imposed exactly as given.

Proof obligations: lean/RtcVerif/Props/C05.lean (model: lean/RtcVerif/Model/C05.lean).
Correspondence: synthetic problems without Modelica (harness/c05_synth.py) are transcribed by the
real code (`optimize()` with a recording solver: it receives exactly the `lbx/ubx/lbg/ubg/x0/nlp`
of `transcribe()`); the layout is recovered through the public API (`extract_results()` of the
answer `X = arange(N)`, cross-checked with `state_vector`), and `lbx/ubx` re-indexed by named entry
(member, variable, component, time index) are compared with the Lean model (Drivers/C05.lean).
Oracle: the property re-stated in plain numpy on the real outputs (bounds per named entry, pins,
coverage of the decision vector), plus real IPOPT solves whose `extract_results()` must stay
inside the user's bounds.
Source-to-Lean translation (harness/translate_c05.py, regenerated on every run, obligations of this check):
Gen/BoundsKernel.lean (per-variable bound / seed kernels) and Gen/LayoutPins.lean (index allocation of
discretize_states / discretize_control(s), the merge of the index tables, the history-pin and
initial-derivative loops and the initial-derivative nominals of transcribe()), proved equal to the
reference definitions Model/C05Kernel.lean / Model/C05Layout.lean and through them to the model.
"""
import bisect
import copy
import math
import os

import numpy as np

from . import c05_synth as S
from .common import fr, quiet_fd, same
from .translate_c05 import gen_bounds_kernel, gen_layout_pins

NAN = float("nan")
INF = float("inf")

NOMS = [1.0, 1.0, 10.0, 0.1, 2.0, 0.25, 100.0, 1e-3, 1e4, 3.0, 0.7]


# ---------------------------------------------------------------------------------------------
# generator


def _val(rng, sign):
    """a bound value on the `sign` side (lower: mostly negative, upper: mostly positive)"""
    r = rng.random()
    if r < 0.25:
        return sign * rng.choice([0.0, 1.0, 2.0, 0.5, 8.0])
    if r < 0.6:
        return sign * rng.randint(0, 64) / 8
    return sign * round(rng.uniform(0, 50), 3)


def gen_side(rng, v, sign, grid, t0, malformed=False):
    """one side of a bound pair for variable dict `v` (its own stamps `grid`)"""
    size = v["size"]
    kinds = ["none", "none", "float", "float", "inf", "vec", "ts_same", "ts_other", "ts_inf", "ts_shift"]
    k = rng.choice(kinds)
    if malformed:
        k = rng.choice(["vec_bad", "ts_1d_on_vector", "ts2_badcols"])
    if k == "none":
        return None, k
    if k == "float":
        return _val(rng, sign), k
    if k == "inf":
        return sign * INF, k
    if k == "vec":
        if rng.random() < 0.15:
            return {"vec": [_val(rng, sign)]}, "vec1"
        return {"vec": [_val(rng, sign) if rng.random() < 0.85 else sign * INF for _ in range(size)]}, k
    if k == "vec_bad":
        return {"vec": [_val(rng, sign) for _ in range(size + rng.choice([1, 2]))]}, k
    # Timeseries kinds
    if len(grid) == 1 and rng.random() < 0.6:
        # extra variable (single stamp t0): stamps around / beside t0; otherwise the one-stamp series
        ts = rng.choice([[t0, t0 + 2.0], [t0 - 1.0, t0], [t0 - 0.5, t0 + 0.25, t0 + 1.0], [t0 + 0.5, t0 + 1.0],
                         [t0 - 2.0, t0 - 1.0]])
    elif k in ("ts_same", "ts_1d_on_vector", "ts2_badcols") or (k == "ts_inf" and rng.random() < 0.5):
        ts = list(grid)
    elif k == "ts_shift" and len(grid) > 1:
        # as many stamps as the variable, but other times: shifted (partly outside the horizon, or
        # starting in the history), compressed into a part of the horizon, or stretched
        r = rng.random()
        if r < 0.35:
            d = rng.choice([0.25, -0.25, 0.125, -1.0, -0.5, 1.0])
            ts = [t + d for t in grid]
        elif r < 0.6:   # starts in the history, ends inside the horizon
            a, b = grid[0] - rng.choice([1.0, 2.0, 0.5]), grid[-1] - (grid[-1] - grid[-2]) * rng.choice([0.5, 0.25, 1.0])
            ts = [a + (b - a) * j / (len(grid) - 1) for j in range(len(grid))]
        elif r < 0.8:   # covers only a part of the horizon
            a, b = grid[0] + (grid[1] - grid[0]) * 0.5, grid[-1] - (grid[-1] - grid[-2]) * 0.5
            if not a < b:
                a, b = grid[0] + 0.125, grid[-1] + 0.125
            ts = [a + (b - a) * j / (len(grid) - 1) for j in range(len(grid))]
        else:           # same end points, inner stamps moved
            ts = [grid[0]] + [(grid[j] + grid[j + 1]) / 2 for j in range(1, len(grid) - 1)] + [grid[-1]]
            if len(ts) != len(grid) or ts == list(grid):
                ts = [t + 0.25 for t in grid]
    else:
        # own stamps: not aligned with the variable's, possibly not covering it (fills apply)
        a = grid[0] - rng.choice([0.0, 1.0, 0.5]) if rng.random() < 0.7 else grid[0] + 0.25
        b = grid[-1] + rng.choice([0.0, 2.0]) if rng.random() < 0.7 else grid[-1] - 0.125
        inner = sorted(set(rng.choice([x for x in grid] + [(grid[j] + grid[j + 1]) / 2 for j in range(len(grid) - 1)])
                           for _ in range(rng.randint(0, 3))))
        ts = sorted(set([a] + [x for x in inner if a < x < b] + ([b] if b > a else [])))
        if len(ts) < 2 and rng.random() < 0.5:
            ts = [a, a + 1.0]
    ncol = size
    if k == "ts_1d_on_vector":
        ncol = 1
    if k == "ts2_badcols":
        ncol = size + 1

    def col():
        vals = [_val(rng, sign) for _ in ts]
        if k == "ts_inf":
            for j in range(len(vals)):
                if rng.random() < 0.4:
                    vals[j] = sign * INF
        return vals

    if ncol == 1 and not (k == "ts2_badcols"):
        return {"t": ts, "v": col()}, k
    cols = [col() for _ in range(ncol)]
    return {"t": ts, "v": [[cols[c][j] for c in range(ncol)] for j in range(len(ts))]}, k + "_2d"


def gen_hist(rng, t0, is_state, malformed=False):
    k = rng.choice(["absent", "absent", "one", "one_before", "several", "several", "nan_t0", "nan_prev", "two"])
    if malformed:
        k = rng.choice(["not_ending_at_t0", "starting_at_t0"])
    hv = lambda: rng.choice([float(rng.randint(-6, 6)), rng.randint(-40, 40) / 8, round(rng.uniform(-5, 5), 3), 0.0, 1.0])  # noqa
    if k == "absent":
        return None, k
    if k == "one":
        return {"t": [t0], "v": [hv()]}, k
    if k == "one_before":
        return {"t": [t0 - 1.0], "v": [hv()]}, k
    if k == "two":
        return {"t": [t0 - rng.choice([0.5, 1.0, 3.0]), t0], "v": [hv(), hv()]}, k
    if k == "not_ending_at_t0":
        return {"t": [t0 - 2.0, t0 - 0.5], "v": [hv(), hv()]}, k
    if k == "starting_at_t0":
        return {"t": [t0, t0 + 1.0], "v": [hv(), hv()]}, k
    n = rng.randint(3, 4)
    steps = [rng.choice([0.5, 1.0, 2.0, 0.3]) for _ in range(n - 1)]
    ts = [t0 - sum(steps[j:]) for j in range(n - 1)] + [t0]
    vs = [hv() for _ in ts]
    if k == "nan_t0":
        vs[-1] = NAN
    if k == "nan_prev":
        vs[-2] = NAN
    if k == "several" and rng.random() < 0.2:
        vs[0] = NAN
    return {"t": ts, "v": vs}, k


def gen_instance(rng, big=False, malformed=False, solvable=False):
    n = rng.choice([2, 3, 3, 4, 5, 6] + ([8, 10] if big else []))
    t0 = rng.choice([0.0, 0.0, 3.0, -2.5])
    steps = [rng.choice([0.5, 1.0, 2.0, 0.25, 1.5, 0.3]) for _ in range(n - 1)]
    times = [t0]
    for s in steps:
        times.append(times[-1] + s)
    E = rng.choice([1, 1, 2, 2, 3] + ([4] if big else []))
    ns = rng.choice([1, 1, 2])
    na = rng.choice([0, 1, 2])
    nc = rng.choice([0, 1, 2]) if not solvable else ns
    npth = rng.choice([0, 1, 2])
    nex = rng.choice([0, 1, 2])
    V = []

    def nominal(size, allow_vec):
        if allow_vec and rng.random() < 0.5:
            return [rng.choice(NOMS) for _ in range(size)]
        return rng.choice(NOMS)

    for k in range(ns):
        V.append(dict(name="x%d" % k, kind="state", size=1, times=list(times), nom=nominal(1, False)))
    for k in range(na):
        V.append(dict(name="y%d" % k, kind="alg", size=1, times=list(times), nom=nominal(1, False)))
    for k in range(nc):
        own = list(times)
        if n > 2 and rng.random() < 0.35 and not solvable:
            inner = [t for t in times[1:-1] if rng.random() < 0.5]
            own = [times[0]] + inner + [times[-1]]
        V.append(dict(name="u%d" % k, kind="control", size=1, times=own, nom=nominal(1, False)))
    for k in range(npth):
        size = rng.choice([1, 2, 2, 3])
        V.append(dict(name="pv%d" % k, kind="path", size=size, times=list(times), nom=nominal(size, size > 1)))
    for k in range(nex):
        size = rng.choice([1, 2, 3])
        V.append(dict(name="ev%d" % k, kind="extra", size=size, times=[t0], nom=nominal(size, size > 1)))
    kinds = {}
    bad_var = rng.choice(V)["name"] if malformed and rng.random() < 0.6 else None
    for v in V:
        v["mode"] = rng.choice([0, 0, 0, 1, 2])
        mal = malformed and v["name"] == bad_var and v["size"] > 1
        lo, kl = gen_side(rng, v, -1, v["times"], t0, mal and rng.random() < 0.5)
        hi, kh = gen_side(rng, v, +1, v["times"], t0, mal and kl in ("none", "float", "inf", "vec", "vec1", "ts_same",
                                                                      "ts_other", "ts_inf", "ts_shift", "ts_shift_2d", "ts_same_2d",
                                                                      "ts_other_2d", "ts_inf_2d"))
        if solvable and v["kind"] in ("alg", "control"):
            lo, hi, kl, kh = None, None, "none", "none"
        v["lo"], v["hi"] = lo, hi
        v["nokey"] = lo is None and hi is None and rng.random() < 0.5
        kinds[v["name"]] = (kl, kh)
    hist = []
    hk = {}
    for m in range(E):
        h = {}
        for v in V:
            if v["kind"] not in ("state", "alg", "control"):
                continue
            if m > 0 and rng.random() < 0.3 and v["name"] in hist[0]:
                h[v["name"]] = copy.deepcopy(hist[0][v["name"]])  # coincidence between members
                hk[(m, v["name"])] = "same_as_0"
                continue
            malh = malformed and bad_var is None and v["kind"] == "state" and rng.random() < 0.7
            hh, k = gen_hist(rng, t0, v["kind"] == "state", malh)
            if solvable and v["kind"] != "state":
                hh, k = None, "absent"
            if hh is not None:
                h[v["name"]] = hh
            hk[(m, v["name"])] = k
        hist.append(h)
    nv = ns + na + nc
    inst = dict(times=times, E=E, vars=V, hist=hist, theta=rng.choice([1.0, 0.5, 1.0]))
    # affine residual with dyadic coefficients
    if solvable:
        A = [[0.0] * nv for _ in range(ns + na)]
        for e in range(ns):
            A[e][ns + na + e] = -1.0  # der(x_e) = u_e
        for e in range(ns, ns + na):
            A[e][e % ns] = -1.0  # y = x + cin
        inst["dae"] = dict(A=A, c=[0.0] * ns + [-1.0] * na, p=[0.0] * (ns + na), D=[1.0] * ns)
    else:
        A = [[rng.choice([0.0, 0.0, 0.5, -1.0, 2.0, -0.25]) for _ in range(nv)] for _ in range(ns + na)]
        inst["dae"] = dict(A=A, c=[rng.choice([0.0, 1.0, -0.5]) for _ in range(ns + na)],
                           p=[rng.choice([0.0, 1.0, 0.25]) for _ in range(ns + na)], D=[1.0] * ns)
    inst["par"] = [rng.choice([1.0, 2.0, 0.0, -1.5]) for _ in range(E)]
    inst["cin"] = [[rng.choice([0.0, 1.0, 0.5, -2.0]) for _ in times] for _ in range(E)]
    inst["_kinds"] = {k: list(v) for k, v in kinds.items()}
    inst["_hist_kinds"] = {"%d/%s" % k: v for k, v in hk.items()}
    return inst


def add_aliases(rng, inst, solvable=False):
    """key the bounds() entries of some variables by an alias (plain or negated) and force the value
    coincidences that matter there: sides that are exactly 0 / -0.0 / ±inf, zero entries inside vectors and
    Timeseries.  `v["lo"]`, `v["hi"]` stay the bounds of the variable itself (what the property is judged
    against); the entry written into bounds() is the pair in the alias's coordinates (S.user_pair)."""
    V = inst["vars"]
    chosen = [v for v in V if rng.random() < 0.6] or [rng.choice(V)]
    inst["aliases"] = []
    kinds = inst.get("_kinds", {})
    for v in chosen:
        sign = -1 if rng.random() < 0.7 else 1
        nm = ("neg_" if sign < 0 else "al_") + v["name"]
        inst["aliases"].append(dict(name=nm, of=v["name"], sign=sign))
        v["bkey"] = dict(name=nm, sign=sign)
        v["nokey"] = False
        for sk, sg in (("lo", -1), ("hi", +1)):
            sd = v[sk]
            r = rng.random()
            if sd is None or isinstance(sd, float):
                if solvable and v["kind"] in ("alg", "control"):
                    pass   # stays free (the instance must remain feasible)
                elif r < 0.4:
                    sd = rng.choice([0.0, -0.0, 0.0])
                elif r < 0.5:
                    sd = sg * INF
            elif "vec" in sd:
                if r < 0.5:
                    sd = {"vec": [0.0 if rng.random() < 0.6 else x for x in sd["vec"]]}
            elif r < 0.5:
                sd = {"t": sd["t"], "v": [[0.0 if rng.random() < 0.4 else x for x in row] if isinstance(row, list)
                                          else (0.0 if rng.random() < 0.4 else row) for row in sd["v"]]}
            v[sk] = sd   # a None side stays None also under a negated alias (F56, repaired)
        kinds[v["name"]] = list(kinds.get(v["name"], ())) + ["alias%+d" % sign]
    return inst


# ---------------------------------------------------------------------------------------------
# wire form for the Lean model


def wire_side(s):
    if s is None:
        return None
    if isinstance(s, dict):
        if "vec" in s:
            return {"k": "vec", "v": [fr(x) for x in s["vec"]]}
        v = s["v"]
        if v and isinstance(v[0], list):
            return {"k": "ts2", "t": [fr(x) for x in s["t"]], "v": [[fr(x) for x in r] for r in v]}
        return {"k": "ts", "t": [fr(x) for x in s["t"]], "v": [fr(x) for x in v]}
    return {"k": "sc", "v": fr(s)}


def wire_blk(v, t0):
    nom = v["nom"]
    d = dict(size=v["size"], times=[fr(t) for t in (v["times"] if v["kind"] != "extra" else [t0])],
                scalarT=(v["kind"] == "extra"),
                nom=({"vec": [fr(x) for x in nom]} if isinstance(nom, list) else {"sc": fr(nom)}),
                lo=wire_side(v["lo"]), hi=wire_side(v["hi"]), mode=v["mode"])
    if v.get("bkey"):
        # the pair as the user gave it under the alias + the alias sign: the model applies `aliasSides`
        ulo, uhi = S.user_pair(v)
        d["lo"], d["hi"], d["negAlias"] = wire_side(ulo), wire_side(uhi), v["bkey"]["sign"] < 0
    return d


def wire_inst(inst):
    V = inst["vars"]
    t0 = inst["times"][0]
    by = lambda k: [wire_blk(v, t0) for v in V if v["kind"] == k]  # noqa
    pins = [v["name"] for v in V if v["kind"] == "state"] + [v["name"] for v in V if v["kind"] == "alg"] + \
           [v["name"] for v in V if v["kind"] == "control"]
    hist = []
    for m in range(inst["E"]):
        row = []
        for nm in pins:
            h = inst["hist"][m].get(nm)
            row.append(None if h is None else {"t": [fr(x) for x in h["t"]], "v": [fr(x) for x in h["v"]]})
        hist.append(row)
    return dict(op="bounds", t0=fr(t0), E=inst["E"], states=by("state"), algs=by("alg"), controls=by("control"),
                paths=by("path"), extras=by("extra"), hist=hist)


def slot_names(inst):
    """state-pass slots in the model's order"""
    V = inst["vars"]
    out = [v["name"] for k in ("state", "alg", "path", "extra") for v in V if v["kind"] == k]
    out += ["initial_der(%s)" % v["name"] for v in V if v["kind"] == "state"]
    return out


# ---------------------------------------------------------------------------------------------
# independent oracle: the user's bound of (variable, component, time)


def _interp_doc(mode, ts, fs, fill, t):
    """documented interpolant with fills; values may be infinite (no finite value is invented:
    next to an infinite knot the bound is infinite)"""
    if t < ts[0] or t > ts[-1]:
        return fill, True
    j = bisect.bisect_right(ts, t) - 1
    if ts[j] == t:
        return fs[j], True
    if mode == 1:
        return fs[j], True
    if mode == 2:
        return fs[j + 1], True
    a, b = fs[j], fs[j + 1]
    if math.isinf(a) or math.isinf(b):
        if math.isinf(a) and math.isinf(b) and a != b:
            return NAN, True
        return (a if math.isinf(a) else b), True
    w = (t - ts[j]) / (ts[j + 1] - ts[j])
    return a + (b - a) * w, False


def user_bound(v, side, sign, c, t):
    """(value, exact?) of the user's bound of component c at time t"""
    if side is None:
        return sign * INF, True
    if isinstance(side, dict):
        if "vec" in side:
            vec = side["vec"]
            return (vec[0] if len(vec) == 1 else vec[c]), True
        vals = side["v"]
        col = [r[c] for r in vals] if isinstance(vals[0], list) else vals
        return _interp_doc(v["mode"], side["t"], col, sign * INF, t)
    return side, True


def hist_at_t0(mode, h, t0):
    """history value at t0 (NaN: nothing to pin)"""
    ts, vs = h["t"], h["v"]
    if t0 < ts[0] or t0 > ts[-1]:
        return NAN
    j = bisect.bisect_right(ts, t0) - 1
    if ts[j] == t0:
        return vs[j]
    if mode == 1:
        return vs[j]
    if mode == 2:
        return vs[j + 1]
    w = (t0 - ts[j]) / (ts[j + 1] - ts[j])
    return vs[j] + (vs[j + 1] - vs[j]) * w


def close(a, b, exact=False, rtol=1e-9):
    if math.isnan(a) or math.isnan(b):
        return math.isnan(a) and math.isnan(b)
    if math.isinf(a) or math.isinf(b):
        return a == b
    if exact:
        return a == b
    return abs(a - b) <= 1e-12 + rtol * max(abs(a), abs(b))


def nom_at(v, c):
    return v["nom"][c] if isinstance(v["nom"], list) else v["nom"]


def var_times(v, t0):
    return [t0] if v["kind"] == "extra" else v["times"]


# ---------------------------------------------------------------------------------------------


def run_real(inst, answer=None, real=None):
    """transcribe through the real code; returns ('raise', name) or ('ok', dict)"""
    sol = S.RecordingSolver(answer=answer, real=real)
    try:
        p = S.make_problem(inst, sol)
        with quiet_fd():
            ok = p.optimize()
    except Exception as e:  # the implementation rejects the instance
        return ("raise", type(e).__name__ + ": " + str(e)[:120])
    rec = sol.calls[0]
    N = rec["nlp"]["x"].size1()
    return ("ok", dict(problem=p, lbx=np.array(rec["lbx"], dtype=float).ravel(),
                       ubx=np.array(rec["ubx"], dtype=float).ravel(), rec=rec, N=N, success=ok))


def case_of(inst):
    return {k: v for k, v in inst.items() if not k.startswith("_")}


def check_instance(c, inst, mo, tag="main"):
    """real code vs oracle (c.fail) and vs model output `mo` (c.disagree)"""
    import casadi as ca

    case = case_of(inst)
    V = inst["vars"]
    t0 = inst["times"][0]
    E = inst["E"]
    r = run_real(inst)
    kinds = inst.get("_kinds", {})
    key = (tag, E, len(inst["times"]), tuple(sorted((v["kind"], v["size"], isinstance(v["nom"], list),
                                                      tuple(kinds.get(v["name"], ()))) for v in V)),
           tuple(sorted(inst.get("_hist_kinds", {}).values())), r[0])
    c.count(key)
    c.hit(tag + "/" + r[0])
    # input classes the check must reach (shown in the evidence distribution)
    for v in V:
        if v["kind"] == "path" and v["size"] > 1 and isinstance(v["nom"], list) and len(set(v["nom"])) > 1 and \
                any(sd is not None and not (isinstance(sd, float) and math.isinf(sd)) for sd in (v["lo"], v["hi"])):
            c.hit("class/vector-path-variable-unequal-component-nominals-finite-bound")
    for v in V:
        for sd in (v["lo"], v["hi"]):
            if isinstance(sd, dict) and "t" in sd and len(sd["t"]) == len(var_times(v, t0)) > 1 and \
                    list(sd["t"]) != list(var_times(v, t0)):
                c.hit("class/timeseries-bound-same-length-other-stamps"
                      + ("-coarse-control" if v["kind"] == "control" and len(v["times"]) < len(inst["times"]) else ""))
    if E >= 2:
        for v in V:
            if v["kind"] == "control":
                vals = []
                for m in range(E):
                    h = inst["hist"][m].get(v["name"])
                    if h is not None:
                        hv = hist_at_t0(v["mode"], h, t0)
                        if not math.isnan(hv):
                            vals.append(hv)
                if len(set(vals)) >= 2:
                    c.hit("class/shared-control-members-disagree-at-t0 (last member wins)")
    if E >= 2:
        for v in V:
            if v["kind"] == "state":
                hs = [inst["hist"][m].get(v["name"]) for m in range(E)]
                if all(h is not None and len(h["t"]) >= 2 for h in hs) and \
                        len({(h["v"][-1], h["v"][-2]) for h in hs if not any(math.isnan(x) for x in h["v"][-2:])}) >= 2:
                    c.hit("class/ensemble-histories-differ-between-members (t0 and previous point)")
    if r[0] == "raise":
        if mo is not None and mo != "raise":
            c.disagree("real transcribe raises, model does not", case, "ok", r[1])
        return
    if mo == "raise":
        c.disagree("model raises, real transcribe does not", case, "raise", "ok")
        mo = None
    R = r[1]
    p, lbx, ubx, N = R["problem"], R["lbx"], R["ubx"], R["N"]
    try:
        lay = S.recover_layout(p, inst, N)
        lay2 = S.recover_layout_sv(p, inst, R["rec"]["nlp"])
    except Exception as e:
        c.fail("layout cannot be recovered through extract_results/state_vector: %s" % e, case)
        return
    # ---- coverage of the decision vector (oracle): every entry belongs to exactly one named
    #      entry; state entries of different members are disjoint; shared control entries coincide
    owner = {}
    okcov = True
    for (m, nm), idx in lay.items():
        if sorted(idx.ravel().tolist()) != sorted(lay2[(m, nm)].tolist()):
            c.fail("state_vector and extract_results disagree about the entries of a variable", case,
                   {"member": m, "variable": nm})
            return
        isctrl = nm in [v["name"] for v in V if v["kind"] == "control"]
        for (i, cc), ix in np.ndenumerate(idx):
            ix = int(ix)
            k = (nm, i, cc) if isctrl else (m, nm, i, cc)
            if ix < 0 or ix >= N or (ix in owner and owner[ix] != k):
                okcov = False
                c.fail("decision-vector entry assigned to two named entries (or out of range)", case,
                       {"index": ix, "a": owner.get(ix), "b": k})
                break
            owner[ix] = k
        if not okcov:
            return
    if len(owner) != N:
        c.fail("decision-vector entries not covered by any named entry", case,
               {"N": N, "covered": len(owner), "missing": sorted(set(range(N)) - set(owner))[:10]})
        return
    # ---- oracle per named entry
    pinned = {}  # index -> list of acceptable pins (several members may share a control entry)
    for m in range(E):
        for v in V:
            if v["kind"] in ("state", "alg", "control"):
                h = inst["hist"][m].get(v["name"])
                if h is not None:
                    hv = hist_at_t0(v["mode"], h, t0)
                    if not math.isnan(hv):
                        pinned.setdefault(int(lay[(m, v["name"])][0, 0]), []).append(hv)
    nbad = 0
    for m in range(E):
        for v in V:
            idx = lay[(m, v["name"])]
            tv = var_times(v, t0)
            if idx.shape != (len(tv), v["size"]):
                c.fail("variable does not have one entry per (time stamp, component)", case,
                       {"variable": v["name"], "shape": list(idx.shape)})
                return
            for i, t in enumerate(tv):
                for cc in range(v["size"]):
                    ix = int(idx[i, cc])
                    nomc = nom_at(v, cc)
                    for (arr, side, sign, what) in ((lbx, v["lo"], -1, "lower"), (ubx, v["hi"], +1, "upper")):
                        if ix in pinned:
                            exp = pinned[ix]
                            ok = any(close(nomc * arr[ix], e) for e in exp)
                            w = "history value at t0 does not pin the %s bound" % what
                        else:
                            e, exact = user_bound(v, side, sign, cc, t)
                            ok = close(nomc * arr[ix], e, exact=(exact and nomc == 1.0))
                            exp = [e]
                            w = "%s bound of a decision variable is not the user's bound" % what
                        if not ok and nbad < 3:
                            nbad += 1
                            c.fail(w, case, {"member": m, "variable": v["name"], "component": cc, "time_index": i,
                                             "expected_physical": exp, "got_scaled": float(arr[ix]), "nominal": nomc,
                                             "bound_kinds": kinds.get(v["name"])})
    c.count(None, n=2 * len(owner))  # lbx and ubx of every named entry compared with the oracle
    # initial derivatives
    sym_expected = []
    for m in range(E):
        for v in V:
            if v["kind"] != "state":
                continue
            dn = "initial_der(%s)" % v["name"]
            ix = int(lay[(m, dn)][0, 0])
            h = inst["hist"][m].get(v["name"])
            nomd = float(p.variable_nominal(dn))
            if h is not None and len(h["t"]) > 1 and not math.isnan(h["v"][-2]):
                if math.isnan(h["v"][-1]):
                    sym_expected.append((m, v, ix, h))
                    exp = None
                else:
                    exp = (h["v"][-1] - h["v"][-2]) / (h["t"][-1] - h["t"][-2])
            else:
                exp = None
            if exp is None:
                if not (lbx[ix] == -INF and ubx[ix] == INF):
                    c.fail("initial derivative is boxed although the history gives no backward difference", case,
                           {"member": m, "state": v["name"], "lbx": float(lbx[ix]), "ubx": float(ubx[ix])})
            elif not (close(nomd * lbx[ix], exp) and close(nomd * ubx[ix], exp)):
                c.fail("initial derivative is not pinned to the backward difference of the last two history points",
                       case, {"member": m, "state": v["name"], "expected": exp, "lbx": float(lbx[ix]),
                              "ubx": float(ubx[ix]), "nominal": nomd})
    # symbolic initial-derivative rows (history NaN at t0): der0 = (x(t0) - h[-2]) / (t0 - t[-2])
    if sym_expected:
        c.hit("symbolic_initder_rows", len(sym_expected))
        nlp = R["rec"]["nlp"]
        X = nlp["x"]
        Jf = ca.Function("J", [X], [ca.jacobian(nlp["g"], X), nlp["g"]])
        J, g0 = Jf(np.zeros(N))
        J = np.array(ca.DM(J))
        g0 = np.array(g0).ravel()
        lbg = np.array(R["rec"]["lbg"]).ravel()
        ubg = np.array(R["rec"]["ubg"]).ravel()
        for (m, v, ix, h) in sym_expected:
            ix0 = int(lay[(m, v["name"])][0, 0])
            nomd = float(p.variable_nominal("initial_der(%s)" % v["name"]))
            dt = t0 - h["t"][-2]
            want = np.zeros(N)
            want[ix] += nomd
            want[ix0] += -nom_at(v, 0) / dt
            found = False
            for rr in range(J.shape[0]):
                for sgn in (1.0, -1.0):
                    if lbg[rr] == 0 and ubg[rr] == 0 and np.allclose(sgn * J[rr], want, rtol=1e-9, atol=1e-12) \
                            and close(sgn * g0[rr], h["v"][-2] / dt):
                        found = True
            if not found:
                c.fail("no equality row ties the initial derivative to (x(t0) - h[-2])/(t0 - t[-2]) although the "
                       "history has a NaN at t0", case, {"member": m, "state": v["name"]})
    # ---- correspondence with the Lean model
    if mo is None:
        return R
    if mo["N"] != N:
        c.disagree("size of the decision vector", case, mo["N"], N)
        return R
    slots = slot_names(inst)
    ctrl_names = [v["name"] for v in V if v["kind"] == "control"]
    byname = {v["name"]: v for v in V}
    ndis = 0
    for m in range(E):
        for nm, idx in ((k[1], a) for k, a in lay.items() if k[0] == m):
            if nm in ctrl_names:
                flat = mo["cidx"][ctrl_names.index(nm)]
            else:
                flat = mo["sidx"][m][slots.index(nm)]
            n_t, size = idx.shape
            if len(flat) != n_t * size:
                c.disagree("number of entries of a variable", case, len(flat), [n_t, size])
                return R
            v = byname.get(nm)
            for cc in range(size):
                for i in range(n_t):
                    mi = flat[cc * n_t + i]
                    ri = int(idx[i, cc])
                    for (marr, rarr, sidek, what) in ((mo["lbx"], lbx, "lo", "lbx"), (mo["ubx"], ubx, "hi", "ubx")):
                        exact = False
                        if v is not None and ri not in pinned:
                            sd = v[sidek]
                            copied = sd is None or not isinstance(sd, dict) or "vec" in sd or v["mode"] != 0 \
                                or list(sd["t"]) == list(var_times(v, t0))
                            exact = copied and nom_at(v, cc) == 1.0
                        if not same(marr[mi], rarr[ri], exact=exact):
                            ndis += 1
                            if ndis <= 3:
                                c.disagree("%s of a named entry" % what, case,
                                           {"value": marr[mi], "index": mi},
                                           {"value": float(rarr[ri]), "index": ri, "member": m, "variable": nm,
                                            "component": cc, "time_index": i})
    msym = sorted(mo["sym"])
    rsym = sorted(int(x[2]) for x in sym_expected)
    # the model's symbolic indices are in the model's layout: translate through the slots
    msym_named = []
    for m in range(E):
        for nm in slots:
            if nm.startswith("initial_der(") and mo["sidx"][m][slots.index(nm)][0] in msym:
                msym_named.append(int(lay[(m, nm)][0, 0]))
    if sorted(msym_named) != rsym:
        c.disagree("initial derivatives tied by a symbolic row", case, sorted(msym_named), rsym)
    return R


# ---------------------------------------------------------------------------------------------
# extended interpolation (values ±inf / NaN): model vs np.interp-based real interpolate


def stream_interp(c, n):
    from .c19 import make_problem as interp_only

    prob = interp_only()
    rng = c.rng
    cases, lines = [], []
    pool = [NAN, INF, -INF, 0.0, 1.0, -2.5, 7.25]
    for _ in range(n):
        k = rng.choice([1, 2, 3, 4, 5])
        ts = sorted(rng.sample([x / 4 for x in range(-20, 40)], k))
        fs = [rng.choice(pool) if rng.random() < 0.5 else rng.randint(-40, 40) / 8 for _ in ts]
        mode = rng.choice([0, 0, 1, 2])
        fl = rng.choice([NAN, -INF, INF])
        q = [rng.choice(ts + [(ts[j] + ts[j + 1]) / 2 for j in range(k - 1)] + [ts[0] - 1, ts[-1] + 0.5,
                                                                                 ts[0] + 0.125])
             for _ in range(rng.randint(1, 5))]
        scalar = rng.random() < 0.4
        if scalar:
            q = q[:1]
        if rng.random() < 0.15 and not scalar:
            q = list(ts)
        cases.append((mode, ts, fs, fl, q, scalar))
        lines.append(dict(op="interp", mode=mode, ts=[fr(x) for x in ts], fs=[fr(x) for x in fs], fl=fr(fl),
                          fr=fr(fl), q=[fr(x) for x in q], scalar=scalar))
    outs = c.model(lines)
    for k, (mode, ts, fs, fl, q, scalar) in enumerate(cases):
        case = dict(stream="interp_ext", mode=mode, ts=ts, fs=fs, fill=fl, q=q, scalar=scalar)
        with np.errstate(all="ignore"):
            if scalar:
                real = [float(prob.interpolate(float(q[0]), np.array(ts), np.array(fs), fl, fl, mode))]
            else:
                real = list(map(float, prob.interpolate(np.array(q), np.array(ts), np.array(fs), fl, fl, mode)))
        c.count(("interp_ext", mode, len(ts), scalar, tuple(math.isfinite(x) for x in fs)))
        c.hit("interp_ext")
        if outs is None:
            continue
        mo = outs[k] if not scalar else [outs[k]]
        if mo == "raise" or mo == ["raise"] or len(mo) != len(real) or \
                not all(same(a, b, exact=(mode != 0)) for a, b in zip(mo, real)):
            c.disagree("interpolation of a series with infinite / NaN values", case, mo, real)


# ---------------------------------------------------------------------------------------------
# real solves: returned trajectories stay inside the user's boxes


def stream_solve(c, n, alias=False):
    rng = c.rng
    for _ in range(n):
        inst = gen_instance(rng, solvable=True)
        if alias:
            add_aliases(rng, inst, solvable=True)
        # make every box non-empty and finite objective targets outside it
        V = inst["vars"]
        t0 = inst["times"][0]
        tgt = {v["name"]: [rng.choice([-1e3, 1e3, 0.0]) for _ in range(v["size"])] for v in V}
        terms_q = []

        def qobj(self, m, V=V, tgt=tgt):
            import casadi as ca

            e = 0
            for v in V:
                if v["kind"] in ("state",):
                    e = e + (self.state(v["name"]) - tgt[v["name"]][0]) ** 2 * 1e-3
                elif v["kind"] == "path":
                    s = self._path_syms[[w["name"] for w in V if w["kind"] == "path"].index(v["name"])]
                    for cc in range(v["size"]):
                        e = e + (s[cc] - tgt[v["name"]][cc]) ** 2 * 1e-3
            return e if not isinstance(e, int) else ca.MX(0)

        def obj(self, m, V=V, tgt=tgt):
            import casadi as ca

            e = ca.MX(0)
            for v in V:
                if v["kind"] == "extra":
                    s = self.extra_variable(v["name"], m)
                    for cc in range(v["size"]):
                        e = e + (s[cc] - tgt[v["name"]][cc]) ** 2 * 1e-3
            return e

        def sopts(self):
            o = super(type(self), self).solver_options()
            o["ipopt"] = dict(o.get("ipopt", {}), print_level=0, tol=1e-10)
            o["print_time"] = False
            return o

        case = case_of(inst)
        sol = S.RecordingSolver(real=("nlpsol", "ipopt"))
        try:
            p = S.make_problem(inst, sol, overrides=dict(path_objective=qobj, objective=obj))
            with quiet_fd():
                ok = p.optimize()
        except Exception as e:
            c.hit("solve/raise")
            c.fail("solvable instance raised %s" % type(e).__name__, case, str(e)[:200])
            continue
        c.count(("solve" + ("-alias" if alias else ""), inst["E"], len(inst["times"]), ok))
        if not ok:
            c.hit("solve/not-converged")
            continue
        c.hit("solve-alias/ok" if alias else "solve/ok")
        for m in range(inst["E"]):
            res = p.extract_results(m)
            for v in V:
                r = np.asarray(res[v["name"]], dtype=float)
                r = r.reshape((len(var_times(v, t0)), v["size"]))
                h = inst["hist"][m].get(v["name"]) if v["kind"] in ("state", "alg", "control") else None
                for i, t in enumerate(var_times(v, t0)):
                    for cc in range(v["size"]):
                        lo, _ = user_bound(v, v["lo"], -1, cc, t)
                        hi, _ = user_bound(v, v["hi"], +1, cc, t)
                        if i == 0 and h is not None:
                            hv = hist_at_t0(v["mode"], h, t0)
                            if not math.isnan(hv):
                                lo = hi = hv
                        if math.isnan(lo) or math.isnan(hi):
                            continue
                        tol = 1e-6 * max(1.0, abs(r[i, cc]), nom_at(v, cc))
                        if r[i, cc] < lo - tol or r[i, cc] > hi + tol:
                            c.fail("returned trajectory leaves the user's box", case,
                                   {"member": m, "variable": v["name"], "component": cc, "time_index": i,
                                    "value": float(r[i, cc]), "lower": lo, "upper": hi})


# ---------------------------------------------------------------------------------------------
# several sources of bounds: Modelica min/max attributes intersected with the user's bounds()


def stream_sources(c, n):
    """generated Modelica models (Real state; Real / Integer / Boolean algebraic states and inputs) with and
    without min / max / nominal attributes + a user bounds() below ModelicaMixin in the MRO: bounds()[v] and the
    transcribed lbx/ubx entries of v are the intersection of exactly the declared sources (the default box
    (0, 1) only for a Boolean variable, (-inf, inf) for every other type)"""
    import shutil
    import tempfile

    import casadi as ca
    from rtctools.optimization.collocated_integrated_optimization_problem import (
        CollocatedIntegratedOptimizationProblem,
    )
    from rtctools.optimization.modelica_mixin import ModelicaMixin

    rng = c.rng
    tmp = tempfile.mkdtemp(prefix="C05_mo_")
    lines, meta = [], []
    try:
        for k in range(n):
            # declared type of every variable: Real / Integer / Boolean states (Real only: der), algebraic
            # states and inputs; with and without min / max attributes
            decl = [("x0", "Real", "state"), ("y0", "Real", "alg"), ("u0", "Real", "input"), ("ni", "Integer", "input")]
            if rng.random() < 0.7:
                decl.append(("na", "Integer", "alg"))
            if rng.random() < 0.75:
                decl.append(("bi", "Boolean", "input"))
                if rng.random() < 0.6:
                    decl.append(("ba", "Boolean", "alg"))
            names = [d[0] for d in decl]
            typ = {d[0]: d[1] for d in decl}
            att = {}
            for nm in names:
                if typ[nm] == "Real":
                    lo = rng.choice([None, -5.0, -1.5, 0.0, -20.0])
                    hi = rng.choice([None, 20.0, 3.0, 7.5, 1.0])
                    nom = rng.choice([None, 10.0, 0.1, 2.0])
                elif typ[nm] == "Integer":
                    lo = rng.choice([None, None, 0, 2, -3])
                    hi = rng.choice([None, None, 5, 4, 1, 10])
                    nom = None
                else:
                    lo = rng.choice([None, None, None, 0])
                    hi = rng.choice([None, None, None, 1])
                    nom = None
                att[nm] = (lo, hi, nom)

            def attrs(nm, extra=""):
                lo, hi, nom = att[nm]
                a = [extra] if extra else []
                if lo is not None:
                    a.append("min=%r" % lo)
                if hi is not None:
                    a.append("max=%r" % hi)
                if nom is not None:
                    a.append("nominal=%r" % nom)
                return "(" + ", ".join(a) + ")" if a else ""

            eqs = ["der(x0) = -0.5 * x0 + u0;", "y0 = 2.0 * x0;"]
            if "na" in typ:
                eqs.append("na = ni + 2;")
            if "ba" in typ:
                eqs.append("ba = not bi;")
            text = "model B%d\n" % k
            for (nm, ty, role) in decl:
                text += "  %s%s %s%s;\n" % ("input " if role == "input" else "", ty, nm,
                                            attrs(nm, "fixed=false" if role == "input" else ""))
            text += "equation\n" + "".join("  %s\n" % e for e in eqs) + "end B%d;\n" % k
            with open(os.path.join(tmp, "B%d.mo" % k), "w") as f:
                f.write(text)
            user = {}
            for nm in names:
                if typ[nm] == "Real" and rng.random() < 0.7:
                    user[nm] = (rng.choice([-INF, -7.0, -1.0, 0.5, -5.0]), rng.choice([INF, 12.0, 2.0, 20.0, 0.75]))
                elif typ[nm] == "Integer" and rng.random() < 0.4 and not (nm == "ni" and k % 2 == 0):
                    user[nm] = (rng.choice([-INF, 0.0, 1.0, -2.0]), rng.choice([INF, 3.0, 6.0, 1.0]))
                elif typ[nm] == "Boolean" and rng.random() < 0.3:
                    user[nm] = (rng.choice([-INF, 0.0, 1.0]), rng.choice([INF, 1.0, 0.0]))
            sol = S.RecordingSolver()
            tgrid = [0.0, 1.0, 2.5]

            class UserBounds:
                def bounds(self, _u=user):
                    b = super().bounds()
                    for kk, vv in _u.items():
                        b[kk] = vv
                    return b

            class P(ModelicaMixin, UserBounds, CollocatedIntegratedOptimizationProblem):
                def compiler_options(self):
                    o = super().compiler_options()
                    o["cache"] = False
                    return o

                def times(self, variable=None, _t=tgrid):
                    return np.array(_t)

                def solver_options(self, _s=sol):
                    o = super().solver_options()
                    o["casadi_solver"] = _s
                    return o

                def objective(self, ensemble_member):
                    return ca.MX(0)

            case = {"model": text, "user_bounds": {kk: list(vv) for kk, vv in user.items()}}
            try:
                with quiet_fd():
                    p = P(model_folder=tmp, model_name="B%d" % k, input_folder=tmp, output_folder=tmp)
                    p.optimize()
            except Exception as e:
                c.hit("sources/raise")
                c.fail("Modelica problem with scalar bounds from two sources could not be transcribed: %s"
                       % type(e).__name__, case, str(e)[:200])
                continue
            c.programs += 1
            c.hit("sources/ok")
            rec = sol.calls[0]
            X = rec["nlp"]["x"]
            N = X.size1()
            lbx = np.array(rec["lbx"], dtype=float).ravel()
            ubx = np.array(rec["ubx"], dtype=float).ravel()
            b = p.bounds()
            for nm in names:
                # the declared sources: min / max attributes, the user's pair, and - only for a Boolean variable
                # without a user entry - the default box (0, 1); nothing else (an Integer has no default box)
                dflt = (0.0, 1.0) if typ[nm] == "Boolean" and nm not in user else (None, None)
                srcs_lo = [float(x) for x in (att[nm][0], user.get(nm, (None, None))[0], dflt[0]) if x is not None]
                srcs_hi = [float(x) for x in (att[nm][1], user.get(nm, (None, None))[1], dflt[1]) if x is not None]
                exp_lo = max(srcs_lo) if srcs_lo else -INF
                exp_hi = min(srcs_hi) if srcs_hi else INF
                got = tuple(map(float, b[nm]))
                c.count(("sources", typ[nm], att[nm][0] is None, att[nm][1] is None, nm in user, att[nm][2] is None))
                c.hit("sources/%s%s%s" % (typ[nm], "+minmax" if (att[nm][0], att[nm][1]) != (None, None) else "",
                                          "+user" if nm in user else ""))
                if got != (exp_lo, exp_hi):
                    c.fail("bounds() is not the intersection of the model's min/max and the user's bounds", case,
                           {"variable": nm, "expected": [exp_lo, exp_hi], "got": list(got)})
                idx = np.array(ca.Function("sv", [X], [p.state_vector(nm)])(np.arange(N))).ravel().astype(int)
                nomv = float(p.variable_nominal(nm))
                for ix in idx:
                    if not (close(nomv * lbx[ix], exp_lo, exact=(nomv == 1.0)) and
                            close(nomv * ubx[ix], exp_hi, exact=(nomv == 1.0))):
                        c.fail("transcribed box is not the intersection of all bound sources", case,
                               {"variable": nm, "index": int(ix), "expected": [exp_lo, exp_hi],
                                "lbx": float(lbx[ix]), "ubx": float(ubx[ix]), "nominal": nomv})
                        break
                lines.append(dict(op="intersect", lo=[fr(x) for x in srcs_lo], hi=[fr(x) for x in srcs_hi]))
                meta.append((case, nm, got))
                # the model of ModelicaMixin.bounds()[v] itself: declared type, user pair, min / max
                mb = dict(op="mobox", bool=(typ[nm] == "Boolean"),
                          min=fr(float(att[nm][0]) if att[nm][0] is not None else -INF),
                          max=fr(float(att[nm][1]) if att[nm][1] is not None else INF))
                if nm in user:
                    mb["ulo"], mb["uhi"] = fr(user[nm][0]), fr(user[nm][1])
                lines.append(mb)
                meta.append((case, nm, got))
        outs = c.model(lines) if lines else []
        if outs is not None:
            for mo, (case, nm, got) in zip(outs, meta):
                if not (same(mo[0], got[0], exact=True) and same(mo[1], got[1], exact=True)):
                    c.disagree("intersection of bound sources", case, mo, {"variable": nm, "bounds()": list(got)})
    finally:
        shutil.rmtree(tmp, ignore_errors=True)


# ---------------------------------------------------------------------------------------------

CORPUS = [
    # F11 (fixed in 0f50280): 2-D Timeseries bound of a vector path variable
    dict(times=[0.0, 1.0, 2.0], E=1, theta=1.0,
         vars=[dict(name="x0", kind="state", size=1, times=[0.0, 1.0, 2.0], nom=1.0, lo=None, hi=None, mode=0,
                    nokey=True),
               dict(name="pv0", kind="path", size=2, times=[0.0, 1.0, 2.0], nom=1.0, mode=0, nokey=False,
                    lo={"t": [0.0, 1.0, 2.0], "v": [[1.0, 100.0], [2.0, 200.0], [3.0, 300.0]]},
                    hi={"t": [0.0, 1.0, 2.0], "v": [[1.5, 100.5], [2.5, 200.5], [3.5, 300.5]]})],
         hist=[{}]),
    # F35 (fixed in 9c9e7aa): one-row 2-D Timeseries bound of a vector extra variable
    dict(times=[0.0, 1.0, 2.0], E=1, theta=1.0, hist=[{}],
         vars=[dict(name="x0", kind="state", size=1, times=[0.0, 1.0, 2.0], nom=1.0, lo=None, hi=None, mode=0,
                    nokey=True),
               dict(name="ev0", kind="extra", size=3, times=[0.0], nom=1.0, mode=0, nokey=False, lo=None,
                    hi={"t": [0.0], "v": [[1.0, 2.0, 3.0]]})]),
    # F34 (fixed in 2b3db3f): Timeseries bound of an extra variable not covering t0, piecewise-constant mode
    dict(times=[0.0, 1.0, 2.0], E=1, theta=1.0, hist=[{}],
         vars=[dict(name="x0", kind="state", size=1, times=[0.0, 1.0, 2.0], nom=1.0, lo=None, hi=None, mode=0,
                    nokey=True),
               dict(name="ev0", kind="extra", size=1, times=[0.0], nom=1.0, mode=1, nokey=False,
                    lo={"t": [0.5, 1.0], "v": [-2.0, -3.0]}, hi=None)]),
    # F56 (fixed in d2a94b0): a None side in a pair keyed by a negated alias: bounds()["neg_x0"] = (None, 1.0)
    # means x0 >= -1, unbounded above (the code raised TypeError on -None)
    dict(times=[0.0, 1.0, 2.0], E=1, theta=1.0, hist=[{}],
         vars=[dict(name="x0", kind="state", size=1, times=[0.0, 1.0, 2.0], nom=1.0, mode=0, nokey=False,
                    lo=-1.0, hi=None, bkey=dict(name="neg_x0", sign=-1)),
               dict(name="u0", kind="control", size=1, times=[0.0, 1.0, 2.0], nom=2.0, mode=0, nokey=False,
                    lo=None, hi=0.0, bkey=dict(name="neg_u0", sign=-1))],
         aliases=[dict(name="neg_x0", of="x0", sign=-1), dict(name="neg_u0", of="u0", sign=-1)]),
]


def run(c):
    c.rule = (
        "random synthetic problems (1-2 states, 0-2 algebraics / controls (own coarser stamps) / path variables "
        "(size 1-3) / extra variables (size 1-3), 2-10 non-equidistant stamps, t0 in {0, 3, -2.5}, E 1-4); every "
        "bound side drawn from None / missing key / float / ±inf / ndarray (per component, length 1) / Timeseries "
        "on the variable's stamps / on other stamps (fills) / with ±inf entries, 1-D and 2-D; nominals 1e-3..1e4 "
        "scalar and per component; histories absent / one point (at, before t0) / two / several / NaN at t0 / "
        "NaN at t-1 / equal between members; interpolation modes 0-2; a malformed stream (shape mismatches, "
        "history not ending at t0); an alias stream: the same instances with the bounds() entries of some variables "
        "keyed by a plain / negated alias (synthetic alias relation), sides forced to 0 / -0.0 / ±inf and zero entries "
        "inside vectors and Timeseries, judged in the variable's own coordinates ((lo, hi) under a negated alias "
        "means (-hi, -lo)), with real IPOPT solves.  distinct = (stream, E, #stamps, multiset of (kind, size, nominal kind, "
        "bound kinds), history kinds, outcome)"
    )
    c.assumptions = [
        "NumPy slice assignment / broadcasting / `np.interp` on infinite values behave as re-stated in the model "
        "(tied by this run)",
        "the solver returns a point within lbx/ubx to tolerance when it reports success (checked on the real "
        "IPOPT solves of this run, not proved)",
        "bounds merged from several sources: `merge_bounds` is C19's model; ModelicaMixin's max/min and the "
        "io_mixin bounds are exercised by C14 (known candidate F5 belongs there)",
        "nominals are positive; NaN-valued bounds and custom `discretize_control(s)` overrides are outside the model",
    ]
    # + the per-variable bound / seed kernels, the index allocation and the history-pin block translated from the source
    c.prove(extra=gen_bounds_kernel(c) + gen_layout_pins(c))
    rng = c.rng
    # corpus first
    insts = [copy.deepcopy(x) for x in CORPUS]
    tags = ["corpus"] * len(insts)
    n_main = c.n(300, 3000)
    n_mal = c.n(60, 400)
    for _ in range(n_main):
        insts.append(gen_instance(rng, big=c.big))
        tags.append("main")
    for _ in range(n_mal):
        insts.append(gen_instance(rng, big=False, malformed=True))
        tags.append("malformed")
    # bounds() entries keyed by aliases of the variables (plain and negated), judged in the variable's own coordinates
    for _ in range(c.n(80, 600)):
        insts.append(add_aliases(rng, gen_instance(rng, big=c.big)))
        tags.append("alias")
    outs = c.model([wire_inst(i) for i in insts])
    c.programs = len(insts)
    for k, inst in enumerate(insts):
        mo = outs[k] if outs is not None else None
        check_instance(c, inst, mo, tags[k])
        if tags[k] == "main":
            c.sample({"instance": case_of(inst)}, limit=2)
        for v in inst["vars"]:
            for kk in inst.get("_kinds", {}).get(v["name"], ()):
                c.hit("bound/" + kk)
        for hk in inst.get("_hist_kinds", {}).values():
            c.hit("hist/" + hk)
    stream_interp(c, c.n(600, 8000))
    stream_solve(c, c.n(10, 60))
    stream_solve(c, c.n(5, 30), alias=True)
    stream_sources(c, c.n(4, 25))
    c.notes.append("random streams are samples; the unbounded claim is carried by the theorems; the oracle "
                   "re-states the property on the real lbx/ubx of every generated instance")


def replay(c, rp):
    # + the per-variable bound / seed kernels, the index allocation and the history-pin block translated from the source
    c.prove(extra=gen_bounds_kernel(c) + gen_layout_pins(c))
    items = rp.get("failures", []) + rp.get("correspondence_disagreements", [])
    insts = [f["case"] for f in items if isinstance(f.get("case"), dict) and "vars" in f["case"]]
    for i in insts:  # replay files store floats as JSON (inf/nan as strings)
        _unjson(i)
    outs = c.model([wire_inst(i) for i in insts]) if insts else []
    for k, inst in enumerate(insts):
        print("replaying instance", k)
        check_instance(c, inst, outs[k] if outs is not None else None, "replay")


def _unjson(x):
    if isinstance(x, dict):
        for k, v in list(x.items()):
            x[k] = _unjson(v)
        return x
    if isinstance(x, list):
        return [_unjson(v) for v in x]
    if x == "nan":
        return NAN
    if x == "inf":
        return INF
    if x == "-inf":
        return -INF
    return x
