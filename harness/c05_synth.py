"""
Synthetic optimisation problems without Modelica, shared by the C05 and C08 checks.

An *instance* is a plain JSON-able dict (see `gen_instance` in c05.py):

    times   collocation times (floats, increasing)
    E       ensemble size
    vars    list of dicts  name, kind (state|alg|control|path|extra), size, times (own stamps),
                           nom (float | list of floats), lo / hi (side), mode (0|1|2)
            side = None | float | {"vec": [..]} | {"t": [..], "v": [..] | [[..], ..]}
    hist    per member: {name: {"t": [..], "v": [..]}}          (NaN allowed in v)
    dae     coefficients of the affine residual (dyadic rationals), see `SynthProblem.__init__`
    extra   optional affine objective / path constraints / point constraints (C08)

`SynthProblem` derives directly from `CollocatedIntegratedOptimizationProblem`.  Everything is
observed through the public API: `optimize()` is run with a *recording solver* passed through
`solver_options()["casadi_solver"]`; it receives exactly what `transcribe()` produced (lbx, ubx,
lbg, ubg, x0, nlp), and answers with a chosen decision vector, after which `extract_results()`
decodes it.  With the answer `X = arange(N)` the decoded results divided by the nominals are the
decision-vector indices of every named entry (variable, component, time index): that is how the
layout is recovered.
"""
import logging

import casadi as ca
import numpy as np

NAN = float("nan")
INF = float("inf")

logging.getLogger("rtctools").setLevel(logging.CRITICAL)


def side_to_py(side):
    from rtctools.optimization.timeseries import Timeseries

    if side is None:
        return None
    if isinstance(side, dict):
        if "vec" in side:
            return np.array(side["vec"], dtype=float)
        return Timeseries(np.array(side["t"], dtype=float), np.array(side["v"], dtype=float))
    return float(side)


def neg_side(side):
    """instance-level negation of one bound side (None stays None)"""
    if side is None:
        return None
    if isinstance(side, dict):
        if "vec" in side:
            return {"vec": [-x for x in side["vec"]]}
        vals = side["v"]
        return {"t": list(side["t"]), "v": [[-x for x in r] if isinstance(r, list) else -r for r in vals]}
    return -side


def user_pair(v):
    """the (lo, hi) the user writes into bounds(): `v["lo"]`, `v["hi"]` are the bounds of the variable itself
    (canonical coordinates); with `v["bkey"] = {"name": alias, "sign": -1}` the entry is keyed by the negated
    alias and holds the bounds of the alias: (-hi, -lo)"""
    bk = v.get("bkey")
    if bk and bk["sign"] < 0:
        return neg_side(v["hi"]), neg_side(v["lo"])
    return v["lo"], v["hi"]


class RecordingSolver:
    """stands in for `ca.nlpsol`: records what it is handed, answers with a chosen point"""

    def __init__(self, answer=None, real=None):
        self.answer = answer  # callable(n) -> vector, or None (= arange)
        self.real = real  # (casadi_solver_name, solver) to really solve
        self.calls = []

    def __call__(self, name, solver, nlp, opts):
        outer = self

        class _S:
            def __init__(self):
                self._stats = {"success": True, "return_status": "recorded"}
                if outer.real is not None:
                    cs, sv = outer.real
                    self._inner = getattr(ca, cs)(name, sv, nlp, opts)
                else:
                    self._inner = None

            def __call__(self, **kw):
                n = nlp["x"].size1()
                rec = dict(kw)
                rec["nlp"] = nlp
                outer.calls.append(rec)
                if self._inner is not None:
                    r = self._inner(**kw)
                    self._stats = self._inner.stats()
                    return r
                x = np.arange(n, dtype=float) if outer.answer is None else np.asarray(outer.answer(n), dtype=float)
                fval = ca.Function("f", [nlp["x"]], [nlp["f"]])(x)
                return {"x": ca.DM(x), "f": fval}

            def stats(self):
                return self._stats

        return _S()


def make_problem(inst, solver=None, base_mixins=(), overrides=None):
    """build the problem object for an instance; `solver` is a RecordingSolver"""
    from pymoca.backends.casadi.alias_relation import AliasRelation
    from rtctools._internal.alias_tools import AliasDict
    from rtctools.optimization.collocated_integrated_optimization_problem import (
        CollocatedIntegratedOptimizationProblem,
    )
    from rtctools.optimization.timeseries import Timeseries

    V = inst["vars"]
    byname = {v["name"]: v for v in V}
    states = [v for v in V if v["kind"] == "state"]
    algs = [v for v in V if v["kind"] == "alg"]
    ctrls = [v for v in V if v["kind"] == "control"]
    paths = [v for v in V if v["kind"] == "path"]
    extras = [v for v in V if v["kind"] == "extra"]
    times = np.array(inst["times"], dtype=float)
    E = inst["E"]
    dae = inst.get("dae", {})
    ext = inst.get("extra", {})

    class SynthBase(CollocatedIntegratedOptimizationProblem):
        def __init__(self, **kw):
            sym = {}
            for v in states + algs + ctrls:
                sym[v["name"]] = ca.MX.sym(v["name"])
            ders = [ca.MX.sym("der(%s)" % v["name"]) for v in states]
            t = ca.MX.sym("time")
            cin = ca.MX.sym("cin")
            par = ca.MX.sym("par")
            self._mx = dict(
                time=[t],
                states=[sym[v["name"]] for v in states],
                derivatives=ders,
                algebraics=[sym[v["name"]] for v in algs],
                control_inputs=[sym[v["name"]] for v in ctrls],
                constant_inputs=[cin],
                parameters=[par],
                lookup_tables=[],
            )
            allv = states + algs + ctrls
            res = []
            # residual e:  [der(x_e)]  + sum_k A[e][k] * v_k + c[e]*cin + p[e]*par  (affine, dyadic)
            A = dae.get("A")
            for e in range(len(states) + len(algs)):
                expr = 0
                if e < len(states):
                    expr = expr + ders[e] * dae.get("D", [1.0] * len(states))[e]
                else:
                    expr = expr + sym[algs[e - len(states)]["name"]]
                if A is not None:
                    for k, w in enumerate(allv):
                        if A[e][k] != 0:
                            expr = expr + A[e][k] * sym[w["name"]]
                    expr = expr + dae["c"][e] * cin + dae["p"][e] * par
                res.append(expr)
            self._res = ca.vertcat(*res) if res else ca.MX()
            self._ar = AliasRelation()
            for a in inst.get("aliases", []):   # a["name"] = (+/-) a["of"]
                self._ar.add(a["of"], ("-" if a["sign"] < 0 else "") + a["name"])
            self._path_syms = [ca.MX.sym(v["name"], v["size"]) for v in paths]
            self._extra_syms = [ca.MX.sym(v["name"], v["size"]) for v in extras]
            self._sym = sym
            super().__init__(**kw)

        # ---- model description
        @property
        def dae_variables(self):
            return self._mx

        @property
        def dae_residual(self):
            return self._res

        @property
        def alias_relation(self):
            return self._ar

        @property
        def theta(self):
            return inst.get("theta", 1.0)

        def times(self, variable=None):
            if variable is not None and variable in byname and byname[variable]["kind"] in ("control", "alg", "state"):
                return np.array(byname[variable]["times"], dtype=float)
            return times

        def interpolation_method(self, variable=None):
            if variable in byname:
                return byname[variable]["mode"]
            return self.INTERPOLATION_LINEAR

        @property
        def ensemble_size(self):
            return E

        def ensemble_member_probability(self, ensemble_member):
            pr = inst.get("prob")
            return pr[ensemble_member] if pr else 1.0 / E

        def parameters(self, ensemble_member):
            d = AliasDict(self._ar)
            d["par"] = inst.get("par", [1.0] * E)[ensemble_member]
            return d

        def constant_inputs(self, ensemble_member):
            d = AliasDict(self._ar)
            vals = inst.get("cin", [[1.0] * len(times)] * E)[ensemble_member]
            d["cin"] = Timeseries(times, np.array(vals, dtype=float))
            return d

        @property
        def path_variables(self):
            return list(self._path_syms)

        @property
        def extra_variables(self):
            return list(self._extra_syms)

        def variable_nominal(self, variable):
            if variable in byname:
                nom = byname[variable]["nom"]
                return np.array(nom, dtype=float) if isinstance(nom, list) else nom
            return super().variable_nominal(variable)

        def bounds(self):
            b = AliasDict(self._ar)
            for v in V:
                if v.get("nokey"):
                    continue
                lo, hi = user_pair(v)
                b[v["bkey"]["name"] if v.get("bkey") else v["name"]] = (side_to_py(lo), side_to_py(hi))
            return b

        def history(self, ensemble_member):
            h = AliasDict(self._ar)
            for k, ts in inst["hist"][ensemble_member].items():
                h[k] = Timeseries(np.array(ts["t"], dtype=float), np.array(ts["v"], dtype=float))
            return h

        def seed(self, ensemble_member):
            s = AliasDict(self._ar)
            for k, ts in inst.get("seed", [{}] * E)[ensemble_member].items():
                if isinstance(ts, dict) and "vec" in ts:
                    s[k] = np.array(ts["vec"], dtype=float)
                elif isinstance(ts, dict):
                    s[k] = Timeseries(np.array(ts["t"], dtype=float), np.array(ts["v"], dtype=float))
                else:
                    s[k] = ts
            return s

        def map_options(self):
            return {"mode": "unroll"}

        # ---- affine objective and constraints (C08)
        def _lin(self, terms, at=None, m=0):
            """sum of coef * variable[comp]; `at` = time for point expressions (None: path)"""
            e = 0
            for (name, comp, coef) in terms:
                v = byname[name]
                if v["kind"] in ("state", "alg", "control"):
                    s = self.state(name) if at is None else self.state_at(name, at, m)
                elif v["kind"] == "path":
                    s = self._path_syms[[w["name"] for w in paths].index(name)][comp]
                elif at is None:
                    s = self._extra_syms[[w["name"] for w in extras].index(name)][comp]
                else:
                    s = self.extra_variable(name, m)[comp]
                e = e + coef * s
            return e

        def path_objective(self, ensemble_member):
            po = ext.get("path_objective")
            return self._lin(po) if po else ca.MX(0)

        def objective(self, ensemble_member):
            o = ext.get("objective")
            if not o:
                return ca.MX(0)
            e = 0
            for (terms, at_index) in o:
                e = e + self._lin(terms, at=float(times[at_index]), m=ensemble_member)
            return e

        def path_constraints(self, ensemble_member):
            out = []
            for (terms, lo, hi) in ext.get("path_constraints", []):
                out.append((self._lin(terms), side_to_py(lo), side_to_py(hi)))
            return out

        def constraints(self, ensemble_member):
            out = []
            for (terms, at_index, lo, hi) in ext.get("constraints", []):
                out.append((self._lin(terms, at=float(times[at_index]), m=ensemble_member), lo, hi))
            return out

        def delayed_feedback(self):
            # (expression, receiving variable, delay): receiving(t) = expression(t - delay)
            fb = super().delayed_feedback()
            for (terms, target, tau) in ext.get("delay", []):
                fb.append((self._lin(terms), target, tau))
            return fb

        def solver_options(self):
            o = super().solver_options()
            if solver is not None:
                o["casadi_solver"] = solver
            return o

    # mixins (e.g. GoalProgrammingMixin) sit above the synthetic base so that their overrides of
    # path_variables / bounds / seed / ... chain to it through super()
    SynthProblem = type("SynthProblem", tuple(base_mixins) + (SynthBase,), {})

    if overrides:
        SynthProblem = type("SynthProblemX", (SynthProblem,), overrides)
    return SynthProblem()


def recover_layout(problem, inst, N):
    """after optimize() with the answer X = arange(N): named entry -> decision-vector index.

    returns {(member, name): int array of shape (n_times, size)}   (extra: (1, size);
    initial derivatives under the name 'initial_der(x)': (1, 1))"""
    lay = {}
    for m in range(inst["E"]):
        res = problem.extract_results(m)
        for v in inst["vars"]:
            nom = problem.variable_nominal(v["name"])
            r = np.asarray(res[v["name"]], dtype=float)
            if v["size"] > 1:
                if v["kind"] == "extra":
                    r = r.reshape((1, v["size"]))
                nomr = np.broadcast_to(np.asarray(nom, dtype=float), r.shape)
            else:
                r = r.reshape((-1, 1))
                nomr = np.broadcast_to(np.asarray(nom, dtype=float).reshape(-1)[:1], r.shape)
            idx = np.rint(r / nomr).astype(int)
            if not np.allclose(idx * nomr, r, rtol=1e-9, atol=1e-9):
                raise RuntimeError("layout recovery: non-integer index for %s" % v["name"])
            lay[(m, v["name"])] = idx
            if v["kind"] == "state":
                dn = "initial_der(%s)" % v["name"]
                nomd = problem.variable_nominal(dn)
                rd = np.asarray(res[dn], dtype=float).reshape((1, 1))
                idd = np.rint(rd / nomd).astype(int)
                if not np.allclose(idd * nomd, rd, rtol=1e-9, atol=1e-9):
                    raise RuntimeError("layout recovery: non-integer index for %s" % dn)
                lay[(m, dn)] = idd
    return lay


def recover_layout_sv(problem, inst, nlp):
    """second route: `state_vector(var, m)` as a CasADi function of X evaluated at arange(N)"""
    X = nlp["x"]
    N = X.size1()
    out = {}
    names = []
    for v in inst["vars"]:
        names.append(v["name"])
        if v["kind"] == "state":
            names.append("initial_der(%s)" % v["name"])
    for m in range(inst["E"]):
        for nm in names:
            f = ca.Function("sv", [X], [problem.state_vector(nm, m)])
            out[(m, nm)] = np.rint(np.array(f(np.arange(N))).ravel()).astype(int)
    return out
