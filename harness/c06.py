"""
C06 — objective and user constraints are transcribed as given, at every time stamp.

Proof obligations: lean/RtcVerif/Props/C06.lean (model: lean/RtcVerif/Model/C06.lean).
Correspondence (Drivers/C06.lean): random affine / polynomial objective, path objective, path and
point constraint expressions over states, controls, derivatives, path / extra variables,
constant inputs (DAE and extra) and parameters on synthetic problems; all bound kinds; E <= 4 with
non-uniform probabilities.  The real `nlp['f']`, user rows of `nlp['g']`, `lbg`, `ubg` against the
Lean assembly model fed with the user-function values (evaluated by the harness on the decoded
trajectories): complete for affine instances (probes 0, e_1 … e_N determine (A, b)), random
probes for polynomial ones.  Independent oracle: the documented formula evaluated in plain Python;
`objective_value` after a real solve against the formula on `extract_results()`.
"""
import copy
import math
import warnings

import numpy as np

from .c07 import call, gen_grid, gen_member_values, pick_val
from .c07_synth import (Spec, Transcription, decode, env_at, eval_path, eval_point, interp_lin, syn_class)
from .common import fr, quiet_fd, same
from .translate_c06 import gen_readback, gen_user_rows

INF = float("inf")


# ---------------------------------------------------------------------------------------------
# bounds (spec-side data + wire form + plain-Python denotation)


def gen_bound(rng, s, n, ts, lower, allow_ts=True):
    """a bound for a constraint with s rows; ('sc', v) | ('vec', [..]) | ('ts', times, vals) |
    ('ts2', times, [[col0], [col1], ...])"""
    sign = -1.0 if lower else 1.0
    val = lambda: sign * rng.choice([0.0, 1.0, 2.5, 4.0, 7.0, 0.5])  # noqa: E731
    kinds = ["sc", "sc", "inf", "vec", "vec1"] + (["ts", "ts", "ts2"] if allow_ts else [])
    k = rng.choice(kinds)
    if k == "inf":
        return ("sc", sign * INF)
    if k == "sc":
        return ("sc", val())
    if k == "vec1":
        return ("vec", [val()])
    if k == "vec":
        return ("vec", [val() if rng.random() < 0.8 else sign * INF for _ in range(s)])
    # Timeseries: own time stamps (the grid, a sub-range -> fills, or a finer / shifted axis)
    mode = rng.choice(["grid", "sub", "other"])
    if mode == "grid" or n < 3:
        tt = list(ts)
    elif mode == "sub":
        a = rng.randint(0, n - 2)
        b = rng.randint(a + 1, n - 1)
        tt = list(ts[a:b + 1])
    else:
        tt = sorted({ts[0] - 0.5, ts[0] + 0.25, ts[-1] - 0.125, (ts[0] + ts[-1]) / 2})
    if k == "ts":
        return ("ts", tt, [val() for _ in tt])
    ncol = s if rng.random() < 0.8 else 1
    return ("ts2", tt, [[val() for _ in tt] for _ in range(ncol)])


def bound_obj(b):
    from rtctools.optimization.timeseries import Timeseries

    if b[0] == "sc":
        return b[1]
    if b[0] == "vec":
        return np.array(b[1], dtype=float)
    if b[0] == "ts":
        return Timeseries(np.array(b[1], dtype=float), np.array(b[2], dtype=float))
    return Timeseries(np.array(b[1], dtype=float), np.array(b[2], dtype=float).T)


def bound_wire(b):
    if b[0] == "sc":
        return {"k": "sc", "v": fr(b[1])}
    if b[0] == "vec":
        return {"k": "vec", "v": [fr(v) for v in b[1]]}
    if b[0] == "ts":
        return {"k": "ts", "t": [fr(t) for t in b[1]], "v": [fr(v) for v in b[2]]}
    return {"k": "ts2", "t": [fr(t) for t in b[1]], "v": [[fr(v) for v in col] for col in b[2]]}


def bound_at(b, r, t, lower):
    """documented meaning of a bound for row r at time t (plain Python)"""
    fill = -INF if lower else INF
    if b[0] == "sc":
        return b[1]
    if b[0] == "vec":
        return b[1][0] if len(b[1]) == 1 else b[1][r]
    if b[0] == "ts":
        return interp_lin(t, b[1], b[2], fill, fill)
    col = b[2][0] if len(b[2]) == 1 else b[2][r]
    return interp_lin(t, b[1], col, fill, fill)


# ---------------------------------------------------------------------------------------------
# instances


def gen_expr_path(rng, names, poly, nterms):
    d = lambda: rng.choice([1.0, -1.0, 2.0, 0.5, -0.25, 3.0])  # noqa: E731
    out = []
    for _ in range(nterms):
        f1 = rng.choice(names)
        if poly and rng.random() < 0.4:
            out.append((d(), (f1, rng.choice(names))))
        else:
            out.append((d(), (f1,)))
    if rng.random() < 0.5:
        out.append((d(), ()))
    return out


def gen_case(rng, poly):
    ts = gen_grid(rng, 2, 5)
    n = len(ts)
    E = rng.choice([1, 2, 2, 3, 4])
    nx = rng.choice([1, 2])
    states = ["x%d" % j for j in range(nx)]
    algs = ["y0"]
    controls = ["u0"] + (["u1"] if rng.random() < 0.4 else [])
    cinputs = ["c0"]
    params = ["p0", "p1", "p2"]  # p2 occurs in the user functions only (never in the DAE)
    # 0-3 path variables of size 1-3; with several of them a vector one often comes first, so that the t0 slot of
    # a later variable (running offset into the de-scaling vector) differs from its position in the list
    npv = rng.choice([0, 0, 1, 1, 1, 2, 2, 3])
    pathvars = [("w%d" % j, rng.choice([1, 1, 2, 3])) for j in range(npv)]
    if npv >= 2 and rng.random() < 0.6:
        pathvars[0] = ("w0", rng.choice([2, 3]))
    extravars = [("e0", 1)] if rng.random() < 0.6 else []
    extra_cin = ["z0"] if rng.random() < 0.5 else []
    d = lambda: rng.choice([1.0, -1.0, 2.0, 0.5, -0.25, 3.0])  # noqa: E731
    eqs = []
    for j, x in enumerate(states):
        eqs.append([(1.0, ("der(%s)" % x,)), (1.0, (params[j % 2], x)), (-1.0, (controls[j % len(controls)],)),
                    (-d(), ("c0",))])
    eqs.append([(1.0, ("y0",)), (-1.0, ("x0",)), (-1.0, ("p1",))])
    pvals = gen_member_values(rng, E, 3, lambda: pick_val(rng))
    hist_pts = rng.choice([0, 0, 2])
    cin_times = [ts[0] - (hist_pts - j) * 0.5 for j in range(hist_pts)] + list(ts)
    cin = {"c0": gen_member_values(rng, E, len(cin_times), lambda: pick_val(rng))}
    if extra_cin:
        cin["z0"] = gen_member_values(rng, E, len(cin_times), lambda: pick_val(rng))
    hist = [dict() for _ in range(E)]
    if rng.random() < 0.4:  # history of an algebraic variable: feeds der(y0) at t0
        for m in range(E):
            hist[m]["y0"] = ([ts[0] - 0.5, ts[0]], [pick_val(rng), pick_val(rng)])
    nom = {}
    if rng.random() < (0.8 if len(pathvars) >= 2 else 0.5):
        nom = {"x0": rng.choice([1.0, 10.0, 0.01]), "u0": rng.choice([1.0, 100.0, 0.5])}
        for w, sz in pathvars:  # per variable; sometimes per component (a list, handed over as an array)
            if sz > 1 and rng.random() < 0.3:
                nom[w] = [rng.choice([1.0, 4.0, 0.25, 10.0]) for _ in range(sz)]
            else:
                nom[w] = rng.choice([1.0, 4.0, 0.25, 10.0])
        if extravars:
            nom["e0"] = rng.choice([1.0, 8.0])
    probs = [rng.choice([0.125, 0.25, 0.5, 1.0, 0.375, 0.0625]) for _ in range(E)]
    # names usable in path expressions
    pnames = states + algs + controls + ["der(%s)" % x for x in states] + ["der(y0)", "der(u0)"] \
        + cinputs + params + ["time"] + extra_cin
    for w, sz in pathvars:
        pnames += [(w, j) for j in range(sz)]
    pnames += [e for e, _ in extravars]
    has_pobj = rng.random() < 0.85
    pobj = gen_expr_path(rng, pnames, poly, rng.randint(2, 5)) if has_pobj else None
    # path constraints: same expressions for all members, member specific bounds
    npc = rng.choice([0, 1, 2, 3])
    pcs = []
    for _ in range(npc):
        s = rng.choice([1, 1, 2])
        exprs = [gen_expr_path(rng, pnames, poly, rng.randint(1, 3)) for _ in range(s)]
        per_member = rng.random() < 0.6
        b0 = (gen_bound(rng, s, n, ts, True), gen_bound(rng, s, n, ts, False))
        bnds = [(gen_bound(rng, s, n, ts, True), gen_bound(rng, s, n, ts, False)) if per_member else b0
                for _ in range(E)]
        pcs.append(dict(s=s, exprs=exprs, bnds=bnds))

    # point expressions
    def gen_point(m):
        terms = []
        for _ in range(rng.randint(1, 3)):
            v = rng.choice(states + algs + controls)
            f = [("at", v, rng.randrange(n))]
            if rng.random() < 0.3:
                f.append(("par", rng.choice(params)))
            if poly and rng.random() < 0.3:
                f.append(("at", rng.choice(states), rng.randrange(n)))
            terms.append((d(), tuple(f)))
        if extravars and rng.random() < 0.5:
            terms.append((d(), (("ev", "e0"),)))
        if rng.random() < 0.5:
            terms.append((d() + m, ()))
        return terms

    obj = [gen_point(m) if rng.random() < 0.9 else None for m in range(E)]
    if rng.random() < 0.1:
        obj = [None] * E
    pts = []
    for m in range(E):
        lst = []
        for _ in range(rng.choice([0, 1, 2, 3])):
            s = rng.choice([1, 1, 2, 3])
            exprs = [gen_point(m) for _ in range(s)]
            lb = gen_bound(rng, s, n, ts, True, allow_ts=False)
            ub = gen_bound(rng, s, n, ts, False, allow_ts=False)
            if s == 1:  # scalar constraints: scalar bounds or one-element arrays
                lb = lb if lb[0] == "sc" else ("vec", lb[1][:1])
                ub = ub if ub[0] == "sc" else ("vec", ub[1][:1])
            lst.append(dict(s=s, exprs=exprs, lb=lb, ub=ub))
        pts.append(lst)
    return dict(ts=ts, E=E, states=states, algs=algs, controls=controls, cinputs=cinputs, params=params,
                pathvars=pathvars, extravars=extravars, extra_cin=extra_cin, eqs=eqs, pvals=pvals,
                cin_times=cin_times, cin=cin, hist=hist, nom=nom, probs=probs, pobj=pobj, pcs=pcs,
                obj=obj, pts=pts, poly=poly, theta=rng.choice([1.0, 1.0, 0.5]))


def case_spec(dt, user=True):
    s = Spec(times=dt["ts"], states=dt["states"], algs=dt["algs"], controls=dt["controls"],
             cinputs=dt["cinputs"], params=dt["params"], eqs=dt["eqs"], E=dt["E"], pvals=dt["pvals"],
             cin_times=dt["cin_times"], cin=dt["cin"], extra_cin=dt["extra_cin"], hist=dt["hist"],
             nom={k: (np.array(v) if isinstance(v, list) else v) for k, v in dt["nom"].items()}, probs=dt["probs"], theta=dt["theta"], pathvars=dt["pathvars"],
             extravars=dt["extravars"],
             bnds=dict({u: (-10.0, 10.0) for u in dt["controls"]}, **{w: (-50.0, 50.0) for w, _ in dt["pathvars"]},
                       **{e: (-50.0, 50.0) for e, _ in dt["extravars"]}))
    if not user:
        return s
    if any(o is not None for o in dt["obj"]):
        s.objective = lambda m: dt["obj"][m] if dt["obj"][m] is not None else []
    s.path_objective = dt["pobj"]
    if dt["pcs"]:
        s.path_constraints = lambda m: [(pc["exprs"], pc["bnds"][m][0], pc["bnds"][m][1]) for pc in dt["pcs"]]
    if any(dt["pts"]):
        s.constraints = lambda m: [(pt["exprs"], pt["lb"], pt["ub"]) for pt in dt["pts"][m]]
    return s


# ---------------------------------------------------------------------------------------------
# evaluating the user functions on a decoded decision vector (plain Python)


def user_values(dt, s, tr, Xv):
    """per member: J, path objective per time index, path constraint rows per time index,
    point constraint values"""
    traj = decode(tr, Xv)
    n = len(dt["ts"])
    out = []
    for m in range(dt["E"]):
        envs = [env_at(s, traj[m], m, i) for i in range(n)]
        J = eval_point(dt["obj"][m], s, traj[m], m) if dt["obj"][m] is not None else 0.0
        jp = [eval_path(dt["pobj"], e) for e in envs] if dt["pobj"] is not None else None
        G = [[eval_path(ex, e) for pc in dt["pcs"] for ex in pc["exprs"]] for e in envs]
        pt = [[eval_point(ex, s, traj[m], m) for ex in p["exprs"]] for p in dt["pts"][m]]
        out.append(dict(J=J, jp=jp, G=G, pt=pt))
    return out


def spec_rows(dt, uv):
    """the documented problem: f and the multiset of user rows (value, lb, ub)"""
    ts = dt["ts"]
    f = 0.0
    rows = []
    for m in range(dt["E"]):
        fm = uv[m]["J"] + (sum(uv[m]["jp"]) if uv[m]["jp"] is not None else 0.0)
        f += dt["probs"][m] * fm
        for p, vals in zip(dt["pts"][m], uv[m]["pt"]):
            for r, v in enumerate(vals):
                rows.append((v, bound_at(p["lb"], r, None, True), bound_at(p["ub"], r, None, False)))
        for i, t in enumerate(ts):
            k = 0
            for pc in dt["pcs"]:
                lb, ub = pc["bnds"][m]
                for r in range(pc["s"]):
                    rows.append((uv[m]["G"][i][k], bound_at(lb, r, t, True), bound_at(ub, r, t, False)))
                    k += 1
    return f, rows


def close(a, b, rtol=1e-9, atol=1e-9):
    if math.isinf(a) or math.isinf(b):
        return a == b
    return abs(a - b) <= atol + rtol * max(abs(a), abs(b))


def match_rows(expected, got):
    """greedy matching of two row multisets; each row = (lb, ub, values...)"""
    if len(expected) != len(got):
        return False
    left = list(got)
    for e in expected:
        for k, g in enumerate(left):
            if len(e) == len(g) and all(close(float(x), float(y)) for x, y in zip(e, g)):
                del left[k]
                break
        else:
            return False
    return True


def key12(vals):
    return tuple(float("%.12g" % v) if not math.isinf(v) else v for v in vals)


def user_rows_of(tr_full, tr_dae, probes):
    """rows of the full transcription that are not DAE rows: multiset difference of exact row
    signatures (bounds + values at the probes) against the transcription without user functions"""
    from collections import Counter

    gf = [tr_full.fg(X)[1] for X in probes]
    gd = [tr_dae.fg(X)[1] for X in probes]
    sig_f = [(tr_full.lbg[r], tr_full.ubg[r]) + tuple(g[r] for g in gf) for r in range(tr_full.ng)]
    sig_d = [(tr_dae.lbg[r], tr_dae.ubg[r]) + tuple(g[r] for g in gd) for r in range(tr_dae.ng)]
    cnt = Counter(key12(s) for s in sig_d)
    user = []
    for s in sig_f:
        k = key12(s)
        if cnt.get(k, 0) > 0:
            cnt[k] -= 1
        else:
            user.append(s)
    if sum(cnt.values()) != 0:
        return None
    return user


# ---------------------------------------------------------------------------------------------


def wire_case(dt, uvs):
    n = len(dt["ts"])
    R = sum(pc["s"] for pc in dt["pcs"])
    nj = 1 if dt["pobj"] is not None else 0
    members = []
    for m in range(dt["E"]):
        members.append(dict(
            paths=[dict(s=pc["s"], lb=bound_wire(pc["bnds"][m][0]), ub=bound_wire(pc["bnds"][m][1]))
                   for pc in dt["pcs"]],
            pointb=[dict(lb=bound_wire(p["lb"]), ub=bound_wire(p["ub"])) for p in dt["pts"][m]]))
    probes = []
    for uv in uvs:
        pm = []
        for m in range(dt["E"]):
            u = uv[m]
            jp = u["jp"] if u["jp"] is not None else [0.0] * n
            pm.append(dict(J=fr(u["J"]), init=[fr(jp[0])] if nj else [], initG=[fr(v) for v in u["G"][0]],
                           jp=[[fr(jp[i])] if nj else [] for i in range(1, n)],
                           G=[[fr(v) for v in u["G"][i]] for i in range(1, n)],
                           pt=[[fr(v) for v in vals] for vals in u["pt"]]))
        probes.append(pm)
    return dict(op="c06", times=[fr(t) for t in dt["ts"]], nd=len(dt["eqs"]), nj=nj, R=R,
                probs=[fr(p) for p in dt["probs"]], members=members, probes=probes)


def run_case(c, dt, lines, pend, pr=None, s=None, before=None):
    """`pr`: an instance that has been transcribed before with other data (`before`): the second
    transcription must describe the CURRENT data"""
    rng = c.rng
    cls = syn_class(())
    if pr is None:
        s = case_spec(dt)
        r1 = call(lambda: Transcription(cls(spec=s)))
    else:
        r1 = call(lambda: Transcription(pr))
        c.hit("c06/second-transcription")
    r0 = call(lambda: Transcription(cls(spec=case_spec(dt, user=False))))
    view = dict(stream="c06" if pr is None else "c06-rerun", case=copy.deepcopy(dt) if pr is not None else dt)
    if before is not None:
        view["first_transcription_with"] = before
    kinds = sorted({b[0] for pc in dt["pcs"] for bb in pc["bnds"] for b in bb}
                   | {p[k][0] + "@pt" for lst in dt["pts"] for p in lst for k in ("lb", "ub")})
    c.count(("c06" if pr is None else "c06-rerun", dt["E"], len(dt["ts"]), dt["poly"], tuple(kinds), len(dt["pcs"]),
             tuple(len(x) for x in dt["pts"]), dt["pobj"] is not None, tuple(sz for _, sz in dt["pathvars"]),
             bool(dt["extravars"]), bool(dt["extra_cin"])))
    c.programs += 1
    c.hit("c06/" + ("poly" if dt["poly"] else "affine"))
    pv = dt["pathvars"]
    if len(pv) >= 2 and any(sz > 1 for _, sz in pv[:-1]) and any(np.any(np.asarray(dt["nom"].get(w, 1.0)) != 1.0) for w, _ in pv[1:]):
        c.hit("c06/pathvars-vector-not-last-with-nominals")
    for k in kinds:
        c.hit("c06/bound-" + k)
    c.hit("c06/E=%d" % dt["E"])
    c.sample(dict(stream="c06", E=dt["E"], ts=dt["ts"], probs=dt["probs"], pobj=dt["pobj"],
                  pcs=[dict(s=pc["s"], bnds=pc["bnds"]) for pc in dt["pcs"]]), limit=3)
    if r1[0] == "raise" or r0[0] == "raise":
        c.fail("transcribe raised on a valid instance: " + (r1[1] if r1[0] == "raise" else r0[1]), view)
        return
    tr, tr0 = r1[1], r0[1]
    if not (len(tr.lbg) == tr.ng == len(tr.ubg)):
        c.fail("g, lbg and ubg have different lengths", view, dict(g=tr.ng, lbg=len(tr.lbg), ubg=len(tr.ubg)))
        return
    if tr.N != tr0.N:
        c.broken.append(("c06 harness", "user functions changed the decision vector size"))
        return
    N = tr.N
    affine = (not dt["poly"]) and tr.affine_g() is not None and tr.affine_f() is not None
    if affine:
        probes = [np.zeros(N)] + [np.eye(N)[j] for j in range(N)]
        c.hit("c06/complete-affine")
    else:
        probes = [np.array([rng.choice([rng.uniform(-2, 2), 0.0, 1.0]) for _ in range(N)]) for _ in range(5)]
        c.hit("c06/probes")
    user = user_rows_of(tr, tr0, probes)
    if user is None:
        c.broken.append(("c06 harness", "DAE rows of the reduced transcription not found in the full one"))
        return
    uvs = [user_values(dt, s, tr, X) for X in probes]
    fs = [tr.fg(X)[0] for X in probes]
    # ---- oracle: the documented formula
    exp_rows = None
    for pi, uv in enumerate(uvs):
        f_spec, rows = spec_rows(dt, uv)
        if not close(f_spec, fs[pi], rtol=1e-9, atol=1e-9):
            c.fail("objective differs from sum_m prob_m (J_m + sum_i Jpath(env m i))", view,
                   dict(probe=pi, expected=f_spec, got=fs[pi]))
            break
        if exp_rows is None:
            exp_rows = [[lb, ub, v] for (v, lb, ub) in rows]
        else:
            for k, (v, lb, ub) in enumerate(rows):
                exp_rows[k].append(v)
    else:
        if not match_rows(exp_rows, user):
            c.fail("user constraint rows / bounds differ from the documented set", view,
                   dict(expected=len(exp_rows), got=len(user),
                        expected_bounds=sorted((r[0], r[1]) for r in exp_rows)[:12],
                        got_bounds=sorted((r[0], r[1]) for r in user)[:12]))
    c.hit("c06/user-rows", len(user))
    # ---- model
    lines.append(wire_case(dt, uvs))
    pend.append((view, user, fs))


def finish_model(c, lines, pend):
    outs = c.model(lines)
    if outs is None:
        return
    for (view, user, fs), mo in zip(pend, outs):
        if mo == "raise" or not isinstance(mo, dict):
            c.disagree("model rejects an instance the code accepts", view, mo, None)
            continue
        if not all(same(a, b, exact=False, rtol=1e-9, atol=1e-9) for a, b in zip(mo["f"], fs)):
            c.disagree("objective", view, mo["f"][:4], fs[:4])
        nrow = len(mo["lbg"])
        from .common import unfr

        rows = [[float(unfr(mo["lbg"][r])), float(unfr(mo["ubg"][r]))] + [float(unfr(g[r])) for g in mo["g"]]
                for r in range(nrow)]
        if not match_rows(rows, user):
            c.disagree("user rows with bounds", view, dict(n=nrow, lbg=mo["lbg"], ubg=mo["ubg"]),
                       dict(n=len(user), bounds=[(u[0], u[1]) for u in user]))


def stream_main(c, N):
    lines, pend = [], []
    for _ in range(N):
        dt = gen_case(c.rng, poly=c.rng.random() < 0.3)
        run_case(c, dt, lines, pend)
    finish_model(c, lines, pend)


def change_between_runs(rng, dt):
    """new data for the SAME instance (in place: the problem object reads these lists): the parameter p2
    (user functions only; the DAE functions are cached between runs by design, so DAE parameters are
    left alone unless declared dynamic), constant inputs, probabilities"""
    E = dt["E"]
    before = dict(p2=[row[2] for row in dt["pvals"]], probs=list(dt["probs"]),
                  cin={k: [list(v) for v in per] for k, per in dt["cin"].items()})
    col = [row[2] for row in dt["pvals"]]
    const = all(v == col[0] for v in col)
    # the classification constant / per-member is kept: the cached DAE function takes the per-member
    # parameters as an argument of fixed size, and a change of that size between two runs makes the second
    # transcribe() fail with a CasADi dimension error (a crash, observed on the unchanged tree)
    if const:
        new = [rng.choice([v for v in [0.0, 1.0, 1.5, 2.0, -1.0, 3.25, 0.5] if v != col[0]])] * E
    else:
        shift = rng.choice([1.0, -0.5, 2.0])
        new = [v + shift for v in col]
    for m in range(E):
        dt["pvals"][m][2] = new[m]
    for name, per in dt["cin"].items():
        if rng.random() < 0.5:
            for m in range(E):
                per[m][:] = [pick_val(rng) for _ in per[m]]
    if rng.random() < 0.3:
        for m in range(E):
            dt["probs"][m] = rng.choice([0.125, 0.25, 0.5, 1.0, 0.375])
    return before


def stream_rerun(c, N):
    """history dimension: transcribe() twice on one instance with a data change in between; the second
    transcription is compared with the documented problem / the model at the NEW data"""
    rng = c.rng
    cls = syn_class(())
    lines, pend = [], []
    for _ in range(N):
        dt = gen_case(rng, poly=rng.random() < 0.2)
        # make p2 visible in the user functions of every instance
        if dt["pobj"] is None:
            dt["pobj"] = []
        dt["pobj"] = list(dt["pobj"]) + [(rng.choice([1.0, -2.0, 0.5]), ("p2", "x0")), (1.0, ("p2",))]
        if dt["pcs"]:
            dt["pcs"][0]["exprs"][0] = list(dt["pcs"][0]["exprs"][0]) + [(rng.choice([1.0, -1.0]), ("p2",))]
        if rng.random() < 0.6:  # the seeded case: constant across the ensemble in the first run
            v = pick_val(rng)
            for m in range(dt["E"]):
                dt["pvals"][m][2] = v
        s = case_spec(dt)
        pr = cls(spec=s)
        r = call(lambda: Transcription(pr))
        if r[0] == "raise":
            c.fail("transcribe raised on a valid instance: " + r[1], dict(stream="c06-rerun", case=dt))
            continue
        before = change_between_runs(rng, dt)
        run_case(c, dt, lines, pend, pr=pr, s=s, before=before)
    finish_model(c, lines, pend)


def stream_malformed(c):
    """shape mismatch between a vector constraint and its bound is rejected (model and code)"""
    rng = c.rng
    lines, expect = [], []
    cls = syn_class(())
    for s_, blen, side in [(2, 3, "lb"), (3, 2, "ub"), (2, 2, "lb"), (3, 1, "ub"), (2, 4, "ub")]:
        dt = gen_case(rng, poly=False)
        dt["pcs"] = []
        b = ("vec", [-1.0] * blen) if side == "lb" else ("vec", [1.0] * blen)
        other = ("sc", 1.0) if side == "lb" else ("sc", -1.0)
        pt = dict(s=s_, exprs=[[(1.0, (("at", "x0", 0),))] for _ in range(s_)],
                  lb=b if side == "lb" else other, ub=b if side == "ub" else other)
        dt["pts"] = [[pt] for _ in range(dt["E"])]
        r = call(lambda: Transcription(cls(spec=case_spec(dt))))
        bad = blen not in (1, s_)
        c.count(("c06-malformed", s_, blen, side))
        c.hit("c06/point-shape-" + ("mismatch" if bad else "ok"))
        if bad and r[0] != "raise":
            c.fail("shape mismatch between a vector constraint and its bound is accepted", dict(s=s_, blen=blen))
        if not bad and r[0] == "raise":
            c.fail("valid vector bound rejected: " + r[1], dict(s=s_, blen=blen))
        uv = [[dict(J=0.0, jp=[0.0] * len(dt["ts"]) if dt["pobj"] is not None else None,
                    G=[[] for _ in dt["ts"]], pt=[[0.0] * s_]) for _ in range(dt["E"])]]
        lines.append(wire_case(dt, uv))
        expect.append((r[0], s_, blen))
    # path constraints: array bound that cannot be broadcast
    for s_, blen in [(2, 3), (1, 2), (2, 2)]:
        dt = gen_case(rng, poly=False)
        dt["pts"] = [[] for _ in range(dt["E"])]
        dt["pcs"] = [dict(s=s_, exprs=[[(1.0, ("x0",))] for _ in range(s_)],
                          bnds=[(("vec", [-1.0] * blen), ("sc", 5.0)) for _ in range(dt["E"])])]
        r = call(lambda: Transcription(cls(spec=case_spec(dt))))
        bad = blen not in (1, s_)
        c.count(("c06-malformed-path", s_, blen))
        c.hit("c06/path-shape-" + ("mismatch" if bad else "ok"))
        if bad and r[0] != "raise":
            c.fail("path-constraint bound that cannot be broadcast is accepted", dict(s=s_, blen=blen))
        uv = [[dict(J=0.0, jp=[0.0] * len(dt["ts"]) if dt["pobj"] is not None else None,
                    G=[[0.0] * s_ for _ in dt["ts"]], pt=[]) for _ in range(dt["E"])]]
        lines.append(wire_case(dt, uv))
        expect.append((r[0], s_, blen))
    outs = c.model(lines)
    if outs is not None:
        for (impl, s_, blen), mo in zip(expect, outs):
            if (mo == "raise") != (impl == "raise"):
                c.disagree("accept/reject of a bound shape", dict(s=s_, blen=blen), mo, impl)


def benign_case(rng, integrate=False):
    """an instance whose solve is harmless: boxes, convex objective through a quadratic path term.
    `integrate`: the same with integrate_states = True (single shooting), a path constraint x0 <= ub that is
    active at the last time stamp (the objective pulls x0(t_last) up), no nominals and no point terms on
    controls (state_at / extract_results are not usable with them in that mode, see the report)"""
    dt = gen_case(rng, poly=False)
    dt["pcs"] = []
    dt["pts"] = [[] for _ in range(dt["E"])]
    dt["theta"] = 1.0
    dt["pobj"] = [(1.0, ("x0", "x0")), (0.5, ("u0", "u0")), (rng.choice([1.0, -1.0, 0.5]), ("x0",)),
                  (rng.choice([1.0, 0.25]), ("c0",)), (1.0, ("p0",)), (rng.choice([1.0, -0.5]), ("p2", "x0")),
                  (1.0, ("p2",))]
    dt["obj"] = [[(2.0 + m, (("at", "x0", len(dt["ts"]) - 1),)), (0.5, (("at", "u0", 0),))] for m in range(dt["E"])]
    dt["hist"] = [dict() for _ in range(dt["E"])]
    if integrate:
        n = len(dt["ts"])
        dt["nom"] = {}
        dt["obj"] = [[(-8.0 - m, (("at", "x0", n - 1),)), (1.0, (("at", "x0", 0),))] for m in range(dt["E"])]
        dt["pcs"] = [dict(s=1, exprs=[[(1.0, ("x0",))]],
                          bnds=[(("sc", -INF), ("sc", 1.0 + 0.25 * m)) for m in range(dt["E"])])]
    s = case_spec(dt)
    s.integrate = integrate
    s.bnds.update({x: (-20.0, 20.0) for x in dt["states"] + dt["algs"]})
    return dt, s


def formula_on_results(dt, s, pr):
    """the documented objective evaluated on extract_results() of every member"""
    n = len(dt["ts"])
    f = 0.0
    for m in range(dt["E"]):
        res = pr.extract_results(m)
        traj = {k: np.asarray(res[k], dtype=float) for k in dt["states"] + dt["algs"] + dt["controls"]}
        for x in dt["states"]:
            traj["initial_der(%s)" % x] = float(np.asarray(res["initial_der(%s)" % x]).ravel()[0])
        for w, sz in dt["pathvars"]:
            v = np.asarray(res[w], dtype=float)
            traj[w] = v.reshape((n, sz)) if v.ndim == 1 else v
        for e, sz in dt["extravars"]:
            traj[e] = np.asarray(res[e], dtype=float).reshape(-1)
        envs = [env_at(s, traj, m, i) for i in range(n)]
        fm = eval_point(dt["obj"][m], s, traj, m) + sum(eval_path(dt["pobj"], e) for e in envs)
        f += dt["probs"][m] * fm
    return f


def readback(c, pr, dt, s, label, view):
    """`objective_value` must be the transcribed objective at the returned point (`solver_output`), which
    is the documented formula on `extract_results()` -- after a successful AND after an unsuccessful solve"""
    import casadi as ca

    r = call(lambda: float(pr.objective_value))
    if r[0] == "raise":
        c.fail("objective_value cannot be read after %s: %s" % (label, r[1]), view)
        return
    ov = r[1]
    nlp = pr.transcribed_problem["nlp"]
    f_at = float(ca.Function("f", [nlp["x"]], [nlp["f"]])(pr.solver_output))
    f_doc = formula_on_results(dt, s, pr)
    st = call(lambda: pr.solver_stats)
    status = str((st[1] or {}).get("return_status", "")) if st[0] == "ok" else "?"
    if "unsuccessful" in label and (status == "Invalid_Number_Detected" or not np.isfinite(f_at)):
        # IPOPT gave up because the NLP functions are not a number at some point: it then reports f = 0 without
        # having evaluated the objective at the point it returns, i.e. the solver contract this oracle relies on
        # ("the returned f is the NLP objective at the returned x") does not apply to that outcome
        c.hit("c06/readback-skipped-solver-invalid-number")
        return
    if not close(f_at, ov, rtol=1e-7, atol=1e-7):
        c.fail("objective_value is not the transcribed objective at the returned point (%s)" % label, view,
               dict(objective_value=ov, f_at_solver_output=f_at, formula_on_results=f_doc, return_status=status))
    elif not close(f_doc, ov, rtol=1e-6, atol=1e-6):
        c.fail("objective_value differs from the documented formula on extract_results() (%s)" % label, view,
               dict(objective_value=ov, formula_on_results=f_doc))
    if dt["pcs"] and "unsuccessful" not in label:
        bad = path_constraints_on_results(dt, s, pr)
        if bad:
            c.fail("a path constraint does not hold at every collocation time on the returned trajectories (%s)" % label,
                   view, bad[:4])


def path_constraints_on_results(dt, s, pr, tol=1e-5):
    """(member, time index, row, value, lb, ub) wherever lb <= Gpath(env m i) <= ub fails on extract_results()"""
    n = len(dt["ts"])
    bad = []
    for m in range(dt["E"]):
        res = pr.extract_results(m)
        traj = {k: np.asarray(res[k], dtype=float) for k in dt["states"] + dt["algs"] + dt["controls"]}
        for x in dt["states"]:
            traj["initial_der(%s)" % x] = float(np.asarray(res["initial_der(%s)" % x]).ravel()[0])
        for w, sz in dt["pathvars"]:
            v = np.asarray(res[w], dtype=float)
            traj[w] = v.reshape((n, sz)) if v.ndim == 1 else v
        for e, sz in dt["extravars"]:
            traj[e] = np.asarray(res[e], dtype=float).reshape(-1)
        for i, t in enumerate(dt["ts"]):
            env = env_at(s, traj, m, i)
            for pc in dt["pcs"]:
                lb, ub = pc["bnds"][m]
                for r, ex in enumerate(pc["exprs"]):
                    v = eval_path(ex, env)
                    lo, hi = bound_at(lb, r, t, True), bound_at(ub, r, t, False)
                    if v < lo - tol * max(1.0, abs(lo)) or v > hi + tol * max(1.0, abs(hi)):
                        bad.append((m, i, r, v, lo, hi))
    return bad


def stream_solve(c, N):
    """`objective_value` after a real solve vs the documented formula on `extract_results()`"""
    rng = c.rng
    cls = syn_class(())
    done = 0
    tries = 0
    while done < N and tries < 4 * N:
        tries += 1
        integrate = tries % 2 == 0
        dt, s = benign_case(rng, integrate)
        pr = cls(spec=s)
        with quiet_fd():
            r = call(pr.optimize)
        if r[0] == "raise" or not r[1]:
            c.hit("c06/solve-not-converged" + ("-integrate" if integrate else ""))
            continue
        done += 1
        c.count(("c06-solve", dt["E"], len(dt["ts"]), tuple(dt["probs"]), integrate))
        c.hit("c06/solved" + ("-integrate_states" if integrate else ""))
        readback(c, pr, dt, s, "a successful solve" + (", integrate_states" if integrate else ""),
                 dict(stream="c06-solve", integrate_states=integrate, case=dt))


def stream_resolve(c, N):
    """two real solves on ONE object with a data change in between, one of them made unsuccessful by an
    iteration limit (both orders): after each solve the value read back must belong to THAT solve"""
    rng = c.rng
    cls = syn_class(())
    for q in range(N):
        integrate = q % 4 >= 2
        dt, s = benign_case(rng, integrate)
        order = "success-then-failure" if q % 2 == 0 else "failure-then-success"
        if integrate:
            order += ", integrate_states"
            c.hit("c06/resolve-integrate_states")
        pr = cls(spec=s)
        outcomes = []
        for step in (0, 1):
            limited = (step == 1) == order.startswith("success-then-failure")
            s.ipopt = {"max_iter": rng.choice([0, 1, 1, 2])} if limited else None
            if step == 1:
                before = change_between_runs(rng, dt)
            with quiet_fd():
                r = call(pr.optimize)
            view = dict(stream="c06-resolve", order=order, step=step, case=copy.deepcopy(dt))
            if step == 1:
                view["first_solve_with"] = before
            if r[0] == "raise":
                c.fail("optimize() raised on a benign instance: " + r[1], view)
                break
            outcomes.append(bool(r[1]))
            c.hit("c06/resolve-%s-%s" % ("limited" if limited else "free", "ok" if r[1] else "unsuccessful"))
            readback(c, pr, dt, s, "%s, solve %d (%s)" % (order, step + 1, "successful" if r[1] else "unsuccessful"), view)
        c.count(("c06-resolve", order, tuple(outcomes), dt["E"], len(dt["ts"])))


def probe_f6(c):
    """known candidate F6: a parameter-dependent (symbolic) path-constraint bound"""
    cls = syn_class(())
    reproduced = []
    for E in (1, 2):
        dt = gen_case(c.rng, poly=False)
        dt["E"] = E
        for k in ("pvals", "hist", "probs", "obj", "pts"):
            dt[k] = (dt[k] * E)[:E]
        for k in dt["cin"]:
            dt["cin"][k] = (dt["cin"][k] * E)[:E]
        dt["pcs"] = []
        s = case_spec(dt)
        s.path_constraints = lambda m: [([[(1.0, ("x0",))]], -INF, (lambda pr: 2 * pr._sym["p0"]))]
        r = call(lambda: Transcription(cls(spec=s)))
        reproduced.append(r[0] == "raise" and "NotImplementedError" in r[1])
        c.count(("c06-f6", E))
    c.hit("c06/F6-probe-" + ("raises" if all(reproduced) else "works"))
    c.known_probe("F6", all(reproduced),
                  "a symbolic (parameter-dependent) path-constraint bound raises NotImplementedError in ca.substitute "
                  "(collocated_integrated_optimization_problem.py:1950-1966), E = 1 and E = 2")
    return all(reproduced)


def run(c):
    warnings.filterwarnings("ignore")
    c.rule = (
        "random synthetic problems: 2-5 non-equidistant stamps, t0 in {0,3,-2.5}, E 1-4 with non-uniform "
        "probabilities, 1-2 states, algebraic, 1-2 controls, DAE + extra constant inputs, parameters with "
        "coincidences/0/1, 0-3 path variables (size 1-3, often a vector one first; nominals per variable or per "
        "component), extra variable, nominals, theta in {1, 0.5}; random affine "
        "(70%) / polynomial objective, path objective, 0-3 path constraints (size 1-2; scalar, +-inf, vector, "
        "one-element vector, 1-D / 2-D Timeseries on own stamps -> fills; member specific) and 0-3 point "
        "constraints per member (size 1-3); re-run stream: transcribe() twice on one instance with a change of a "
        "user-function parameter (constant across the ensemble or not), constant inputs and probabilities in "
        "between, second transcription compared at the new data; re-solve stream: two real solves on one object, "
        "one made unsuccessful by an iteration limit (both orders), objective_value read back after each; distinct = (E, n, poly, bound kinds, #constraints, variable kinds)"
    )
    c.assumptions = [
        "CasADi evaluates Function/map/substitute/jacobian as documented; IPOPT returns the objective at its point "
        "(also after an iteration limit; not when it stops with Invalid_Number_Detected / the objective is not a "
        "number at the returned point: it then reports f = 0 unevaluated, those unsuccessful solves are skipped "
        "by the read-back oracle and counted)",
        "user-function values (J, Jpath, Gpath, Gpoint at the environment of a time stamp) are computed by the "
        "harness on trajectories decoded through state_vector(); how the environment is built is C01/C15",
        "path objective is scalar and path-constraint expressions/sizes are those of member 0 (documented "
        "assumption of the code); Timeseries bound values are finite",
        "source translation (harness/translate_c06.py): the read-back block of OptimizationProblem.optimize() is "
        "re-read on every run through the closed table in the translator's header (trusted) and proved equal to "
        "C06.readbackModel, for which `objective_value` / `solver_output` always belong to the latest solve",
        "source translation, second part (gen_user_rows -> Gen/UserRows.lean): the slices of the mapped output, the "
        "objective assembly (member loop, t0 term, probability), the point-constraint broadcasting loop and the "
        "path-constraint bound block (per kind of bound: scalar / ndarray / 1-D / 2-D Timeseries) of transcribe() are "
        "re-read on every run through the closed table of the translator (trusted) into NumPy / CasADi-level "
        "primitives (np.full, np.broadcast_to, transpose, block assignment, ravel, ca.vec of a slice; "
        "`self.interpolate(..).transpose()` of a Timeseries bound is one table entry read as column-wise 1-D "
        "interpolation, its interior is C19's) and proved equal to fMember / objectiveCode / pointRows / pathRows / "
        "memberRows and, through the property theorems, to the documented objective and rows; symbolic "
        "(parameter-dependent) bounds are outside (F6)",
        "model precondition: the bound of a scalar (size 1) point constraint is a scalar or a one-element array; "
        "transcribe() does not shape-check longer arrays there (the solver call then fails on the length of lbg: a "
        "late crash, not a wrong answer)",
    ]
    c.prove(extra=gen_readback(c) + gen_user_rows(c))
    stream_malformed(c)
    probe_f6(c)
    stream_main(c, c.n(120, 2500))
    stream_rerun(c, c.n(40, 500))
    with warnings.catch_warnings():
        warnings.simplefilter("ignore")
        stream_solve(c, c.n(12, 100))
        stream_resolve(c, c.n(12, 100))
    c.exhaustive = False
    c.notes.append(
        "user rows are isolated as the multiset difference between the full transcription and the transcription of "
        "the same problem without user functions; affine instances are compared completely (probes 0, e_1..e_N "
        "determine (A, b) of f and of every row), polynomial ones at 5 random probes; F6 (symbolic path-constraint "
        "bounds) is probed separately and kept out of the main stream."
    )


def replay(c, rp):
    """re-run the generator stream of the recorded seed and tier (instances derive from the seed only)"""
    import random

    for f in (rp.get("failures", []) + rp.get("correspondence_disagreements", []))[:5]:
        print("replaying:", f.get("what"))
    c.seed = rp.get("seed", c.seed)
    c.tier = rp.get("tier", c.tier)
    c.rng = random.Random(c.seed * 1000003 + int(c.pid[1:]))
    run(c)
