"""
C07 — ensemble members are isolated; controls are shared exactly per scenario tree.

Proof obligations: lean/RtcVerif/Props/C07.lean (model: lean/RtcVerif/Model/C07.lean).
Correspondence (Drivers/C07.lean):
  (a) tree   — real `ControlTreeMixin` (optionally under `PlanningMixin`) on synthetic problems:
               `control_tree_branches` and the `state_vector(control, m)` index sets against the
               Lean clustering / allocator model, distance tables handed to the model as data;
  (b) flat   — default sharing and `PlanningMixin` index sets against the allocator model;
  (c) route  — parameter classification: the effective parameter values recovered from the real
               (A, b) of affine instances against `effParam`;
  (d) isolation — pairs of real transcriptions that differ only in ANOTHER member's data;
  (e) code level — the reference definitions of `discretize_control` + base member loop (Model/C07Code.lean, what
               harness/translate_c07.py regenerates from the source) executed on the REAL branch dictionary in its
               dictionary order: absolute index values, running count, order hypothesis (`ChainOf`);
  (f) accessors — every member's objective / constraints refer to the controls through state_at(); oracle: the NLP
               objective gradient, the member cap rows and direct state_at / control_at / der_at calls (members in a
               generated order) are built on the member's OWN control entries.
Independent oracle: the sharing predicates of the property evaluated directly on the real index
sets / branch dictionary, and the metamorphic isolation comparison itself.
"""
import copy
import itertools
import math
import warnings
from fractions import Fraction

import numpy as np

from .c07_synth import Spec, Transcription, syn_class
from .common import fr, quiet_fd
from .translate_c07 import gen_alloc, gen_cluster

INF = float("inf")


def call(fn, *a, **k):
    try:
        return ("ok", fn(*a, **k))
    except Exception as e:  # the implementation rejects the input
        return ("raise", type(e).__name__ + ": " + str(e)[:200])


# ---------------------------------------------------------------------------------------------
# (a) control tree


def gen_grid(rng, nmin=3, nmax=7):
    n = rng.randint(nmin, nmax)
    t0 = rng.choice([0.0, 3.0, -2.5])
    steps = [rng.choice([0.5, 1.0, 2.0, 0.25]) for _ in range(n - 1)]
    ts = [t0]
    for s in steps:
        ts.append(ts[-1] + s)
    return ts


def gen_tree_case(c, rational):
    rng = c.rng
    ts = gen_grid(rng)
    n = len(ts)
    E = rng.choice([1, 2, 2, 3, 3, 4, 4, 5, 6])
    k = rng.choice([1, 2, 2, 2, 3, 3, 4])
    # branching times: subset of the grid (sometimes t0 itself, sometimes off-grid values)
    nb = rng.randint(0, n - 1)
    pool = list(ts[1:])
    bts = sorted(rng.sample(pool, min(nb, len(pool))))
    if bts and rng.random() < 0.15:
        bts[0] = ts[0]  # branching at t0: nothing is shared
    if bts and rng.random() < 0.2:
        j = rng.randrange(len(bts))
        bts[j] = bts[j] - 0.125  # off-grid branching time
        bts = sorted(bts)
    # forecast variables
    nv = rng.choice([1, 1, 2, 3])
    names = ["c%d" % j for j in range(nv)]
    hist_pts = rng.choice([0, 0, 1, 2])  # forecast series may start before t0
    cin_times = [ts[0] - (hist_pts - j) * 0.5 for j in range(hist_pts)] + list(ts)
    BT = [ts[0]] + list(bts) + [INF]
    seg_of = lambda t: max([L for L in range(len(BT) - 1) if BT[L] <= t] or [-1])  # noqa: E731
    nct = len(cin_times)
    cin = {}
    for v in names:
        if rational:
            base = [float(rng.randint(-3, 3)) for _ in range(nct)]
            # members differ from the base at one position per segment only -> norms are |diff|
            pos = {}
            for j, t in enumerate(cin_times):
                pos.setdefault(seg_of(t), []).append(j)
            pick = {L: rng.choice(js) for L, js in pos.items()}
            per = []
            for m in range(E):
                vals = list(base)
                for L, j in pick.items():
                    vals[j] = base[j] + rng.choice([0, 0, 1, 2, -1, 3, 5, 0.5, -2.5])
                per.append(vals)
        else:
            per = [[rng.choice([round(rng.uniform(-4, 4), 3), 0.0, 1.0]) for _ in range(nct)] for _ in range(E)]
        cin[v] = per
    # forced coincidences: copy another member's forecast up to a cut (all variables)
    for m in range(1, E):
        if rng.random() < 0.5:
            j = rng.randrange(m)
            cut = rng.randint(0, nct)
            for v in names:
                cin[v][m][:cut] = cin[v][j][:cut]
    use = names if rng.random() < 0.7 else rng.sample(names, rng.randint(1, nv))
    use = [v for v in names if v in use]
    # controls
    nu = rng.choice([1, 1, 2, 3])
    controls = ["u%d" % j for j in range(nu)]
    ctimes = {}
    if n >= 4 and rng.random() < 0.25:
        keep = [0] + sorted(rng.sample(range(1, n - 1), rng.randint(1, n - 2))) + [n - 1]
        ctimes[controls[-1]] = [ts[j] for j in keep]
    planning = None
    mixins = ("tree",)
    if rng.random() < 0.25:
        mixins = ("planning", "tree")
        planning = [u for u in controls if rng.random() < 0.6]
    case = dict(ts=ts, E=E, k=k, bts=bts, names=names, use=use, cin_times=cin_times, cin=cin,
                controls=controls, ctimes=ctimes, planning=planning, mixins=mixins, rational=rational)
    return case


def gen_tree_case_adv(c):
    """tree instances aimed at the representative bookkeeping: more distinct forecast patterns than k
    at a node, identical members far apart in index, high-index members with extreme forecasts (they
    become the cluster seeds while lower-index members join their branches), several branching
    times, at least two forecast samples per window"""
    rng = c.rng
    nb = rng.choice([2, 2, 3])
    per = rng.choice([2, 2, 3])  # samples per window (>= 2: the distances are genuine 2-norms)
    n = 1 + per * (nb + 1)
    t0 = rng.choice([0.0, 3.0, -2.5])
    ts = [t0 + 0.5 * i for i in range(n)]
    bts = [ts[1 + per * j] for j in range(nb)]
    E = rng.choice([5, 6, 6, 7, 8])
    k = rng.choice([2, 2, 2, 3])
    names = ["c0"] + (["c1"] if rng.random() < 0.3 else [])
    cin = {}
    # a planted configuration in window `gw`: members x < a < c < b < y with levels lo, la, lc, la, hi
    # (la - lo < hi - la, hi - lc < lc - lo, lc - la < la - lo): x and y are the seeds, a joins x's
    # branch, c joins y's branch, and b -- identical to a -- must follow a although c is closer to it
    # than the seed x; the five members are identical in the windows before `gw`
    gw = 1 if rng.random() < 0.7 else 2
    gx, ga, gc, gb, gy = sorted(rng.sample(range(E), 5))
    hi = rng.choice([10.0, 20.0, 30.0])
    lo, la, lc = 0.0, 4 * hi / 10, 7 * hi / 10
    if rng.random() < 0.3:  # mirrored
        lo, la, lc, hi = hi, 6 * hi / 10, 3 * hi / 10, 0.0
    gadget = {gx: lo, ga: la, gc: lc, gb: la, gy: hi}
    for v in names:
        per_member = [[float(rng.randint(-1, 1))] for _ in range(E)]
        for w in range(nb + 1):
            width = per if w < nb else n - 1 - per * nb
            base = [float(rng.randint(-2, 2)) for _ in range(width)]
            if w == gw:
                pick = [gadget.get(m, rng.choice([lo, la, lc])) for m in range(E)]
            else:
                q = rng.randint(k + 1, k + 3)
                levels = sorted(rng.sample([0.0, 2.0, 3.0, 4.0, 5.0, 6.0, 7.0, 8.0, 9.0, 10.0, 12.0, 15.0], q))
                pick = [rng.choice(levels) for _ in range(E)]
                if w < gw:
                    for m in gadget:
                        pick[m] = pick[gx]
                elif rng.random() < 0.7:
                    pick[gb] = pick[ga]  # keep the identical pair identical a little longer
            for m in range(E):
                per_member[m] = per_member[m] + [b + pick[m] for b in base]
        cin[v] = [pm[:n] for pm in per_member]
    # forced coincidences of other members: copy a prefix
    for _ in range(rng.randint(0, 2)):
        a2 = rng.randrange(0, E - 1)
        b2 = rng.randrange(a2 + 1, E)
        if b2 in gadget or a2 in gadget:
            continue
        cut = rng.randint(1, n)
        for v in names:
            cin[v][b2][:cut] = cin[v][a2][:cut]
    nu = rng.choice([1, 2])
    controls = ["u%d" % j for j in range(nu)]
    return dict(ts=ts, E=E, k=k, bts=bts, names=names, use=list(names), cin_times=list(ts), cin=cin,
                controls=controls, ctimes={}, planning=None, mixins=("tree",), rational=False)


# ---------------------------------------------------------------------------------------------
# controls referred to through the accessors (state_at / control_at / der_at) by every member


def ctrl_ref_weight(m, ui, i):
    """member-specific weight of control `ui` at time index `i` in member m's objective"""
    return (m + 1) + 0.25 * (ui + 1) + 0.0625 * (i + 1)


def ctrl_ref_cap(m):
    """member-specific upper limit on the final control value (an unusual number: finds the row)"""
    return 1.5137 - 0.75 * m


def ctrl_ref_times(n):
    """time indices (into times()) at which member objectives refer to the controls"""
    return sorted({n - 1, n // 2, 1 if n > 1 else 0})


def add_control_refs(spec, controls, n):
    """every member's objective and constraints refer to the control inputs through state_at() with its own member
    index: objective(m) = sum w(m, u, i) * u(t_i), constraints(m) = [u(t_final) <= cap(m) for the first control]"""
    sel = ctrl_ref_times(n)

    def objective(m):
        return [(ctrl_ref_weight(m, ui, i), (("at", u, i),)) for ui, u in enumerate(controls) for i in sel]

    def constraints(m):
        return [([[(1.0, (("at", controls[0], n - 1),))]], -INF, ctrl_ref_cap(m))] if controls else []

    spec.objective = objective
    spec.constraints = constraints
    return spec


def interp_weights(t, stamps):
    """weights of the linear interpolation at `t` over `stamps` (constant extrapolation)"""
    stamps = list(stamps)
    w = [0.0] * len(stamps)
    if t <= stamps[0]:
        w[0] = 1.0
    elif t >= stamps[-1]:
        w[-1] = 1.0
    else:
        for j in range(len(stamps) - 1):
            if stamps[j] <= t <= stamps[j + 1]:
                a = (t - stamps[j]) / (stamps[j + 1] - stamps[j])
                w[j], w[j + 1] = 1.0 - a, a
                break
    return w


def accessor_oracle(c, tag, view, tr, controls, ctimes, ts, E, idx, rng):
    """ISOLATION THROUGH THE ACCESSORS: whatever member m's objective / constraints / goals obtain from state_at(),
    control_at() or der_at() for a control input must be built on member m's OWN control entries (the index sets of
    state_vector(control, m)), also when the same (variable, time) was looked up for another member before.
    (1) the NLP objective of the real transcription: its gradient is the sum of the members' weights on their own entries;
    (2) the member caps: the constraint row with member m's bound refers to member m's final control entry;
    (3) direct calls after the transcription, members visited in a generated order."""
    import casadi as ca

    pr = tr.pr
    n = len(ts)
    N = tr.N
    own = {(ui, m): list(idx[ui][m]) for ui in range(len(controls)) for m in range(E)}
    stamps = {ui: list(ctimes.get(u, ts)) for ui, u in enumerate(controls)}
    nom = {ui: float(pr.variable_nominal(u)) for ui, u in enumerate(controls)}
    # (1) objective gradient
    af = tr.affine_f()
    if af is None:
        c.fail("objective referring to controls through state_at() is not affine in the decision vector", view)
    else:
        grad = af[0]
        want = np.zeros(N)
        for m in range(E):
            pm = float(pr.ensemble_member_probability(m))
            for ui in range(len(controls)):
                for i in ctrl_ref_times(n):
                    for j, wj in enumerate(interp_weights(ts[i], stamps[ui])):
                        if wj:
                            want[own[(ui, m)][j]] += pm * ctrl_ref_weight(m, ui, i) * wj * nom[ui]
        if np.max(np.abs(grad - want)) > 1e-9:
            bad = int(np.argmax(np.abs(grad - want)))
            c.fail("objective: a member's state_at(control) is not built on that member's own control entry", view,
                   dict(entry=bad, got=float(grad[bad]), want=float(want[bad])))
        else:
            c.hit(tag + "/accessor/objective-own-entries")
    # (2) member caps
    if controls:
        rows = tr.g_sparsity_rows()
        for m in range(E):
            cand = [r for r in range(tr.ng) if abs(tr.ubg[r] - ctrl_ref_cap(m)) < 1e-12 and tr.lbg[r] == -INF]
            if len(cand) != 1:
                c.fail("constraint of member %d (cap on the final control) not found exactly once in g" % m, view, cand)
                continue
            if rows[cand[0]] != {own[(0, m)][-1]}:
                c.fail("constraints(%d): state_at(control, tf, ensemble_member=%d) is not member %d's own control entry"
                       % (m, m, m), view, dict(row=cand[0], columns=sorted(rows[cand[0]]), own=own[(0, m)][-1]))
            else:
                c.hit(tag + "/accessor/constraint-own-entry")
    # (3) direct calls, members in a generated order, times on and off the control stamps
    order = list(range(E))
    mode = rng.choice(["ascending", "descending", "shuffled"])
    if mode == "descending":
        order.reverse()
    elif mode == "shuffled":
        rng.shuffle(order)
    probes = []
    for ui, u in enumerate(controls[:2]):
        cand_t = [ts[0], ts[-1], ts[n // 2], 0.5 * (ts[0] + ts[1]), 0.5 * (ts[-2] + ts[-1])]
        for t in cand_t[:4]:
            for m in order:
                for kind in ("state_at", "control_at", "state_at/scaled", "der_at"):
                    probes.append((ui, u, t, m, kind))
    exprs = []
    for ui, u, t, m, kind in probes:
        if kind == "state_at":
            e = call(pr.state_at, u, t, ensemble_member=m)
        elif kind == "control_at":
            e = call(pr.control_at, u, t, ensemble_member=m)
        elif kind == "state_at/scaled":
            e = call(pr.state_at, u, t, ensemble_member=m, scaled=True)
        else:
            e = call(pr.der_at, u, t, ensemble_member=m)
        if e[0] == "raise":
            c.fail("%s(control) raised after a transcription: %s" % (kind, e[1]), view, dict(control=u, t=t, member=m))
            return
        exprs.append(ca.MX(e[1]))
    if not exprs:
        return
    stack = ca.vertcat(*exprs)
    sp = ca.jacobian(stack, tr.X).sparsity()
    deps = [set() for _ in exprs]
    r_, c_ = sp.get_triplet()
    for a, b in zip(r_, c_):
        deps[a].add(b)
    Xr = np.array([rng.uniform(-3.0, 3.0) for _ in range(N)])
    vals = np.array(ca.Function("acc", [tr.X], [stack])(Xr)).ravel()
    for q, (ui, u, t, m, kind) in enumerate(probes):
        mine = set(own[(ui, m)])
        if not deps[q] <= mine:
            c.fail("%s(control, t, ensemble_member=m) depends on control entries that are not member m's" % kind, view,
                   dict(control=u, t=t, member=m, order=order, foreign=sorted(deps[q] - mine)[:5]))
            return
        if kind != "der_at":
            wv = sum(wj * Xr[own[(ui, m)][j]] for j, wj in enumerate(interp_weights(t, stamps[ui])))
            if kind != "state_at/scaled":
                wv *= nom[ui]
            if abs(vals[q] - wv) > 1e-9 * max(1.0, abs(wv)):
                c.fail("%s(control, t, ensemble_member=m) is not the interpolation of member m's control entries" % kind, view,
                       dict(control=u, t=t, member=m, got=float(vals[q]), want=float(wv)))
                return
    c.hit(tag + "/accessor/direct-calls-own-entries")
    c.hit(tag + "/accessor/order-" + mode)


def tree_spec(case):
    controls = case["controls"]
    s = Spec(
        times=case["ts"], states=["x0"], controls=controls, cinputs=case["names"], E=case["E"],
        pvals=[[] for _ in range(case["E"])], cin_times=case["cin_times"], cin=case["cin"],
        ctimes=case["ctimes"], planning=case["planning"],
        eqs=[[(1.0, ("der(x0)",))] + [(-1.0, (u,)) for u in controls] + [(-1.0, (v,)) for v in case["names"]]],
        bnds={u: (-10.0, 10.0) for u in controls},
        tree=dict(forecast_variables=list(case["use"]), branching_times=list(case["bts"]), k=case["k"]),
    )
    return add_control_refs(s, controls, len(case["ts"]))


def dist_tables(case):
    """distance table per branching level, the way the property describes it:
    d_L(a, b) = sum over forecast variables of || f_a - f_b ||_2 on [BT[L+1], BT[L+2]).
    returns (tables as wire rationals, exact?)"""
    BT = [case["ts"][0]] + list(case["bts"]) + [INF]
    E = case["E"]
    ct = case["cin_times"]
    tabs = []
    for L in range(len(case["bts"])):
        lo, hi = BT[L + 1], BT[L + 2]
        els = [j for j, t in enumerate(ct) if lo <= t < hi]
        tab = [[None] * E for _ in range(E)]
        for a in range(E):
            for b in range(E):
                if case["rational"]:
                    tot = Fraction(0)
                    for v in case["use"]:
                        sq = sum((Fraction(case["cin"][v][a][j]) - Fraction(case["cin"][v][b][j])) ** 2 for j in els)
                        r = Fraction(math.isqrt(sq.numerator), math.isqrt(sq.denominator))
                        assert r * r == sq, "generator must give rational norms"
                        tot += r
                    tab[a][b] = tot
                else:
                    tot = 0.0
                    for v in case["use"]:
                        va = np.array([case["cin"][v][a][j] for j in els], dtype=float)
                        vb = np.array([case["cin"][v][b][j] for j in els], dtype=float)
                        tot += np.linalg.norm(va - vb)
                    tab[a][b] = Fraction(float(tot))
        tabs.append(tab)
    return tabs


def near_tie(tabs, tol=1e-9):
    """float stream: two different entries of one table closer than tol (relative) but not equal"""
    for tab in tabs:
        vals = sorted({float(x) for row in tab for x in row})
        for a, b in zip(vals, vals[1:]):
            if b - a <= tol * max(1.0, abs(b)):
                return True
    return False


def check_float_table(case, tabs):
    """the float table against an independent high-precision evaluation of the documented formula"""
    from decimal import Decimal, getcontext

    getcontext().prec = 50
    BT = [case["ts"][0]] + list(case["bts"]) + [INF]
    ct = case["cin_times"]
    for L, tab in enumerate(tabs):
        els = [j for j, t in enumerate(ct) if BT[L + 1] <= t < BT[L + 2]]
        for a in range(case["E"]):
            for b in range(case["E"]):
                tot = Decimal(0)
                for v in case["use"]:
                    sq = sum((Fraction(case["cin"][v][a][j]) - Fraction(case["cin"][v][b][j])) ** 2 for j in els)
                    tot += (Decimal(sq.numerator) / Decimal(sq.denominator)).sqrt()
                if abs(float(tot) - float(tab[a][b])) > 1e-12 * max(1.0, float(tot)):
                    return False
    return True


def level_of(bts, t):
    return sum(1 for b in bts if b <= t)


def canon_pattern(idx):
    """relabel indices by first occurrence over (variable, member, position): the partition of the
    control entries into shared decision variables, independent of the absolute layout"""
    lab = {}
    out = []
    for perv in idx:
        ov = []
        for perm in perv:
            om = []
            for x in perm:
                if x not in lab:
                    lab[x] = len(lab)
                om.append(lab[x])
            ov.append(om)
        out.append(ov)
    return out, len(lab)


def tree_oracle(c, case, branches, idx, N):
    """the sharing predicates of the property, evaluated on the real outputs only"""
    E, k, bts, ts = case["E"], case["k"], case["bts"], case["ts"]
    nb = len(bts)
    what = []
    # partition / at most k children
    for b, mem in branches.items():
        if len(b) < nb and len(mem) > 0:
            kids = [branches.get(b + (i,)) for i in range(k)]
            if any(kd is None for kd in kids):
                what.append(("child missing", b))
                continue
            if any((b + (i,)) in branches for i in range(k, k + 3)):
                what.append(("more than k children", b))
            allk = sorted(sum(kids, []))
            if allk != sorted(mem):
                what.append(("children do not partition the parent", b, kids, mem))
    if sorted(branches.get((), [])) != list(range(E)):
        what.append(("root is not the whole ensemble",))

    def branch_at(m, L):
        cands = [b for b, mem in branches.items() if len(b) == L and m in mem]
        return cands[0] if len(cands) == 1 else ("ambiguous", tuple(cands))

    tree_vars = [vi for vi, u in enumerate(case["controls"])
                 if case["planning"] is None or u in case["planning"]]
    for vi, u in enumerate(case["controls"]):
        uts = case["ctimes"].get(u, ts)
        for m in range(E):
            if len(idx[vi][m]) != len(uts) or any(not (0 <= x < N) for x in idx[vi][m]):
                what.append(("index array shape/range", u, m))
        if vi not in tree_vars:
            # non-planning variable under PlanningMixin: disjoint per member
            for m1, m2 in itertools.combinations(range(E), 2):
                if set(idx[vi][m1]) & set(idx[vi][m2]):
                    what.append(("non-planning control shared", u, m1, m2))
            continue
        for m1, m2 in itertools.combinations(range(E), 2):
            shared_prev = True
            for i, t in enumerate(uts):
                L = level_of(bts, t)
                share = idx[vi][m1][i] == idx[vi][m2][i]
                same = branch_at(m1, L) == branch_at(m2, L)
                if share != same:
                    what.append(("share != same branch", u, m1, m2, i))
                if share and not shared_prev:
                    what.append(("re-merge after split", u, m1, m2, i))
                if bts and t < bts[0] and not share:
                    what.append(("not shared before the first branching time", u, m1, m2, i))
                shared_prev = share
            # forecasts that coincide up to a branching time: not separated before it
            BT = [ts[0]] + list(bts) + [INF]
            jmax = 0
            for L in range(1, nb + 1):
                els = [j for j, t in enumerate(case["cin_times"]) if BT[L] <= t < BT[L + 1]]
                if all(case["cin"][v][m1][j] == case["cin"][v][m2][j] for v in case["use"] for j in els):
                    jmax = L
                else:
                    break
            for i, t in enumerate(uts):
                if t < BT[jmax + 1] and idx[vi][m1][i] != idx[vi][m2][i]:
                    what.append(("coinciding forecasts separated early", u, m1, m2, i, jmax))
    # different control variables / different positions never share an entry
    seen = {}
    for vi in range(len(idx)):
        for m in range(E):
            for i, x in enumerate(idx[vi][m]):
                if seen.setdefault(x, (vi, i)) != (vi, i):
                    what.append(("entry shared across variables or times", vi, m, i))
    return what


def stream_tree(c, N, rational, adversarial=False):
    rng = c.rng
    cases, lines = [], []
    for _ in range(N):
        for _try in range(20):
            case = gen_tree_case_adv(c) if adversarial else gen_tree_case(c, rational)
            tabs = dist_tables(case)
            if rational or not near_tie(tabs):
                break
        case["tabs"] = tabs
        if not rational and not check_float_table(case, tabs):
            c.broken.append(("harness distance table", "float table differs from the high-precision formula"))
        cases.append(case)
        ts = case["ts"]
        ctl = []
        for u in case["controls"]:
            pol = "tree" if (case["planning"] is None or u in case["planning"]) else "per"
            ctl.append({"ts": [fr(t) for t in case["ctimes"].get(u, ts)], "pol": pol})
        lines.append(dict(op="layout", tree=True, E=case["E"], k=case["k"], t0=fr(ts[0]),
                          bts=[fr(b) for b in case["bts"]], ntimes=len(ts),
                          dist=[[[fr(x) for x in row] for row in tab] for tab in tabs], ctrl=ctl))
    outs = c.model(lines)
    pending = []
    for q, case in enumerate(cases):
        s = tree_spec(case)
        cls = syn_class(case["mixins"])
        rerun = case["E"] >= 2 and case["bts"] and (q % 5 in (1, 3))
        if rerun:
            # history dimension: the SAME object is transcribed first with forecasts that separate every member in
            # every window (a fully branched tree), then with the case's forecasts; the second tree and sharing
            # pattern must be those of the current forecasts only (no node may survive from the first run)
            first = {v: [[x + 13.0 * (m + 1) + 0.5 * ((j * (m + 2)) % 3) for j, x in enumerate(row)]
                         for m, row in enumerate(per)] for v, per in case["cin"].items()}
            s.cin = first
            pr = cls(spec=s)
            r0 = call(lambda: Transcription(pr))
            s.cin = case["cin"]
            r = call(lambda: Transcription(pr)) if r0[0] == "ok" else r0
            c.hit("tree/second-run-of-one-object")
        else:
            r = call(lambda: Transcription(cls(spec=s)))
        tag = "tree/" + ("adversarial" if adversarial else "rational" if rational else "float")
        c.hit(tag)
        c.hit("tree/E=%d" % case["E"])
        c.hit("tree/k=%d" % case["k"])
        c.hit("tree/nb=%d" % len(case["bts"]))
        if case["planning"] is not None:
            c.hit("tree/with-planning")
        if case["ctimes"]:
            c.hit("tree/control-own-times")
        view = {kk: case[kk] for kk in ("ts", "E", "k", "bts", "use", "cin_times", "cin", "controls", "ctimes", "planning")}
        if rerun:
            view["second_run_after_forecasts"] = first
        c.sample({"stream": tag, **view}, limit=3)
        if r[0] == "raise":
            c.fail("transcribe with ControlTreeMixin raised on a valid instance: " + r[1], view)
            continue
        tr = r[1]
        branches = {tuple(b): list(mem) for b, mem in tr.pr.control_tree_branches.items()}
        idx = [[tr.idx(u, m) for m in range(case["E"])] for u in case["controls"]]
        nontrivial = len({tuple(sorted(mem)) for mem in branches.values() if mem})
        c.count(("tree", tag, case["E"], case["k"], len(case["bts"]), nontrivial, len(case["controls"]),
                 case["planning"] is not None))
        c.programs += 1
        if nontrivial > 1:
            c.hit("tree/branched")
        bad = tree_oracle(c, case, branches, idx, tr.N)
        if bad:
            c.fail("control tree sharing predicate violated: %s" % (bad[0][0],), view, bad[:5])
        accessor_oracle(c, "tree", view, tr, case["controls"], case["ctimes"], case["ts"], case["E"], idx, rng)
        if outs is None:
            continue
        mo = outs[q]
        if mo == "raise" or not isinstance(mo, dict):
            c.disagree("control tree: model rejects, code accepts", view, mo, None)
            continue
        canon_code = sorted((len(b), tuple(sorted(mem))) for b, mem in branches.items() if mem)
        canon_model = sorted((len(b), tuple(sorted(mem))) for b, mem in mo["branches"] if mem)
        if canon_code != canon_model:
            c.disagree("control_tree_branches", view, canon_model, canon_code)
        strict_code = {b: sorted(mem) for b, mem in branches.items()}
        strict_model = {tuple(b): sorted(mem) for b, mem in mo["branches"]}
        c.hit("tree/strict-dict-equal" if strict_code == strict_model else "tree/strict-dict-differs")
        pc, nc = canon_pattern(idx)
        pm, nm = canon_pattern(mo["idx"])
        if pc != pm:
            c.disagree("control index sharing pattern", view, pm, pc)
        else:
            c.hit("tree/index-values-equal" if idx == mo["idx"] else "tree/index-values-differ")
        # size of the control part of the decision vector (no orphan entries): N minus the entries of
        # the non-control variables, all recovered through state_vector()
        state_entries = set()
        for m in range(case["E"]):
            for v in ("x0", "initial_der(x0)"):
                state_entries.update(tr.idx(v, m))
        if tr.N - len(state_entries) != mo["count"]:
            c.disagree("number of control entries", view, mo["count"], tr.N - len(state_entries))
        pending.append((lines[q], view, branches, idx, tr.N - len(state_entries)))
    # code-level tie: the reference definitions of discretize_control + the base member loop (Model/C07Code.lean, what
    # the translator regenerates from the source and the theorems of Gen/ControlTreeAlloc.lean are about) are executed
    # on the REAL dictionary in its dictionary order; absolute index values and the count must be the code's, and the
    # dictionary order must satisfy the hypothesis of those theorems (a member's branches come in increasing depth)
    if pending:
        lines2 = [dict(op="codeloop", E=ln["E"], k=ln["k"], t0=ln["t0"], bts=ln["bts"], dist=ln["dist"], ctrl=ln["ctrl"],
                       brs=[[list(b), list(mem)] for b, mem in br.items()]) for ln, _, br, _, _ in pending]
        outs2 = c.model(lines2)
        for (ln, view, br, idx, ncontrol), mo2 in zip(pending, outs2 or []):
            if not isinstance(mo2, dict):
                c.disagree("code-level model of discretize_control rejects the real dictionary", view, mo2, None)
                continue
            if not mo2["chain"]:
                c.disagree("dictionary order of control_tree_branches: a member's branches are not the model's chain in "
                           "increasing depth", view, None, [[list(b), list(mem)] for b, mem in br.items()])
            if mo2["idx"] != idx:
                c.disagree("control index values (code-level model of discretize_control vs state_vector)", view, mo2["idx"], idx)
            else:
                c.hit("tree/code-level-index-values-equal")
            if mo2["count"] != ncontrol:
                c.disagree("running count of discretize_controls (code-level model)", view, mo2["count"], ncontrol)


def stream_tree_malformed(c):
    """rejected inputs: k = 0, too many branching times"""
    cases, lines = [], []
    for (k, nbt, n) in [(0, 1, 3), (0, 0, 3), (2, 3, 3), (2, 2, 3), (1, 4, 4), (0, 2, 4)]:
        ts = [float(i) for i in range(n)]
        bts = (ts[1:] + [ts[-1] + 1.0, ts[-1] + 2.0])[:nbt]
        case = dict(ts=ts, E=2, k=k, bts=bts, names=["c0"], use=["c0"], cin_times=ts,
                    cin={"c0": [[0.0] * n, [1.0] * n]}, controls=["u0"], ctimes={}, planning=None,
                    mixins=("tree",), rational=False)
        cases.append(case)
        tabs = dist_tables(case)
        lines.append(dict(op="layout", tree=True, E=2, k=k, t0=fr(ts[0]), bts=[fr(b) for b in bts], ntimes=n,
                          dist=[[[fr(x) for x in row] for row in tab] for tab in tabs],
                          ctrl=[{"ts": [fr(t) for t in ts], "pol": "tree"}]))
    outs = c.model(lines)
    for q, case in enumerate(cases):
        r = call(lambda: Transcription(syn_class(("tree",))(spec=tree_spec(case))))
        c.count(("tree-malformed", case["k"], len(case["bts"]), len(case["ts"])))
        c.hit("tree/malformed/" + r[0])
        if outs is None:
            continue
        if (outs[q] == "raise") != (r[0] == "raise"):
            c.disagree("control tree accept/reject", {kk: case[kk] for kk in ("ts", "k", "bts")}, outs[q], r[0])


def stream_int16(c):
    """F10: the tree stores control indices as int16; more than 32767 entries are rejected with
    OverflowError (an explicit precondition of `indices_in_range`), up to there they are exact"""
    cases, lines = [], []
    for n, bts in [(16384, [1.0]), (16385, [2.0]), (16385, [1.0])]:  # counts 32767, 32768, 32769
        ts = [float(i) for i in range(n)]
        case = dict(ts=ts, E=2, k=2, bts=bts, names=["c0"], use=["c0"], cin_times=[0.0, 1.0, 2.0],
                    cin={"c0": [[0.0, 0.0, 0.0], [0.0, 1.0, 1.0]]}, controls=["u0"], ctimes={}, planning=None,
                    mixins=("tree",), rational=True)
        cases.append(case)
        tabs = [[[Fraction(0), Fraction(1)], [Fraction(1), Fraction(0)]]]
        lines.append(dict(op="layout", tree=True, idx=False, E=2, k=2, t0=fr(0.0), bts=[fr(b) for b in bts],
                          ntimes=n, dist=[[[fr(x) for x in row] for row in tab] for tab in tabs],
                          ctrl=[{"ts": [fr(t) for t in ts], "pol": "tree"}]))
    outs = c.model(lines)
    for q, case in enumerate(cases):
        s = Spec(times=case["ts"], states=[], controls=["u0"], cinputs=["c0"], E=2, pvals=[[], []],
                 cin_times=case["cin_times"], cin=case["cin"], eqs=[], bnds={"u0": (-1.0, 1.0)},
                 tree=dict(forecast_variables=["c0"], branching_times=list(case["bts"]), k=2))
        r = call(lambda: Transcription(syn_class(("tree",))(spec=s)))
        c.count(("int16", len(case["ts"]), tuple(case["bts"])))
        kind = "raise" if r[0] == "raise" else "ok"
        c.hit("int16/" + kind)
        if r[0] == "raise" and "OverflowError" not in r[1]:
            c.fail("ControlTreeMixin raised something else than the int16 overflow: " + r[1],
                   dict(n=len(case["ts"]), bts=case["bts"]))
        if r[0] == "ok":
            tr = r[1]
            i0, i1 = tr.idx("u0", 0), tr.idx("u0", 1)
            L = [level_of(case["bts"], t) for t in case["ts"]]
            if any((a == b) != (lv == 0) for a, b, lv in zip(i0, i1, L)) or len(set(i0) | set(i1)) != tr.N:
                c.fail("large control tree: sharing pattern wrong (index wrap-around?)",
                       dict(n=len(case["ts"]), bts=case["bts"]))
        if outs is not None:
            mo = outs[q]
            if (mo == "raise") != (r[0] == "raise"):
                c.disagree("int16 precondition: accept/reject", dict(n=len(case["ts"]), bts=case["bts"]), mo, r[0])
            elif mo != "raise" and mo["count"] != r[1].N:
                c.disagree("int16 precondition: count", dict(n=len(case["ts"]), bts=case["bts"]), mo["count"], r[1].N)


# ---------------------------------------------------------------------------------------------
# (b) default sharing / planning


def stream_flat(c, N):
    rng = c.rng
    cases, lines = [], []
    for _ in range(N):
        ts = gen_grid(rng, 2, 6)
        E = rng.randint(1, 5)
        nu = rng.randint(1, 3)
        controls = ["u%d" % j for j in range(nu)]
        mode = rng.choice(["default", "planning", "planning"])
        planning = None if mode == "default" else [u for u in controls if rng.random() < 0.5]
        ctimes = {}
        if len(ts) >= 4 and rng.random() < 0.3:
            ctimes[controls[0]] = [ts[0]] + sorted(rng.sample(ts[1:-1], rng.randint(1, len(ts) - 2))) + [ts[-1]]
        case = dict(ts=ts, E=E, controls=controls, planning=planning, ctimes=ctimes)
        cases.append(case)
        ctl = [{"ts": [fr(t) for t in ctimes.get(u, ts)],
                "pol": "shared" if (planning is None or u in planning) else "per"} for u in controls]
        lines.append(dict(op="layout", tree=False, E=E, ctrl=ctl))
    outs = c.model(lines)
    for q, case in enumerate(cases):
        E, controls, planning, ts = case["E"], case["controls"], case["planning"], case["ts"]
        s = Spec(times=ts, states=["x0"], controls=controls, E=E, pvals=[[] for _ in range(E)],
                 ctimes=case["ctimes"], planning=planning,
                 eqs=[[(1.0, ("der(x0)",))] + [(-1.0, (u,)) for u in controls]],
                 bnds={u: (-10.0, 10.0) for u in controls})
        add_control_refs(s, controls, len(ts))
        cls = syn_class(() if planning is None else ("planning",))
        r = call(lambda: Transcription(cls(spec=s)))
        c.count(("flat", E, len(controls), None if planning is None else len(planning), bool(case["ctimes"])))
        c.hit("flat/default" if planning is None else "flat/planning")
        if r[0] == "raise":
            c.fail("transcribe raised on a valid instance: " + r[1], case)
            continue
        tr = r[1]
        idx = [[tr.idx(u, m) for m in range(E)] for u in controls]
        # oracle
        for vi, u in enumerate(controls):
            shared = planning is None or u in planning
            for m1, m2 in itertools.combinations(range(E), 2):
                if shared and idx[vi][m1] != idx[vi][m2]:
                    c.fail("control %s is not shared by all members" % u, case, idx[vi])
                if not shared and set(idx[vi][m1]) & set(idx[vi][m2]):
                    c.fail("non-planning control %s shares entries between members" % u, case, idx[vi])
            for m in range(E):
                if len(set(idx[vi][m])) != len(case["ctimes"].get(u, ts)):
                    c.fail("control %s: entries of one member not distinct per time" % u, case, idx[vi])
        flat = [x for perv in idx for perm in perv for x in perm]
        for vi, vj in itertools.combinations(range(len(controls)), 2):
            if {x for perm in idx[vi] for x in perm} & {x for perm in idx[vj] for x in perm}:
                c.fail("two control variables share entries", case, idx)
        if flat and (min(flat) < 0 or max(flat) >= tr.N):
            c.fail("control index out of range", case, idx)
        accessor_oracle(c, "flat", case, tr, controls, case["ctimes"], ts, E, idx, rng)
        if outs is None:
            continue
        mo = outs[q]
        pc, nc = canon_pattern(idx)
        pm, nm = canon_pattern(mo["idx"]) if isinstance(mo, dict) else (None, None)
        if pc != pm:
            c.disagree("default/planning control index pattern", case, mo, idx)
        else:
            c.hit("flat/index-values-equal" if idx == mo["idx"] else "flat/index-values-differ")


def run(c):
    c.rule = (
        "tree: random grids (3-7 stamps, t0 in {0,3,-2.5}), E 1-6, k 1-4, 0..n-1 branching times (on grid, "
        "at t0, off grid), 1-3 forecast variables (subset used), forecasts with forced common prefixes, "
        "1-3 controls (own coarser times, PlanningMixin on top); rational stream = distances exact, "
        "float stream = 2-norm tables computed by the harness (near-ties avoided); distinct = (stream, E, k, "
        "#branching times, #distinct non-empty member sets, #controls, planning) tuples; isolation: per parameter "
        "the member values are exact coincidences (incl. 0, 1), NEAR coincidences (relative 1e-6..1e-5, absolute "
        "~1e-8), tiny magnitudes (1e-9..1e-7, witness coefficient scaled by 2^27..2^33) or mixtures of exact and "
        "near coincidences; two fifths of the tree instances are the SECOND transcription of one object whose first "
        "run had fully separated forecasts; adversarial tree stream: a planted configuration x < a < c < b < y (b identical to a, "
        "c closer to a than a's seed x, seeds at the extreme indices) with more patterns than k, 2-3 branching "
        "times, 2-3 forecast samples per window; perturbations move one member towards / away from exact and near coincidences; "
        "accessors: in every tree / flat / planning instance each member's objective is a member-specific weighted sum of "
        "state_at(control, t_i, ensemble_member=m) (last, middle, second stamp; controls with own coarser stamps are "
        "interpolated) and member m caps its final control; after the transcription state_at / control_at / scaled / der_at "
        "are called for every member in ascending, descending or shuffled order at stamps and between stamps"
    )
    c.assumptions = [
        "the distance table of a level is data of the model: sum over forecast variables of the 2-norm of the "
        "forecast difference on [BT[L+1], BT[L+2]) (harness-side; exact in the rational stream, binary64 in the "
        "float stream where it is cross-checked against a 50-digit evaluation)",
        "CPython iterates a set of small non-negative ints in ascending order (member order inside a child list; "
        "only relevant for ties between different members)",
        "np.argmax returns the first maximal index; NumPy >= 2 raises OverflowError on int16 overflow (F10)",
        "source translation (harness/translate_c07.py): the table in its header maps the Python / NumPy constructs of "
        "branch() to model terms (trusted); first seed, score array + stop rule and the allocation scan are proved equal "
        "to the model's selectReps / moreReps / nearestRep on every run, the loop skeleton around them is matched "
        "structurally only",
        "source translation, second module (Gen/ControlTreeAlloc.lean): distance fill over an abstract norm (np.linalg.norm "
        "is a parameter `norm2`; that the per-variable distance is a pseudo-metric is a hypothesis of "
        "identical_forecasts_not_separated), discretize_control of the tree (boolean-mask writes, block cache), base "
        "discretize_control + member loop, index dtype, per-member accessors inside the member loops of transcribe(), "
        "symbol-cache key of state_at(); trusted: the construct table, NumPy boolean-mask assignment / np.max / "
        "list(range) semantics as modelled by writeMask / readMask / foldl max / List.range', dict iteration = insertion "
        "order (the order hypothesis ChainOf is checked on every real dictionary), distinct key tuples render as "
        "distinct cache-key strings; transcribe() member loops: only the listed accessor kinds are scanned, "
        "comprehension-level uses and the deliberate member-0 parameter values for symbolic bounds are outside",
    ]
    warnings.filterwarnings("ignore")
    c.prove(extra=gen_cluster(c) + gen_alloc(c))
    stream_tree_malformed(c)
    stream_int16(c)
    stream_flat(c, c.n(40, 600))
    stream_tree(c, c.n(100, 2500), rational=True)
    stream_tree(c, c.n(60, 1500), rational=False)
    stream_tree(c, c.n(40, 600), rational=False, adversarial=True)
    stream_isolation(c, c.n(60, 1000))
    c.exhaustive = False
    c.notes.append(
        "tree/flat streams compare the real control_tree_branches and state_vector() index sets with the Lean "
        "clustering + allocator model (partition of the control entries, number of control entries; the absolute "
        "index values are reported in the distribution only); the isolation stream is metamorphic on pairs of real "
        "transcriptions (rows/bounds/seed/objective gradient of every untouched member identical) and reads the "
        "effective parameter values off the real (A, b) for the routing model; the unbounded claims are the theorems. "
        "The int16 precondition (F10) is probed at 32767 / 32768 / 32769 control entries (accept, accept, "
        "OverflowError). Code-level tie: the translated definitions of discretize_control and of the base member loop are run by "
        "the Lean driver on the real dictionary (dictionary order) and must give the code's absolute index values and count. "
        "Accessor stream: objective gradient / member cap rows of the real NLP and direct accessor calls must refer to the "
        "member's own control entries. Not exercised: dynamic parameters, per-member history of a SHARED control (one decision "
        "variable for all members by design), the t0 derivative of an algebraic variable taken from the member's history "
        "(transcribe(), first member loop: covered by the generated obligation memberUsesGen_own only)."
    )


# ---------------------------------------------------------------------------------------------
# (c) + (d) isolation: pairs of real transcriptions differing only in another member's data

VALS = [0.0, 1.0, 2.0, 0.5, -1.0, 3.25, -0.75, 4.0]


def pick_val(rng):
    return rng.choice([0.0, 1.0]) if rng.random() < 0.25 else rng.choice(VALS)


def gen_member_values(rng, E, n, gen):
    """n values per member with forced coincidences between members"""
    mode = rng.choice(["equal", "some", "distinct"])
    rows = [[gen() for _ in range(n)] for _ in range(E)]
    if mode == "equal":
        rows = [list(rows[0]) for _ in range(E)]
    elif mode == "some":
        for m in range(1, E):
            if rng.random() < 0.5:
                rows[m] = list(rows[rng.randrange(m)])
    return rows


TINY = [1e-9, 3e-9, 2e-9, 8e-9, 2e-8, 5e-8, 1e-7, 0.0]
REL = [0.0, 1e-6, 2e-6, 5e-6, 1e-5, -3e-6, -1e-5]
ABS = [0.0, 1e-8, 2e-8, -1e-8, 5e-9]


def near_of(rng, v):
    """a value that nearly coincides with v: relative 1e-6..1e-5, absolute ~1e-8, or v itself"""
    k = rng.choice(["rel", "abs", "same"])
    if k == "rel" and v != 0.0:
        return v * (1.0 + rng.choice(REL))
    if k == "same":
        return v
    return v + rng.choice(ABS)


def gen_param_column(rng, E):
    """values of ONE parameter for all members and the witness scale (a power of two, so that the
    scaled coefficient is exact): exact coincidences, near coincidences, tiny magnitudes, mixtures"""
    mode = rng.choice(["exact", "exact", "near", "near", "tiny", "tiny", "mixed"])
    scale = 1.0
    if mode == "exact":
        col = [r[0] for r in gen_member_values(rng, E, 1, lambda: pick_val(rng))]
    elif mode == "near":
        base = rng.choice([v for v in VALS if v != 0.0])
        col = [near_of(rng, base) for _ in range(E)]
    elif mode == "tiny":
        col = [rng.choice(TINY) for _ in range(E)]
        scale = float(2 ** rng.choice([27, 30, 33]))  # large coefficient: effect far above any tolerance
    else:  # exact and near coincidences of different members in one column
        base = rng.choice([v for v in VALS if v != 0.0])
        col = [rng.choice([base, base, near_of(rng, base), pick_val(rng)]) for _ in range(E)]
    return col, mode, scale


def gen_iso_data(rng, poly):
    ts = gen_grid(rng, 2, 5)
    n = len(ts)
    E = rng.choice([2, 2, 3, 3, 4])
    nx = rng.choice([1, 1, 2])
    npar = rng.choice([1, 2, 3])
    nc = rng.choice([1, 2])
    nu = rng.choice([1, 2])
    states = ["x%d" % j for j in range(nx)]
    algs = ["y%d" % i for i in range(npar)]  # one witness per parameter: y_i = p_i * x0 + p_i
    controls = ["u%d" % j for j in range(nu)]
    cinputs = ["c%d" % j for j in range(nc)]
    params = ["p%d" % i for i in range(npar)]
    d = lambda: rng.choice([1.0, -1.0, 2.0, 0.5, -0.25, 3.0])  # noqa: E731
    eqs = []
    for j, x in enumerate(states):
        row = [(1.0, ("der(%s)" % x,)), (1.0, (params[j % npar], x)), (-1.0, (controls[j % nu],)),
               (-d(), (cinputs[j % nc],))]
        if rng.random() < 0.5:
            row.append((d(), (params[rng.randrange(npar)], cinputs[rng.randrange(nc)])))
        if rng.random() < 0.5:
            row.append((d(), (rng.choice(states),)))
        if rng.random() < 0.4:
            row.append((d(), (params[rng.randrange(npar)], rng.choice(controls))))
        if rng.random() < 0.3:
            row.append((d(), ("time",)))
        if poly:
            row.append((d(), (x, rng.choice(states + controls))))
        eqs.append(row)
    for i, y in enumerate(algs):
        eqs.append(None)  # witness rows, filled in below once the scales are known
    cols = [gen_param_column(rng, E) for _ in range(npar)]
    pvals = [[cols[i][0][m] for i in range(npar)] for m in range(E)]
    pmodes = [cols[i][1] for i in range(npar)]
    wscale = [cols[i][2] for i in range(npar)]
    eqs = [e for e in eqs if e is not None]
    for i, y in enumerate(algs):  # y_i = K_i p_i x0 + K_i p_i
        eqs.append([(1.0, (y,)), (-wscale[i], (params[i], "x0")), (-wscale[i], (params[i],))])
    hist_pts = rng.choice([0, 1, 2])
    cin_times = [ts[0] - (hist_pts - j) * 0.5 for j in range(hist_pts)] + list(ts)
    cin = {}
    for cn in cinputs:
        per = gen_member_values(rng, E, len(cin_times), lambda: pick_val(rng))
        cin[cn] = per
    # history (states and algebraics only: a shared control has one entry for all members)
    hist = []
    hmode = rng.choice(["none", "t0", "two", "two-nan"])
    hvals = gen_member_values(rng, E, nx * 2, lambda: pick_val(rng))
    for m in range(E):
        h = {}
        for j, x in enumerate(states):
            if hmode == "t0":
                h[x] = ([ts[0]], [hvals[m][2 * j]])
            elif hmode == "two":
                h[x] = ([ts[0] - 0.5, ts[0]], [hvals[m][2 * j + 1], hvals[m][2 * j]])
            elif hmode == "two-nan":
                h[x] = ([ts[0] - 0.5, ts[0]], [hvals[m][2 * j + 1], float("nan")])
        hist.append(h)
    dvars, delays = [], []
    if rng.random() < 0.35:
        # one delayed feedback yd = delay(2 x0 + b c0 + 5, tau): its history rows need the member's own
        # pre-t0 constant inputs and state history (stamps t0-1, t0-0.5 before t0, tau <= 1 so that the
        # history is complete and used)
        hist_pts = 2
        cin_times = [ts[0] - 1.0, ts[0] - 0.5] + list(ts)
        for cn in cinputs:
            cin[cn] = gen_member_values(rng, E, len(cin_times), lambda: pick_val(rng))
        hv = gen_member_values(rng, E, nx * 3, lambda: pick_val(rng))
        hist = [{x: ([ts[0] - 1.0, ts[0] - 0.5, ts[0]], hv[m][3 * j:3 * j + 3]) for j, x in enumerate(states)}
                for m in range(E)]
        dvars = ["yd"]
        delays = [([(2.0, ("x0",)), (rng.choice([1.0, -1.0, 0.5]), (cinputs[0],)), (5.0, ())], "yd",
                   rng.choice([0.25, 0.5, 0.75, 1.0]))]
    nom = {}
    if rng.random() < 0.5:
        for v in states[1:] + controls:
            nom[v] = rng.choice([1.0, 10.0, 0.01, 4.0])
    probs = [rng.choice([0.125, 0.25, 0.5, 1.0, 0.375]) for _ in range(E)]
    # user functions (member specific bounds / expressions)
    pobj = [(d(), ("x0",)), (d(), (controls[0],)), (d(), ("der(x0)",)), (d(), (params[0],)),
            (d(), (cinputs[0], "x0"))]
    if poly:
        pobj.append((d(), ("x0", "x0")))
    obj = [[(7.0, (("at", "x0", n - 1),)), (d(), (("at", controls[0], rng.randrange(n)),)),
            (d(), (("par", params[0]), ("at", states[-1], rng.randrange(n))))] for m in range(E)]
    pc_rows = [[(1.0, ("x0",)), (1.0, (controls[0],))], [(1.0, (algs[0],)), (2.0, (states[-1],)), (d(), (params[-1],))]]
    pcb = gen_member_values(rng, E, 4, lambda: pick_val(rng))
    pc_kind = rng.choice(["scalar", "ts"])
    pc_ts = gen_member_values(rng, E, n, lambda: pick_val(rng))
    ptb = gen_member_values(rng, E, 2, lambda: pick_val(rng))
    return dict(ts=ts, E=E, states=states, algs=algs, controls=controls, cinputs=cinputs, params=params,
                eqs=eqs, pvals=pvals, cin_times=cin_times, cin=cin, hist=hist, nom=nom, probs=probs,
                pobj=pobj, obj=obj, pc_rows=pc_rows, pcb=pcb, pc_kind=pc_kind, pc_ts=pc_ts, ptb=ptb,
                theta=rng.choice([1.0, 1.0, 1.0, 0.5, 0.0]), poly=poly, pmodes=pmodes, wscale=wscale,
                dvars=dvars, delays=delays)


def iso_spec(dt):
    n = len(dt["ts"])

    def path_constraints(m):
        lo0 = ("ts", dt["ts"], [v - 8.0 for v in dt["pc_ts"][m]]) if dt["pc_kind"] == "ts" else dt["pcb"][m][0] - 8.0
        return [([dt["pc_rows"][0]], lo0, dt["pcb"][m][1] + 8.0),
                ([dt["pc_rows"][1]], dt["pcb"][m][2] - 8.0, dt["pcb"][m][3] + 8.0)]

    def constraints(m):
        return [([[(1.0, (("at", "x0", 0),)), (-1.0 * m, ())]], dt["ptb"][m][0] - 5.0, dt["ptb"][m][1] + 5.0),
                ([[(1.0, (("at", dt["algs"][0], n - 1),)), (1.0, (("at", dt["controls"][0], n - 1),))]],
                 -6.0 - dt["ptb"][m][1], 6.0 + dt["ptb"][m][0])]

    return Spec(times=dt["ts"], states=dt["states"], algs=dt["algs"] + dt["dvars"], controls=dt["controls"],
                delays=dt["delays"],
                cinputs=dt["cinputs"], params=dt["params"], eqs=dt["eqs"], E=dt["E"], pvals=dt["pvals"],
                cin_times=dt["cin_times"], cin=dt["cin"], hist=dt["hist"], nom=dt["nom"], probs=dt["probs"],
                theta=dt["theta"], bnds={u: (-10.0, 10.0) for u in dt["controls"]},
                objective=lambda m: dt["obj"][m], path_objective=dt["pobj"],
                constraints=constraints, path_constraints=path_constraints)


def perturb_other(rng, dt, mstar):
    """a copy of the instance in which only member `mstar`'s data differ"""
    d2 = copy.deepcopy(dt)
    E = dt["E"]
    others = [m for m in range(E) if m != mstar]
    kinds = rng.sample(["param", "input", "history", "bounds", "prob"], rng.randint(1, 3))
    if dt["delays"] and "input" not in kinds and "history" not in kinds:
        kinds.append(rng.choice(["input", "input", "history"]))  # the delay history must see a change
    done = []
    for kind in kinds:
        if kind == "param":
            i = rng.randrange(len(dt["params"]))
            old = dt["pvals"][mstar][i]
            # move towards / away from a coincidence with another member, or to 0 / 1
            cands = [dt["pvals"][m][i] for m in others] + [0.0, 1.0, old + 1.5]
            cands += [near_of(rng, dt["pvals"][m][i]) for m in others] + [near_of(rng, old)]
            if dt["pmodes"][i] == "tiny":
                cands = [dt["pvals"][m][i] for m in others] + list(TINY)
            new = rng.choice([v for v in cands if v != old] or [old + 1.5])
            d2["pvals"][mstar][i] = new
        elif kind == "input":
            cn = dt["cinputs"][0] if dt["delays"] else rng.choice(dt["cinputs"])
            src = rng.choice(others)
            vals = list(dt["cin"][cn][src]) if rng.random() < 0.5 else [pick_val(rng) for _ in dt["cin_times"]]
            if vals == dt["cin"][cn][mstar]:
                vals = [v + 1.0 for v in vals]
            d2["cin"][cn][mstar] = vals
        elif kind == "history":
            if dt["hist"][mstar]:
                x = rng.choice(sorted(dt["hist"][mstar]))
                tsx, vs = dt["hist"][mstar][x]
                # not a uniform shift: slopes of the history change too
                d2["hist"][mstar][x] = (list(tsx), [(v + 1.0 + 0.75 * q if v == v else v) for q, v in enumerate(vs)])
            else:
                d2["hist"][mstar] = {"x0": ([dt["ts"][0]], [pick_val(rng)])}
        elif kind == "bounds":
            d2["pcb"][mstar] = [v + rng.choice([1.0, -1.0, 0.5]) for v in dt["pcb"][mstar]]
            d2["pc_ts"][mstar] = [v + 1.0 for v in dt["pc_ts"][mstar]]
            d2["ptb"][mstar] = [v + 0.5 for v in dt["ptb"][mstar]]
        elif kind == "prob":
            d2["probs"][mstar] = dt["probs"][mstar] / 2 if rng.random() < 0.5 else 1.0 - dt["probs"][mstar] / 4
        done.append(kind)
    return d2, done


def owned_columns(tr, dt, m):
    cols = set()
    for v in dt["states"] + dt["algs"] + dt["dvars"]:
        cols.update(tr.idx(v, m))
    for x in dt["states"]:
        cols.update(tr.idx("initial_der(%s)" % x, m))
    return cols


def recover_params(tr, dt, A):
    """effective value of parameter i in member m's rows, read off the witness rows
    y_i - p_i x0 - p_i = 0 of the real (A, b): at every time index (initial residual and every
    collocation step that is evaluated there)"""
    E = dt["E"]
    out = [[None] * len(dt["params"]) for _ in range(E)]
    n = len(dt["ts"])
    for m in range(E):
        for i, y in enumerate(dt["algs"]):
            yc, xc = tr.idx(y, m), tr.idx("x0", m)
            vals = set()
            for j in range(n):
                for r in range(A.shape[0]):
                    nz = set(np.nonzero(A[r])[0].tolist())
                    if yc[j] in nz and nz <= {yc[j], xc[j]} and tr.lbg[r] == 0 and tr.ubg[r] == 0:
                        vals.add(float(-A[r, xc[j]] / A[r, yc[j]] / dt["wscale"][i]) + 0.0)
            out[m][i] = sorted(vals)
    return out


def param_eq(v, p):
    """recovered effective parameter vs expected, tolerance relative to the value's own magnitude"""
    v, p = float(v), float(p)
    return abs(v - p) <= 1e-12 * abs(p)


def stream_isolation(c, N):
    import casadi as ca

    rng = c.rng
    cls = syn_class(())
    route_cases, route_lines = [], []
    for q in range(N):
        poly = rng.random() < 0.25
        dt = gen_iso_data(rng, poly)
        E = dt["E"]
        mstar = 0 if rng.random() < 0.4 else rng.randrange(E)
        if dt["delays"] and rng.random() < 0.5:
            mstar = E - 1  # stale per-member data left over from a loop is the last member's
        d2, kinds = perturb_other(rng, dt, mstar)
        view = dict(stream="isolation", changed_member=mstar, changed=kinds, base=dt, other=d2)
        r1 = call(lambda: Transcription(cls(spec=iso_spec(dt))))
        r2 = call(lambda: Transcription(cls(spec=iso_spec(d2))))
        c.count(("iso", E, len(dt["params"]), tuple(kinds), poly, dt["theta"], len(dt["states"]), tuple(dt["pmodes"]), bool(dt["delays"]),
                 tuple(tuple(dt["pvals"][m][i] == dt["pvals"][0][i] for m in range(E)) for i in range(len(dt["params"])))))
        c.programs += 1
        c.hit("iso/" + ("poly" if poly else "affine"))
        for kd in kinds:
            c.hit("iso/changed-" + kd)
        for pm in dt["pmodes"]:
            c.hit("iso/param-column-" + pm)
        if dt["delays"]:
            c.hit("iso/delayed-feedback")
        c.sample(dict(stream="isolation", changed_member=mstar, changed=kinds, E=E, pvals=dt["pvals"],
                      pvals_other=d2["pvals"], theta=dt["theta"]), limit=6)
        if r1[0] == "raise" or r2[0] == "raise":
            c.fail("transcribe raised on a valid ensemble instance: %s" % (r1[1] if r1[0] == "raise" else r2[1]), view)
            continue
        t1, t2 = r1[1], r2[1]
        if t1.N != t2.N or t1.ng != t2.ng:
            c.fail("changing one member's data changed the problem size", view, (t1.N, t2.N, t1.ng, t2.ng))
            continue
        sp1, sp2 = t1.g_sparsity_rows(), t2.g_sparsity_rows()
        own = {m: owned_columns(t1, dt, m) for m in range(E)}
        if any(own[m] != owned_columns(t2, d2, m) for m in range(E)):
            c.fail("changing one member's data changed the layout", view)
            continue
        row_owner = []
        for r in range(t1.ng):
            cols = sp1[r] | sp2[r]
            ow = [m for m in range(E) if cols & own[m]]
            row_owner.append(ow)
        if any(len(ow) > 1 for ow in row_owner):
            c.fail("a constraint row couples the private variables of two members", view,
                   [r for r, ow in enumerate(row_owner) if len(ow) > 1][:5])
            continue
        c.hit("iso/unowned-rows", sum(1 for ow in row_owner if not ow))
        aff1 = None if poly else t1.affine_g()
        aff2 = None if poly else t2.affine_g()
        if dt["delays"]:
            c.hit("iso/delay-complete-affine" if (aff1 is not None and aff2 is not None) else "iso/delay-probes-only")
        probes = [np.array([rng.choice([rng.uniform(-2, 2), 0.0, 1.0]) for _ in range(t1.N)]) for _ in range(3)]
        gv = [(t1.fg(X)[1], t2.fg(X)[1]) for X in probes]
        gradf = []
        for t in (t1, t2):
            gradf.append(ca.Function("gf", [t.X], [ca.jacobian(t.nlp["f"], t.X)]))
        for m in range(E):
            if m == mstar:
                continue
            rows = [r for r, ow in enumerate(row_owner) if ow == [m]]
            c.hit("iso/member-rows", len(rows))
            bad = None
            for r in rows:
                if not (t1.lbg[r] == t2.lbg[r] and t1.ubg[r] == t2.ubg[r]):
                    bad = ("bounds of row", r, t1.lbg[r], t2.lbg[r], t1.ubg[r], t2.ubg[r])
                    break
                if aff1 is not None and aff2 is not None:
                    if not (np.allclose(aff1[0][r], aff2[0][r], rtol=1e-9, atol=1e-12)
                            and np.isclose(aff1[1][r], aff2[1][r], rtol=1e-9, atol=1e-12)):
                        bad = ("coefficients of row", r)
                        break
                for g1, g2 in gv:
                    if not np.isclose(g1[r], g2[r], rtol=1e-9, atol=1e-10):
                        bad = ("value of row at a probe", r, float(g1[r]), float(g2[r]))
                        break
                if bad:
                    break
            cols = sorted(own[m])
            if bad is None:
                for nm, a, b in (("lbx", t1.lbx, t2.lbx), ("ubx", t1.ubx, t2.ubx), ("x0", t1.x0, t2.x0)):
                    if not np.array_equal(np.asarray(a)[cols], np.asarray(b)[cols], equal_nan=True):
                        bad = (nm + " of the member's variables",)
            if bad is None:
                for X in probes:
                    ga = np.array(gradf[0](X).full()).ravel()[cols]
                    gb = np.array(gradf[1](X).full()).ravel()[cols]
                    if not np.allclose(ga, gb, rtol=1e-9, atol=1e-12):
                        bad = ("objective gradient w.r.t. the member's variables",)
                        break
            if bad is not None:
                c.fail("member %d's NLP segment depends on member %d's data: %s differs" % (m, mstar, bad[0]),
                       view, bad)
        # (c) parameter routing, on both transcriptions
        for dd, tt, aff in ((dt, t1, aff1), (d2, t2, aff2)):
            if aff is None:
                continue
            rec = recover_params(tt, dd, aff[0])
            route_cases.append((dd, rec, view))
            route_lines.append(dict(op="route", P=[[fr(v) for v in row] for row in dd["pvals"]], dyn=[]))
            for m in range(E):
                for i in range(len(dd["params"])):
                    if not rec[m][i]:
                        c.hit("route/witness-missing")
                    elif any(not param_eq(v, dd["pvals"][m][i]) for v in rec[m][i]):
                        c.fail("member %d is transcribed with parameter %s = %r instead of its own %r"
                               % (m, dd["params"][i], rec[m][i], dd["pvals"][m][i]), view)
    outs = c.model(route_lines)
    if outs is not None:
        for (dd, rec, view), mo in zip(route_cases, outs):
            c.count(("route", tuple(map(tuple, dd["pvals"]))))
            c.hit("route/compared")
            for m in range(dd["E"]):
                for i in range(len(dd["params"])):
                    if rec[m][i] and any(not param_eq(v, Fraction(mo["eff"][m][i])) for v in rec[m][i]):
                        c.disagree("effective parameter value", dict(pvals=dd["pvals"], m=m, i=i), mo["eff"], rec)
            for i, isc in enumerate(mo["const"]):
                c.hit("route/const" if isc else "route/ensemble")


def replay(c, rp):
    """re-run the generator stream of the recorded seed and tier (instances derive from the seed only)"""
    import random

    for f in (rp.get("failures", []) + rp.get("correspondence_disagreements", []))[:5]:
        print("replaying:", f.get("what"))
    c.seed = rp.get("seed", c.seed)
    c.tier = rp.get("tier", c.tier)
    c.rng = random.Random(c.seed * 1000003 + int(c.pid[1:]))
    run(c)
