"""
Synthetic optimisation problems without Modelica (shared by the C07 and C06 checks).

A problem is described by a plain `Spec` object; `syn_class(mixins)` builds a class deriving
directly from `CollocatedIntegratedOptimizationProblem` (plus optional mixins) that serves the
spec through the documented user API only (`dae_variables`, `dae_residual`, `times`,
`parameters`, `constant_inputs`, `history`, `bounds`, `variable_nominal`, `objective`, ...).

Expressions are data, so that the same expression can be (a) turned into a CasADi MX for the
implementation and (b) evaluated in plain Python on decoded trajectories for the oracle:

  path expression  = list of (coef, (factor, ...)); a factor is a name: state / algebraic /
                     control ("x0"), derivative ("der(x0)"), constant input ("c0"), parameter
                     ("p0"), path variable component ("w0" or ("w0", j)), extra variable ("e0"),
                     extra constant input ("z0"), "time"
  point expression = list of (coef, (factor, ...)); a factor is ("at", var, time_index),
                     ("ev", name) or ("par", name)
"""
import logging
from fractions import Fraction

import numpy as np

INF = float("inf")


class Spec:
    def __init__(self, **kw):
        self.times = None
        self.states, self.algs, self.controls, self.cinputs, self.params = [], [], [], [], []
        self.eqs = []  # residual rows (path expressions)
        self.E = 1
        self.pvals = [[]]  # [m][i]
        self.cin_times = None  # time stamps of the constant input series
        self.cin = {}  # name -> [m] -> values on cin_times  (also extra constant inputs)
        self.extra_cin = []  # names of constant inputs that are not DAE inputs
        self.hist = None  # [m] -> {name: (times, values)}
        self.bnds = {}  # name -> (lo, hi)
        self.nom = {}  # name -> float
        self.probs = None
        self.pathvars = []  # (name, size)
        self.extravars = []  # (name, size)
        self.ctimes = {}  # control name -> own time stamps
        self.theta = 1.0
        self.objective = None  # m -> point expression
        self.path_objective = None  # path expression (one for all members)
        self.constraints = None  # m -> list of (list of point expressions, lb, ub)
        self.path_constraints = None  # m -> list of (list of path expressions, lb, ub)
        self.tree = None  # dict(forecast_variables, branching_times, k)
        self.planning = None  # list of planning variables
        self.interp = {}  # name -> interpolation mode
        self.dynpar = []  # names of dynamic parameters
        self.integrate = False  # integrate_states = True (single shooting through the embedded root finder)
        self.ipopt = None  # extra IPOPT options (e.g. {"max_iter": 1} to force an unsuccessful solve)
        self.delays = []  # (path expression, delayed variable name, duration): y = delay(expr, tau)
        self.__dict__.update(kw)


def _sym_factor(pr, f):
    if isinstance(f, tuple):
        return pr._sym[f[0]][f[1]]
    if f in pr._sym:
        return pr._sym[f]
    if f.startswith("der("):
        return pr.der(f[4:-1])  # derivative symbol of an algebraic variable or a control
    return pr.variable(f)  # extra constant input: its symbol is created by transcribe()


def path_mx(pr, expr):
    import casadi as ca

    out = ca.MX(0)
    for coef, factors in expr:
        term = ca.MX(float(coef))
        for f in factors:
            term = term * _sym_factor(pr, f)
        out = out + term
    return out


def point_mx(pr, expr, m):
    import casadi as ca

    out = ca.MX(0)
    for coef, factors in expr:
        term = ca.MX(float(coef))
        for f in factors:
            if f[0] == "at":
                term = term * pr.state_at(f[1], pr.times()[f[2]], ensemble_member=m)
            elif f[0] == "ev":
                term = term * pr.extra_variable(f[1], m)
            elif f[0] == "par":
                term = term * float(pr.parameters(m)[f[1]])
            else:
                raise ValueError(f)
        out = out + term
    return out


def bound_obj(b):
    """spec bound -> object handed to rtc-tools: float | np.ndarray | Timeseries"""
    from rtctools.optimization.timeseries import Timeseries

    if isinstance(b, tuple) and b and b[0] == "ts":
        return Timeseries(np.array(b[1], dtype=float), np.array(b[2], dtype=float))
    if isinstance(b, tuple) and b and b[0] == "ts2":  # 2-D values given per column
        return Timeseries(np.array(b[1], dtype=float), np.array(b[2], dtype=float).T)
    if isinstance(b, tuple) and b and b[0] == "sc":
        return b[1]
    if isinstance(b, tuple) and b and b[0] == "vec":
        return np.array(b[1], dtype=float)
    if isinstance(b, (list, np.ndarray)):
        return np.array(b, dtype=float)
    return b


_CLASS_CACHE = {}


def syn_class(mixins=()):
    key = tuple(mixins)
    if key in _CLASS_CACHE:
        return _CLASS_CACHE[key]
    import casadi as ca
    from pymoca.backends.casadi.alias_relation import AliasRelation
    from rtctools._internal.alias_tools import AliasDict
    from rtctools.optimization.collocated_integrated_optimization_problem import (
        CollocatedIntegratedOptimizationProblem,
    )
    from rtctools.optimization.timeseries import Timeseries

    logging.getLogger("rtctools").setLevel(logging.CRITICAL)
    mix = []
    for name in mixins:
        if name == "tree":
            from rtctools.optimization.control_tree_mixin import ControlTreeMixin

            mix.append(ControlTreeMixin)
        elif name == "planning":
            from rtctools.optimization.planning_mixin import PlanningMixin

            mix.append(PlanningMixin)
        else:
            raise ValueError(name)

    class Syn(*mix, CollocatedIntegratedOptimizationProblem):
        def __init__(self, spec=None, **kw):
            s = self.s = spec
            self._t = np.array(s.times, dtype=float)
            sym = self._sym = {}
            for n in s.states + s.algs + s.controls + s.cinputs + s.params:
                sym[n] = ca.MX.sym(n)
            for n in s.states:
                sym["der(%s)" % n] = ca.MX.sym("der(%s)" % n)
            sym["time"] = ca.MX.sym("time")
            self._pv = [ca.MX.sym(n, sz) for n, sz in s.pathvars]
            self._ev = [ca.MX.sym(n, sz) for n, sz in s.extravars]
            for (n, _), v in zip(s.pathvars, self._pv):
                sym[n] = v
            for (n, _), v in zip(s.extravars, self._ev):
                sym[n] = v
            self._mx = dict(
                time=[sym["time"]],
                states=[sym[n] for n in s.states],
                derivatives=[sym["der(%s)" % n] for n in s.states],
                algebraics=[sym[n] for n in s.algs],
                control_inputs=[sym[n] for n in s.controls],
                constant_inputs=[sym[n] for n in s.cinputs],
                parameters=[sym[n] for n in s.params],
                lookup_tables=[],
            )
            self._ar = AliasRelation()
            self.planning_variables = list(s.planning or [])
            super().__init__(**kw)
            # algebraic/control derivative symbols exist only after __init__ of the base class
            self._res = None

        # -- model ---------------------------------------------------------------------------
        @property
        def dae_variables(self):
            return self._mx

        @property
        def dae_residual(self):
            if self._res is None:
                rows = [path_mx(self, e) for e in self.s.eqs]
                self._res = ca.vertcat(*rows) if rows else ca.MX()
            return self._res

        @property
        def initial_residual(self):
            return ca.MX()

        @property
        def alias_relation(self):
            return self._ar

        @property
        def theta(self):
            return self.s.theta

        @property
        def integrate_states(self):
            return bool(self.s.integrate)

        def times(self, variable=None):
            if variable is not None and variable in self.s.ctimes:
                return np.array(self.s.ctimes[variable], dtype=float)
            return self._t

        def interpolation_method(self, variable=None):
            return self.s.interp.get(variable, self.INTERPOLATION_LINEAR)

        def map_options(self):
            return {"mode": "unroll"}

        @property
        def path_variables(self):
            return self._pv

        @property
        def extra_variables(self):
            return self._ev

        def delayed_feedback(self):
            return [(path_mx(self, e), out, float(tau)) for e, out, tau in self.s.delays]

        def dynamic_parameters(self):
            return [self._sym[n] for n in self.s.dynpar]

        # -- ensemble data -------------------------------------------------------------------
        @property
        def ensemble_size(self):
            return self.s.E

        def ensemble_member_probability(self, ensemble_member):
            if self.s.probs is None:
                return super().ensemble_member_probability(ensemble_member)
            return self.s.probs[ensemble_member]

        def parameters(self, ensemble_member):
            d = AliasDict(self._ar)
            for i, n in enumerate(self.s.params):
                d[n] = self.s.pvals[ensemble_member][i]
            return d

        def constant_inputs(self, ensemble_member):
            d = AliasDict(self._ar)
            for n, per_member in self.s.cin.items():
                d[n] = Timeseries(
                    np.array(self.s.cin_times, dtype=float), np.array(per_member[ensemble_member], dtype=float)
                )
            return d

        def history(self, ensemble_member):
            d = AliasDict(self._ar)
            if self.s.hist is not None:
                for n, (ts, vs) in self.s.hist[ensemble_member].items():
                    d[n] = Timeseries(np.array(ts, dtype=float), np.array(vs, dtype=float))
            return d

        def bounds(self):
            d = AliasDict(self._ar)
            for n, (lo, hi) in self.s.bnds.items():
                d[n] = (bound_obj(lo), bound_obj(hi))
            return d

        def variable_nominal(self, variable):
            if variable in self.s.nom:
                return self.s.nom[variable]
            return super().variable_nominal(variable)

        # -- user functions ------------------------------------------------------------------
        def objective(self, ensemble_member):
            if self.s.objective is None:
                return super().objective(ensemble_member)
            return point_mx(self, self.s.objective(ensemble_member), ensemble_member)

        def path_objective(self, ensemble_member):
            if self.s.path_objective is None:
                return super().path_objective(ensemble_member)
            return path_mx(self, self.s.path_objective)

        def constraints(self, ensemble_member):
            if self.s.constraints is None:
                return []
            out = []
            for exprs, lb, ub in self.s.constraints(ensemble_member):
                g = ca.vertcat(*[point_mx(self, e, ensemble_member) for e in exprs])
                out.append((g, bound_obj(lb), bound_obj(ub)))
            return out

        def path_constraints(self, ensemble_member):
            if self.s.path_constraints is None:
                return []
            out = []
            for exprs, lb, ub in self.s.path_constraints(ensemble_member):
                g = ca.vertcat(*[path_mx(self, e) for e in exprs])
                lb = lb(self) if callable(lb) else bound_obj(lb)
                ub = ub(self) if callable(ub) else bound_obj(ub)
                out.append((g, lb, ub))
            return out

        # -- control tree --------------------------------------------------------------------
        def control_tree_options(self):
            o = super().control_tree_options()
            if self.s.tree is not None:
                o.update(self.s.tree)
            return o

        # -- solver ----------------------------------------------------------------------------
        def solver_options(self):
            o = super().solver_options()
            o["ipopt"] = dict(o.get("ipopt", {}), print_level=0, sb="yes", tol=1e-10)
            if self.s.ipopt:
                o["ipopt"].update(self.s.ipopt)
            o["print_time"] = False
            return o

    _CLASS_CACHE[key] = Syn
    return Syn


# ---------------------------------------------------------------------------------------------
# observing a transcription through the public API


class Transcription:
    """`transcribe()` + layout recovered through `state_vector` evaluated at X = arange(N)"""

    def __init__(self, pr):
        import casadi as ca

        self.pr = pr
        self.discrete, self.lbx, self.ubx, lbg, ubg, self.x0, self.nlp = pr.transcribe()
        self.X = self.nlp["x"]
        self.N = self.X.size1()
        self.lbg = np.array(ca.veccat(*lbg)).ravel() if len(lbg) else np.zeros(0)
        self.ubg = np.array(ca.veccat(*ubg)).ravel() if len(ubg) else np.zeros(0)
        self.ng = self.nlp["g"].size1()
        self._fg = ca.Function("fg", [self.X], [self.nlp["f"], self.nlp["g"]])
        self._idx_cache = {}

    def idx(self, var, m):
        """decision-vector indices of `state_vector(var, m)` (public API only)"""
        import casadi as ca

        key = (var, m)
        if key not in self._idx_cache:
            sv = self.pr.state_vector(var, ensemble_member=m)
            v = np.array(ca.Function("sv", [self.X], [sv])(np.arange(self.N, dtype=float))).ravel()
            self._idx_cache[key] = [int(round(x)) for x in v]
        return self._idx_cache[key]

    def fg(self, Xv):
        f, g = self._fg(Xv)
        return float(f), np.array(g).ravel()

    def affine_g(self):
        """(A, b) with g(X) = A X + b, or None when g is not affine in X"""
        import casadi as ca
        from rtctools._internal.casadi_helpers import is_affine

        if self.ng == 0:
            return np.zeros((0, self.N)), np.zeros(0)
        if not is_affine(self.nlp["g"], self.X):
            return None
        J = ca.Function("J", [self.X], [ca.jacobian(self.nlp["g"], self.X), self.nlp["g"]])
        A, b = J(np.zeros(self.N))
        return np.array(A.full() if hasattr(A, "full") else A), np.array(b).ravel()

    def affine_f(self):
        import casadi as ca
        from rtctools._internal.casadi_helpers import is_affine

        if not is_affine(self.nlp["f"], self.X):
            return None
        J = ca.Function("Jf", [self.X], [ca.jacobian(self.nlp["f"], self.X), self.nlp["f"]])
        A, b = J(np.zeros(self.N))
        return np.array(A.full()).ravel(), float(b)

    def g_sparsity_rows(self):
        """for every row of g the set of decision-vector columns it structurally depends on"""
        import casadi as ca

        sp = ca.jacobian(self.nlp["g"], self.X).sparsity()
        rows = [set() for _ in range(self.ng)]
        r, c = sp.get_triplet()
        for i, j in zip(r, c):
            rows[i].add(j)
        return rows


def decode(tr, Xv):
    """physical trajectories of every member from a decision vector (layout through the public API)

    returns [m] -> dict name -> np.array (states/algebraics/controls on their own times,
    path variables as (n_times, size), extra variables as (size,), 'initial_der(x)' scalars)"""
    pr, s = tr.pr, tr.pr.s
    Xv = np.asarray(Xv, dtype=float)
    out = []
    for m in range(s.E):
        d = {}
        for n in s.states + s.algs + s.controls:
            d[n] = Xv[tr.idx(n, m)] * pr.variable_nominal(n)
        for n in s.states:
            dn = "initial_der(%s)" % n
            d[dn] = float(Xv[tr.idx(dn, m)][0] * pr.variable_nominal(dn))
        for n, sz in s.pathvars:
            v = Xv[tr.idx(n, m)].reshape((sz, -1)).transpose()  # component-major layout
            d[n] = v * np.asarray(pr.variable_nominal(n))
        for n, sz in s.extravars:
            d[n] = Xv[tr.idx(n, m)] * np.asarray(pr.variable_nominal(n))
        out.append(d)
    return out


def interp_lin(t, ts, vs, fl, fr):
    ts = list(ts)
    if t < ts[0]:
        return fl
    if t > ts[-1]:
        return fr
    for j in range(len(ts)):
        if ts[j] == t:
            return vs[j]
    for j in range(len(ts) - 1):
        if ts[j] < t < ts[j + 1]:
            return vs[j] + (vs[j + 1] - vs[j]) * (t - ts[j]) / (ts[j + 1] - ts[j])
    raise AssertionError


def env_at(s, traj_m, m, i):
    """the environment of path expressions for member m at collocation index i (plain Python)"""
    t = list(map(float, s.times))
    env = {"time": t[i] - t[0]}
    for n in s.states + s.algs + s.controls:
        own = list(map(float, s.ctimes.get(n, t)))
        vals = traj_m[n]
        if len(own) == len(t):
            env[n] = vals[i]
        else:
            env[n] = interp_lin(t[i], own, vals, vals[0], vals[-1])
    # derivatives
    for n in s.states + s.algs + s.controls:
        dn = "der(%s)" % n
        if i > 0:
            prev = traj_m[n][i - 1] if len(s.ctimes.get(n, t)) == len(t) else interp_lin(
                t[i - 1], list(map(float, s.ctimes[n])), traj_m[n], traj_m[n][0], traj_m[n][-1])
            env[dn] = (env[n] - prev) / (t[i] - t[i - 1])
        elif n in s.states:
            env[dn] = traj_m["initial_der(%s)" % n]
        else:
            h = (s.hist[m] if s.hist is not None else {}).get(n)
            if h is None or h[0][0] == t[0] or len(h[1]) == 1:
                env[dn] = 0.0
            else:
                env[dn] = (h[1][-1] - h[1][-2]) / (h[0][-1] - h[0][-2])
    for n in list(s.cinputs) + list(s.extra_cin):
        env[n] = interp_lin(t[i], s.cin_times, s.cin[n][m], 0.0, 0.0)
    for k, n in enumerate(s.params):
        env[n] = s.pvals[m][k]
    for n, sz in s.pathvars:
        env[n] = traj_m[n][i]  # vector of components
    for n, sz in s.extravars:
        env[n] = traj_m[n]
    return env


def eval_path(expr, env):
    out = 0.0
    for coef, factors in expr:
        term = coef
        for f in factors:
            if isinstance(f, tuple):
                term = term * env[f[0]][f[1]]
            else:
                v = env[f]
                term = term * (v[0] if isinstance(v, np.ndarray) else v)
        out = out + term
    return out


def eval_point(expr, s, traj_m, m):
    out = 0.0
    for coef, factors in expr:
        term = coef
        for f in factors:
            if f[0] == "at":
                term = term * traj_m[f[1]][f[2]]
            elif f[0] == "ev":
                term = term * traj_m[f[1]][0]
            elif f[0] == "par":
                term = term * s.pvals[m][s.params.index(f[1])]
        out = out + term
    return out


def frac(x):
    return Fraction(x)
