"""
C08 — nominal values only rescale the numerics, never the answer.

Proof obligations: lean/RtcVerif/Props/C08.lean (models: Model/C08.lean, Model/C05.lean).

Correspondence / oracle (metamorphic, on the real code):
  A. pairs of real transcriptions of one synthetic problem that differ only in nominals (scalar and
     per-component, 1e-3..1e4) compared in physical coordinates through the recovered layout:
     rows of g (complete: Jacobian and g(0), affine instances), lbg/ubg, nom*lbx, nom*ubx, nom*x0,
     history pins and initial-derivative pins (own nominal), objective at probe trajectories,
     extract_results / state_at / der_at / extra_variable in physical units; and the physical box
     of each variant against the Lean model (Drivers/C08.lean, op "phys").
  B. goal programming (HiGHS): a goal alone in its priority solved with two function nominals gives
     the same achieved goal values; the reported objective equals the model's sum of
     weight * (f / nominal)^order.
  C. simulation: get_var / set_var scripts on generated Modelica models with nominals and negated
     aliases against the model's simGet / simSet, and the round trip in physical units.
  Known candidate F25 (goals sharing a function key with different function_nominal) is probed
  separately.
"""
import copy
import logging
import math
import os
import shutil
import tempfile

import numpy as np

from . import c05
from . import c05_synth as S
from .common import fr, quiet_fd, same
from .translate_c05 import gen_bounds_kernel

NAN = float("nan")
INF = float("inf")
NOMS = [1.0, 10.0, 0.1, 2.0, 0.25, 100.0, 1e-3, 1e4, 3.0, 0.7, 1e3, 0.01]


# ---------------------------------------------------------------------------------------------
# stream A: transcription pairs


def add_extras(rng, inst):
    """affine objective, path constraints, point constraints and seeds over all variables"""
    V = inst["vars"]
    times = inst["times"]
    n = len(times)
    coef = lambda: rng.choice([1.0, -1.0, 0.5, 2.0, -0.25, 3.0])  # noqa

    def term():
        v = rng.choice(V)
        return [v["name"], rng.randrange(v["size"]), coef()]

    def pterm():  # path expressions: no extra... extras allowed too (time independent)
        return term()

    def tterm():  # point expressions
        v = rng.choice([w for w in V if w["kind"] in ("state", "alg", "control", "extra")])
        return [v["name"], rng.randrange(v["size"]), coef()]

    ext = {}
    # delayed feedback  target(t) = sum coef * state(t - tau): the receiving variable is a control,
    # preferably one discretised on its own coarser stamps (its value at the collocation stamps is
    # then interpolated), with a nominal != 1; positive coefficients keep the row nominal positive
    ctrls = [v for v in V if v["kind"] == "control"]
    if ctrls and rng.random() < 0.6:
        tgt = rng.choice(ctrls)
        if n > 2 and rng.random() < 0.75:
            inner = [t for t in times[1:-1] if rng.random() < 0.5]
            if len(inner) == n - 2:
                inner = inner[1:]
            tgt["times"] = [times[0]] + inner + [times[-1]]
        if not isinstance(tgt["nom"], list) and tgt["nom"] == 1.0:
            tgt["nom"] = rng.choice([x for x in NOMS if x != 1.0])
        src = [v for v in V if v["kind"] in ("state", "alg")]
        dterms = [[w["name"], 0, rng.choice([1.0, 0.5, 2.0])] for w in rng.sample(src, rng.randint(1, min(2, len(src))))]
        ext["delay"] = [(dterms, tgt["name"], rng.choice([0.0, 0.25, 0.5, 1.0, 0.3]))]
        inst["_delay"] = "coarse" if len(tgt["times"]) < n else "same-grid"
    ext["path_objective"] = [pterm() for _ in range(rng.randint(1, 3))]
    ext["objective"] = [([tterm() for _ in range(rng.randint(1, 2))], rng.randrange(n)) for _ in range(rng.randint(0, 2))]
    pcs = []
    for _ in range(rng.randint(0, 2)):
        lo = rng.choice([-INF, -5.0, -1.5])
        hi = rng.choice([INF, 7.0, 2.5])
        if rng.random() < 0.3:
            lo = {"t": list(times), "v": [rng.randint(-40, 0) / 4 for _ in times]}
        pcs.append(([pterm() for _ in range(rng.randint(1, 3))], lo, hi))
    ext["path_constraints"] = pcs
    ext["constraints"] = [([tterm() for _ in range(rng.randint(1, 2))], rng.randrange(n),
                           rng.choice([-INF, -3.0, 0.0]), rng.choice([INF, 4.0, 0.0]))
                          for _ in range(rng.randint(0, 2))]
    inst["extra"] = ext
    seeds = []
    sv = lambda: rng.choice([rng.randint(-20, 20) / 4, rng.randint(1, 20) / 4, 0.0, round(rng.uniform(-9, 9), 3)])  # noqa
    for m in range(inst["E"]):
        s = {}
        for v in V:
            if rng.random() < 0.35:
                continue
            if v["kind"] == "extra":
                s[v["name"]] = sv() if v["size"] == 1 else {"vec": [sv() for _ in range(v["size"])]}
                continue
            grid = list(v["times"])
            if rng.random() < 0.4:   # seed series on its own stamps: interpolated, 0 outside
                r = rng.random()
                if r < 0.5:
                    d = rng.choice([0.25, -0.5])
                    grid = [t + d for t in grid]
                else:
                    grid = [grid[0] - 1.0, (grid[0] + grid[-1]) / 2, grid[-1] - 0.125]
            if v["size"] == 1:
                s[v["name"]] = {"t": grid, "v": [sv() for _ in grid]}
            else:
                s[v["name"]] = {"t": grid, "v": [[sv() for _ in range(v["size"])] for _ in grid]}
        seeds.append(s)
    inst["seed"] = seeds
    inst["prob"] = None
    if inst["E"] > 1:
        w = [rng.choice([1.0, 2.0, 3.0, 5.0]) for _ in range(inst["E"])]
        inst["prob"] = [x / sum(w) for x in w]


def renominal(rng, inst):
    out = copy.deepcopy(inst)
    for v in out["vars"]:
        if isinstance(v["nom"], list):
            v["nom"] = [rng.choice(NOMS) for _ in v["nom"]]
        elif v["size"] > 1 and rng.random() < 0.4:
            v["nom"] = [rng.choice(NOMS) for _ in range(v["size"])]
        else:
            v["nom"] = rng.choice(NOMS)
    return out


def named_entries(inst, problem, lay):
    """canonical list of named entries -> (index, nominal)"""
    V = inst["vars"]
    t0 = inst["times"][0]
    keys, idx, nu = [], [], []
    for v in V:
        if v["kind"] == "control":
            a = lay[(0, v["name"])]
            for i in range(a.shape[0]):
                keys.append(("c", v["name"], 0, i))
                idx.append(int(a[i, 0]))
                nu.append(c05.nom_at(v, 0))
    for m in range(inst["E"]):
        for v in V:
            if v["kind"] == "control":
                continue
            a = lay[(m, v["name"])]
            for i in range(a.shape[0]):
                for cc in range(a.shape[1]):
                    keys.append((m, v["name"], cc, i))
                    idx.append(int(a[i, cc]))
                    nu.append(c05.nom_at(v, cc))
            if v["kind"] == "state":
                dn = "initial_der(%s)" % v["name"]
                keys.append((m, dn, 0, 0))
                idx.append(int(lay[(m, dn)][0, 0]))
                nu.append(float(problem.variable_nominal(dn)))
    return keys, np.array(idx, dtype=int), np.array(nu, dtype=float)


def transcribe_phys(inst, z_of_key=None):
    """real transcription, everything mapped to physical coordinates of named entries"""
    import casadi as ca

    r = c05.run_real(inst)
    if r[0] == "raise":
        return r
    R = r[1]
    p, N = R["problem"], R["N"]
    try:
        lay = S.recover_layout(p, inst, N)
    except RuntimeError as e:
        return ("bad-results", str(e))
    keys, idx, nu = named_entries(inst, p, lay)
    if sorted(idx.tolist()) != list(range(N)):
        return ("raise", "layout does not cover the decision vector")
    rec = R["rec"]
    nlp = rec["nlp"]
    X = nlp["x"]
    Jf = ca.Function("J", [X], [ca.jacobian(nlp["g"], X), nlp["g"], nlp["f"]])
    J, g0, f0 = Jf(np.zeros(N))
    J = np.array(ca.DM(J))
    g0 = np.array(g0).ravel()
    from rtctools._internal.casadi_helpers import is_affine

    affine = bool(is_affine(nlp["g"], X))
    out = dict(keys=keys, idx=idx, nu=nu, N=N, problem=p,
               lbx=nu * R["lbx"][idx], ubx=nu * R["ubx"][idx], x0=nu * np.array(rec["x0"], dtype=float).ravel()[idx],
               A=J[:, idx] / nu[None, :], g0=g0, lbg=np.array(rec["lbg"], dtype=float).ravel(),
               ubg=np.array(rec["ubg"], dtype=float).ravel(), affine=affine, nlp=nlp, raw=R)
    return ("ok", out)


def eval_at(T, z):
    """f, g and accessors of a transcription at the physical trajectory z (vector over T['keys'])"""
    import casadi as ca

    X = np.zeros(T["N"])
    X[T["idx"]] = z / T["nu"]
    nlp = T["nlp"]
    F = ca.Function("fg", [nlp["x"]], [nlp["f"], nlp["g"]])
    fv, gv = F(X)
    return X, float(fv), np.array(gv).ravel()


def rows_canon(A, g0, lbg, ubg):
    """rows normalised by their L1 norm (a positive row scaling keeps the feasible set)"""
    out = []
    for r in range(A.shape[0]):
        s = np.abs(A[r]).sum()
        if s == 0 or not np.isfinite(s):
            s = 1.0
        out.append(np.concatenate([A[r] / s, [g0[r] / s, lbg[r] / s, ubg[r] / s]]))
    return np.array(out) if out else np.zeros((0, A.shape[1] + 3))


def arr_close(a, b, rtol=1e-9, atol=1e-10):
    a = np.asarray(a, dtype=float)
    b = np.asarray(b, dtype=float)
    if a.shape != b.shape:
        return False
    with np.errstate(invalid="ignore"):
        fin = np.isfinite(a) & np.isfinite(b)
        if not np.array_equal(a[~fin], b[~fin], equal_nan=True):
            return False
        return bool(np.all(np.abs(a[fin] - b[fin]) <= atol + rtol * np.maximum(np.abs(a[fin]), np.abs(b[fin]))))


def accessor_values(inst, T, z):
    """physical values of the public accessors at the trajectory z"""
    import casadi as ca

    p = T["problem"]
    X = np.zeros(T["N"])
    X[T["idx"]] = z / T["nu"]
    Xs = p.solver_input
    times = inst["times"]
    t0 = times[0]
    exprs, names = [], []
    qs = [t0, times[-1], (times[0] + times[1]) / 2, t0 - 0.5, t0 - 1.0]
    for m in range(inst["E"]):
        for v in inst["vars"]:
            if v["kind"] in ("state", "alg", "control"):
                for t in qs:
                    for scaled in (False, True):
                        e = p.state_at(v["name"], t, m, scaled=scaled)
                        if scaled:
                            e = e * c05.nom_at(v, 0)
                        exprs.append(e)
                        names.append(("state_at", m, v["name"], t, scaled))
                if v["kind"] == "state":
                    for t in (t0, times[-1]):
                        exprs.append(p.der_at(v["name"], t, m))
                        names.append(("der_at", m, v["name"], t))
            elif v["kind"] == "extra":
                e = p.extra_variable(v["name"], m)
                for cc in range(v["size"]):
                    exprs.append(e[cc])
                    names.append(("extra_variable", m, v["name"], cc))
    if not exprs:
        return names, np.zeros(0)
    F = ca.Function("acc", [Xs], [ca.vertcat(*exprs)])
    return names, np.array(F(X)).ravel()


def results_values(inst, T, z):
    """extract_results() of a run whose solver answers the scaled image of z, per named entry"""
    X = np.zeros(T["N"])
    X[T["idx"]] = z / T["nu"]
    sol = S.RecordingSolver(answer=lambda n: X)
    p = S.make_problem(inst, sol)
    with quiet_fd():
        p.optimize()
    res = [p.extract_results(m) for m in range(inst["E"])]
    byname = {v["name"]: v for v in inst["vars"]}
    out = np.zeros(len(T["keys"]))
    for k, (m, nm, cc, i) in enumerate(T["keys"]):
        r = np.asarray(res[0 if m == "c" else m][nm], dtype=float)
        v = byname.get(nm)
        if v is not None and v["size"] > 1:
            r = r.reshape((-1, v["size"]))[i, cc]
        else:
            r = r.reshape(-1)[i]
        out[k] = r
    return out


def expected_seed(inst, key):
    """the user's seed of a named entry in physical units (0 where no seed is given)"""
    m, nm, cc, i = key
    byname = {v["name"]: v for v in inst["vars"]}
    v = byname.get(nm)
    if v is None:
        return 0.0, None  # initial derivatives are not seeded
    members = range(inst["E"]) if m == "c" else [m]
    sd = None
    for mm in members:  # shared control entries: the last member that gives a seed wins
        if nm in inst["seed"][mm]:
            sd = inst["seed"][mm][nm]
    if sd is None:
        return 0.0, None
    if isinstance(sd, dict) and "vec" in sd:
        return sd["vec"][cc], sd
    if isinstance(sd, dict):
        col = [r[cc] for r in sd["v"]] if isinstance(sd["v"][0], list) else sd["v"]
        t = c05.var_times(v, inst["times"][0])[i]
        return c05._interp_doc(v["mode"], sd["t"], col, 0.0, t)[0], sd
    return float(sd), sd


def seed_model_line(inst, v, sd):
    w = c05.wire_blk(dict(v, lo=sd, hi=None), inst["times"][0])
    return dict(op="seedblock", blk=w)


def model_phys_lines(inst):
    w = c05.wire_inst(inst)
    w["op"] = "phys"
    return w


def compare_model_phys(c, inst, T, mo, which):
    """physical box of the Lean model vs the real transcription (named entries)"""
    if mo is None:
        return
    case = c05.case_of(inst)
    if mo == "raise":
        c.disagree("model raises, real transcribe does not", case, "raise", "ok")
        return
    if mo["N"] != T["N"]:
        c.disagree("size of the decision vector", case, mo["N"], T["N"])
        return
    slots = c05.slot_names(inst)
    ctrl = [v["name"] for v in inst["vars"] if v["kind"] == "control"]
    byname = {v["name"]: v for v in inst["vars"]}
    nbad = 0
    for k, (m, nm, cc, i) in enumerate(T["keys"]):
        if m == "c":
            lo, hi = mo["clo"][ctrl.index(nm)][i], mo["chi"][ctrl.index(nm)][i]
        else:
            v = byname.get(nm)
            n_t = 1 if (v is None or v["kind"] == "extra") else len(v["times"])
            lo = mo["lo"][m][slots.index(nm)][cc * n_t + i]
            hi = mo["hi"][m][slots.index(nm)][cc * n_t + i]
        if not (same(lo, T["lbx"][k]) and same(hi, T["ubx"][k])):
            nbad += 1
            if nbad <= 2:
                c.disagree("physical box of a named entry (%s variant)" % which, case, [lo, hi],
                           {"entry": [m, nm, cc, i], "lbx*nom": float(T["lbx"][k]), "ubx*nom": float(T["ubx"][k])})


def stream_pairs(c, n):
    rng = c.rng
    for _ in range(n):
        inst = c05.gen_instance(rng, big=c.big)
        add_extras(rng, inst)
        inst2 = renominal(rng, inst)
        case = {"a": c05.case_of(inst), "b_nominals": {v["name"]: v["nom"] for v in inst2["vars"]}}
        ra = transcribe_phys(inst)
        rb = transcribe_phys(inst2)
        nomkinds = tuple(sorted((v["kind"], v["size"], isinstance(v["nom"], list), isinstance(w["nom"], list))
                                for v, w in zip(inst["vars"], inst2["vars"])))
        c.count(("pair", inst["E"], len(inst["times"]), nomkinds, ra[0], rb[0]))
        c.hit("pair/" + ra[0])
        if inst.get("_delay"):
            c.hit("pair/class/delayed-feedback-receiving-control-" + inst["_delay"])
        if "bad-results" in (ra[0], rb[0]):
            c.fail("extract_results() of X = arange(N) is not nominal * index for some variable: results are "
                   "not in physical units", case, [ra[1] if ra[0] != "ok" else "ok", rb[1] if rb[0] != "ok" else "ok"])
            continue
        if ra[0] != rb[0]:
            c.fail("changing only nominals changes whether the problem can be transcribed", case,
                   {"a": ra[1] if ra[0] == "raise" else "ok", "b": rb[1] if rb[0] == "raise" else "ok"})
            continue
        if ra[0] == "raise":
            continue
        A, B = ra[1], rb[1]
        c.programs += 1
        c.sample({"pair": case}, limit=2)
        c.count(None, n=3 * len(A["keys"]) + 2 * len(A["g0"]))  # entries of lbx/ubx/x0 and rows compared
        if A["keys"] != B["keys"]:
            c.fail("named entries of the decision vector depend on the nominals", case)
            continue
        for what in ("lbx", "ubx", "x0"):
            if not arr_close(A[what], B[what]):
                bad = [k for k in range(len(A["keys"])) if not arr_close(A[what][k:k + 1], B[what][k:k + 1])][:3]
                c.fail("nominal * %s differs between two nominal choices" % what, case,
                       [{"entry": list(A["keys"][k]), "a": float(A[what][k]), "b": float(B[what][k]),
                         "nom_a": float(A["nu"][k]), "nom_b": float(B["nu"][k])} for k in bad])
        # the seed vector is the user's seed per named entry (independent of the pair comparison)
        for (T, ii, which) in ((A, inst, "first"), (B, inst2, "second")):
            nbad = 0
            for kk, key in enumerate(T["keys"]):
                e, sd = expected_seed(ii, key)
                if not arr_close([T["x0"][kk]], [e], rtol=1e-9, atol=1e-12):
                    nbad += 1
                    if nbad <= 2:
                        c.fail("nominal * x0 of a named entry is not the user's seed", case,
                               {"variant": which, "entry": list(map(str, key)), "expected": e,
                                "got": float(T["x0"][kk]), "nominal": float(T["nu"][kk])})
                if sd is not None and key[1].startswith("pv") and isinstance(ii["vars"][0], dict):
                    vv = [w for w in ii["vars"] if w["name"] == key[1]][0]
                    if vv["size"] > 1 and isinstance(vv["nom"], list) and len(set(vv["nom"])) > 1 and e != 0.0 and nbad == 0 \
                            and key[2] == 0 and key[3] == 0:
                        c.hit("class/seeded-vector-path-variable-unequal-component-nominals")
        if A["affine"] and B["affine"]:
            c.hit("pair/affine-complete")
            Ra = rows_canon(A["A"], A["g0"], A["lbg"], A["ubg"])
            Rb = rows_canon(B["A"], B["g0"], B["lbg"], B["ubg"])
            ok = Ra.shape == Rb.shape and arr_close(Ra, Rb, rtol=1e-9, atol=1e-9)
            if not ok and Ra.shape == Rb.shape:  # order-insensitive second look
                ka = np.lexsort(np.round(Ra, 6).T[::-1])
                kb = np.lexsort(np.round(Rb, 6).T[::-1])
                ok = arr_close(Ra[ka], Rb[kb], rtol=1e-9, atol=1e-9)
            if not ok:
                bad = None
                if Ra.shape == Rb.shape:
                    for r in range(Ra.shape[0]):
                        if not arr_close(Ra[r], Rb[r], rtol=1e-9, atol=1e-9):
                            bad = {"row": r, "a": [x for x in Ra[r] if x != 0][:8], "b": [x for x in Rb[r] if x != 0][:8]}
                            break
                c.fail("constraint rows in physical coordinates differ between two nominal choices", case, bad)
        # probes: objective, rows, accessors and results at physical trajectories
        nk = len(A["keys"])
        for _p in range(2):
            z = np.array([rng.randint(-40, 40) / 4 for _ in range(nk)])
            _, fa, ga = eval_at(A, z)
            _, fb, gb = eval_at(B, z)
            if not arr_close([fa], [fb], rtol=1e-9, atol=1e-9):
                c.fail("objective at the same physical trajectory differs between two nominal choices", case,
                       {"a": fa, "b": fb})
            # rows may be divided by a positive constant that depends on the nominals (delay rows):
            # compare them on the normalisation used for the complete comparison
            sa = np.abs(A["A"]).sum(axis=1)
            sb = np.abs(B["A"]).sum(axis=1)
            sa[(sa == 0) | ~np.isfinite(sa)] = 1.0
            sb[(sb == 0) | ~np.isfinite(sb)] = 1.0
            ga, gb = ga / sa, gb / sb
            if not arr_close(ga, gb, rtol=1e-8, atol=1e-8):
                c.fail("rows g at the same physical trajectory differ between two nominal choices", case,
                       {"max_abs_diff": float(np.max(np.abs(ga - gb)))})
        names, va = accessor_values(inst, A, z)
        _, vb = accessor_values(inst2, B, z)
        if not arr_close(va, vb, rtol=1e-9, atol=1e-9):
            k = int(np.argmax(~np.isclose(va, vb, rtol=1e-9, atol=1e-9, equal_nan=True)))
            c.fail("accessor value in physical units depends on the nominal", case,
                   {"accessor": list(map(str, names[k])), "a": float(va[k]), "b": float(vb[k])})
        c.hit("pair/accessor-values", len(names))
        c.count(None, n=len(names))
        xa = results_values(inst, A, z)
        xb = results_values(inst2, B, z)
        if not arr_close(xa, xb, rtol=1e-9, atol=1e-9):
            c.fail("extract_results of the same physical trajectory depends on the nominal", case)
        # decode(encode(z)) = z on the real code: the results are the physical trajectory itself
        for (xx, which) in ((xa, "first"), (xb, "second")):
            if not arr_close(xx, z, rtol=1e-9, atol=1e-9):
                k = int(np.argmax(~np.isclose(xx, z, rtol=1e-9, atol=1e-9)))
                c.fail("extract_results is not nominal * decision vector for a named entry (results not in "
                       "physical units)", case, {"variant": which, "entry": list(map(str, A["keys"][k])),
                                                 "expected": float(z[k]), "got": float(xx[k])})
        c.count(None, n=2 * len(z))
        # decoded results are the physical trajectory itself (named entries)
        # correspondence with the Lean model of the box
        yield inst, A, inst2, B


def run_pairs(c, n):
    todo = list(stream_pairs(c, n))
    lines = []
    for inst, A, inst2, B in todo:
        lines.append(model_phys_lines(inst))
        lines.append(model_phys_lines(inst2))
    outs = c.model(lines) if lines else []
    # seed blocks: scaled x0 of every seeded (member, variable) against the model's block
    slines, smeta = [], []
    for inst, A, inst2, B in todo:
        for (ii, T) in ((inst, A), (inst2, B)):
            raw_x0 = np.array(T["raw"]["rec"]["x0"], dtype=float).ravel()
            for v in ii["vars"]:
                members = [0] if v["kind"] == "control" else range(ii["E"])
                for m in members:
                    key0 = ("c" if v["kind"] == "control" else m, v["name"], 0, 0)
                    _, sd = expected_seed(ii, key0)
                    if sd is None:
                        continue
                    n_t = len(c05.var_times(v, ii["times"][0]))
                    want = []
                    for cc in range(v["size"]):
                        for i in range(n_t):
                            kk = T["keys"].index((key0[0], v["name"], cc, i))
                            want.append(float(raw_x0[T["idx"][kk]]))
                    slines.append(seed_model_line(ii, v, sd))
                    smeta.append((c05.case_of(ii), v["name"], m, want))
    souts = c.model(slines) if slines else []
    if souts is not None:
        for mo, (case, nm, m, want) in zip(souts, smeta):
            c.count(None, n=len(want))
            if mo == "raise" or len(mo) != len(want) or not all(same(a, b) for a, b in zip(mo, want)):
                c.disagree("seed block x0 of a variable (component-major, seed / nominal)", case, mo,
                           {"variable": nm, "member": m, "x0": want})
    if outs is None:
        return
    for k, (inst, A, inst2, B) in enumerate(todo):
        compare_model_phys(c, inst, A, outs[2 * k], "first")
        compare_model_phys(c, inst2, B, outs[2 * k + 1], "second")
        # model-level metamorphic check: the two model boxes agree with each other
        a, b = outs[2 * k], outs[2 * k + 1]
        if a != "raise" and b != "raise":
            for key in ("lo", "hi", "clo", "chi"):
                fa = [x for blk in _flat(a[key]) for x in blk]
                fb = [x for blk in _flat(b[key]) for x in blk]
                if len(fa) != len(fb) or not all(_same_wire(x, y) for x, y in zip(fa, fb)):
                    c.disagree("model: physical box differs between two nominal choices", c05.case_of(inst), key)


def _flat(x):
    """list of innermost lists"""
    if x and isinstance(x[0], list) and x[0] and isinstance(x[0][0], list):
        return [y for sub in x for y in _flat(sub)]
    return x if (x and isinstance(x[0], list)) else [x]


def _same_wire(x, y):
    from .common import unfr

    a, b = unfr(x), unfr(y)
    if isinstance(a, float) or isinstance(b, float):
        return (isinstance(a, float) and isinstance(b, float)) and (a == b or (math.isnan(a) and math.isnan(b)))
    return a == b  # exact rationals: nominal-free exactly


# ---------------------------------------------------------------------------------------------
# stream B: goal programming, function nominal


def gp_instance(rng):
    n = rng.choice([3, 4, 5])
    times = [0.0]
    for _ in range(n - 1):
        times.append(times[-1] + rng.choice([1.0, 0.5, 2.0]))
    V = [dict(name="x0", kind="state", size=1, times=list(times), nom=rng.choice([1.0, 10.0, 0.1]), lo=-50.0, hi=50.0,
              mode=0, nokey=False),
         dict(name="u0", kind="control", size=1, times=list(times), nom=rng.choice([1.0, 100.0, 0.25]), lo=-20.0,
              hi=20.0, mode=0, nokey=False)]
    inst = dict(times=times, E=1, vars=V, hist=[{"x0": {"t": [times[0]], "v": [float(rng.randint(-8, 8))]}}], theta=1.0)
    # der(x) = u
    inst["dae"] = dict(A=[[0.0, -1.0]], c=[0.0], p=[0.0], D=[1.0])
    return inst


def run_gp(inst, goals_spec, record, fix_min=None):
    """goals_spec: list of dicts (priority, kind 'target'|'min', order, weight, nominal, tmin, tmax, var)"""
    from rtctools.optimization.goal_programming_mixin import Goal, GoalProgrammingMixin

    goals = []
    for gs in goals_spec:
        class G(Goal):
            def function(self, pr, m, _v=gs["var"], _s=gs.get("sign", 1.0)):
                return _s * pr.state(_v)

        g = G()
        g.priority = gs["priority"]
        g.order = gs["order"]
        g.weight = gs["weight"]
        g.function_nominal = gs["nominal"]
        if gs.get("relaxation"):
            g.relaxation = gs["relaxation"]
        if gs["kind"] == "target":
            if gs.get("critical"):
                g.critical = True
            else:
                g.function_range = tuple(gs["range"])
            if gs.get("tmin") is not None:
                g.target_min = gs["tmin"]
            if gs.get("tmax") is not None:
                g.target_max = gs["tmax"]
        if gs.get("key"):
            g.function_key = gs["key"]
        goals.append(g)

    def path_goals(self):
        return goals

    def priority_completed(self, priority):
        record.append((priority, {k: np.array(v, dtype=float) for k, v in self.extract_results().items()
                                  if k in ("x0", "u0")}, self.objective_value))

    use_highs = all(gs["order"] == 1 for gs in goals_spec)

    def solver_options(self):
        o = super(type(self), self).solver_options()
        if use_highs:
            # LP: HiGHS (its QP solver can cycle on these tiny problems, so order-2 goals use IPOPT)
            o["casadi_solver"] = "qpsol"
            o["solver"] = "highs"
            o.pop("ipopt", None)
            o["highs"] = {"output_flag": False, "time_limit": 30.0}
        else:
            o["ipopt"] = dict(o.get("ipopt", {}), print_level=0, tol=1e-10, constr_viol_tol=1e-10)
            o["print_time"] = False
        return o

    def goal_programming_options(self):
        o = super(type(self), self).goal_programming_options()
        if fix_min is not None:
            o["fix_minimized_values"] = fix_min
        return o

    p = S.make_problem(inst, None, base_mixins=(GoalProgrammingMixin,),
                       overrides=dict(path_goals=path_goals, priority_completed=priority_completed,
                                      solver_options=solver_options,
                                      goal_programming_options=goal_programming_options))
    with quiet_fd():
        ok = p.optimize()
    return ok


def goal_measure(gs, x):
    """physical achievement of a goal on the trajectory x: what its priority minimises, nominal free"""
    x = gs.get("sign", 1.0) * x
    if gs["kind"] == "min":
        return float(np.sum(x ** gs["order"]))
    if gs.get("critical"):  # hard: measured as the worst violation (must be ~0 in both runs)
        lo = gs["tmin"] if gs.get("tmin") is not None else -INF
        hi = gs["tmax"] if gs.get("tmax") is not None else INF
        return float(max(0.0, np.max(lo - x), np.max(x - hi)))
    m, M = gs["range"]
    tot = 0.0
    for xv in x:
        e = 0.0
        if gs.get("tmin") is not None and xv < gs["tmin"]:
            e = (gs["tmin"] - xv) / (gs["tmin"] - m)
        if gs.get("tmax") is not None and xv > gs["tmax"]:
            e = (xv - gs["tmax"]) / (M - gs["tmax"])
        tot += e ** gs["order"]
    return tot


def stream_gp(c, n):
    rng = c.rng
    jobs = []
    for _ in range(n):
        inst = gp_instance(rng)
        order_t = rng.choice([1, 1, 2])
        order_m = rng.choice([1, 1, 2])
        tmin = float(rng.randint(-5, 10))
        spec = [dict(priority=1, kind="target", order=order_t, weight=rng.choice([1.0, 2.5]), nominal=1.0,
                     range=(-50.0, 50.0), tmin=tmin, tmax=tmin + rng.choice([2.0, 6.0]), var="x0"),
                dict(priority=2, kind="min", order=order_m, weight=rng.choice([1.0, 0.5, 3.0]), nominal=1.0,
                     var=rng.choice(["x0", "u0"]))]
        r = rng.random()
        if r < 0.2:
            spec = spec[1:]
        elif r < 0.5:
            # a critical goal (hard bounds in units of its nominal) on the control, alone in priority 0
            cm = float(rng.randint(-6, -1))
            spec = [dict(priority=0, kind="target", critical=True, order=1, weight=1.0, nominal=1.0,
                         tmin=cm, tmax=cm + rng.choice([4.0, 9.0]), var="u0")] + spec
        elif r < 0.7:
            # a relaxed minimisation goal (unique minimiser: pointwise lowest trajectory above the
            # target) and a later priority pushing the same quantity the other way: the retained bound
            # must leave the physical slack `relaxation`, whatever the nominal
            spec = [spec[0],
                    dict(priority=2, kind="min", order=1, weight=1.0, nominal=1.0, var="x0",
                         relaxation=rng.choice([0.5, 1.0, 2.0, 0.25])),
                    dict(priority=3, kind="min", order=1, weight=1.0, nominal=1.0, var="x0", sign=-1.0)]
            spec[0]["order"] = 1
            c.hit("gp/class/relaxed-minimisation-then-opposite-push")
        elif r < 0.9:
            # a third priority, so that the value retained for the minimisation goal matters
            spec = spec + [dict(priority=3, kind="min", order=1, weight=1.0, nominal=1.0,
                                var=("u0" if spec[1]["var"] == "x0" else "x0"))]
        specs = []
        for _v in range(2):
            s2 = copy.deepcopy(spec)
            lp = all(g["order"] == 1 for g in s2)
            for gs in s2:
                # full range with the LP solver; with IPOPT (order-2 goals) a function nominal that is
                # orders of magnitude off makes the termination tolerance, not the model, decide the
                # third digit, so a moderate range there
                gs["nominal"] = rng.choice(NOMS) if lp else rng.choice([1.0, 2.0, 0.5, 4.0, 0.25, 3.0])
            specs.append(s2)
        jobs.append((inst, specs, rng.choice([None, True, False])))
    lines, meta = [], []
    for inst, specs, fix_min in jobs:
        case = {"instance": c05.case_of(inst), "goals": specs, "fix_minimized_values": fix_min}
        recs = []
        oks = []
        for sp in specs:
            rec = []
            try:
                ok = run_gp(inst, sp, rec, fix_min)
            except Exception as e:
                ok = "raise: %s" % type(e).__name__
            oks.append(ok)
            recs.append(rec)
        c.count(("gp", tuple((g["kind"], g["order"]) for g in specs[0]), str(oks)))
        c.hit("gp/" + str(oks[0]))
        if oks[0] != oks[1]:
            if all(g["order"] == 1 for g in specs[0]) or any(isinstance(o, str) for o in oks):
                c.fail("changing only goal function nominals changes the solver outcome", case, oks)
            else:
                c.hit("gp/ipopt-outcome-differs (numerics, skipped)")
            continue
        if oks[0] is not True:
            continue
        c.programs += 1
        for k, gs in enumerate(specs[0]):
            ra, rb = recs[0][k], recs[1][k]
            # every goal solved so far keeps its achieved value, whichever nominal is used
            for j in range(k + 1):
                # the optimal *value* of a priority is nominal free; its optimal *point* need not be
                # unique (an order-1 minimisation goal is an LP), and what is retained for later
                # priorities is the point (per-step values).  So a goal's own optimum is compared only
                # if no earlier priority had a possibly non-unique minimiser; earlier goals keep their
                # optimal value in any case.
                first_soft = min(i for i, g in enumerate(specs[0]) if not g.get("critical"))
                if k > first_soft and any(g.get("critical") for g in specs[0]):
                    # with a hard band on the control the target band on the state cannot be met by a
                    # pointwise-best trajectory: the per-step epsilons of the order-1 target goal are
                    # then not unique, and what is retained for later priorities is the point
                    c.hit("gp/later-priorities-skipped (critical goal: epsilons not unique)")
                    continue
                if j == k and any(g["kind"] == "min" and g["order"] == 1 for g in specs[0][:j]):
                    c.hit("gp/own-optimum-skipped (earlier LP minimiser not unique)")
                    continue
                # an order-2 minimisation goal that is not fixed afterwards is only bounded from above
                # per step (f_t <= f_t*): its sum of squares is not retained by construction, and the
                # later optimum depends discontinuously on f_t* (solver tolerance decides), so nothing
                # nominal-free can be compared there
                if any(g["kind"] == "min" and g["order"] == 2 for g in specs[0][:max(j, k)]) and fix_min is False \
                        and k > min(i for i, g in enumerate(specs[0]) if g["kind"] == "min" and g["order"] == 2):
                    c.hit("gp/skipped (unfixed order-2 minimisation goal earlier)")
                    continue
                ma = goal_measure(specs[0][j], ra[1][specs[0][j]["var"]])
                mb = goal_measure(specs[1][j], rb[1][specs[1][j]["var"]])
                # LP runs (HiGHS, vertex solutions): 1e-6; interior-point runs (order-2 goals, IPOPT): the
                # epsilons of the earlier priority are only ~1e-6 accurate and enter the retained
                # constraint multiplied by the function range, so 1e-3 there
                lp = all(g["order"] == 1 for g in specs[0])
                if abs(ma - mb) > (1e-6 if lp else 1e-3) * max(1.0, abs(ma), abs(mb)):
                    c.fail("achieved goal value depends on the function nominal", case,
                           {"after_priority": ra[0], "goal": j, "a": ma, "b": mb})
            # correspondence: reported objective of a minimisation goal = sum w (f/nom)^order
            if gs["kind"] == "min":
                for (sp, rr) in ((specs[0][k], ra), (specs[1][k], rb)):
                    lines.append(dict(op="goalobj", w=fr(sp["weight"]), nu=fr(sp["nominal"]), order=sp["order"],
                                      f=[fr(float(sp.get("sign", 1.0) * x)) for x in rr[1][sp["var"]]]))
                    meta.append((case, rr[2]))
    outs = c.model(lines) if lines else []
    if outs is not None:
        for mo, (case, objv) in zip(outs, meta):
            from .common import unfr

            mv = float(unfr(mo))
            if abs(mv - objv) > 1e-6 * max(1.0, abs(mv), abs(objv)):  # same point on both sides
                c.disagree("objective value of a minimisation goal", case, mv, objv)


def probe_f25(c):
    """goals sharing a function key with different function_nominal: stored bounds in wrong units"""
    inst = gp_instance(c.rng)
    inst["hist"] = [{}]
    res = {}
    for nomB in (1.0, 10.0):
        spec = [dict(priority=1, kind="target", order=1, weight=1.0, nominal=1.0, range=(-50.0, 50.0), tmin=2.0,
                     var="x0", key="k"),
                dict(priority=2, kind="target", order=1, weight=1.0, nominal=nomB, range=(-50.0, 50.0), tmax=8.0,
                     var="x0", key="k"),
                dict(priority=3, kind="min", order=1, weight=1.0, nominal=1.0, var="x0")]
        rec = []
        try:
            ok = run_gp(inst, spec, rec)
            res[nomB] = float(np.min(rec[-1][1]["x0"])) if ok and rec else None
        except Exception as e:
            res[nomB] = "raise %s" % type(e).__name__
    a, b = res.get(1.0), res.get(10.0)
    reproduced = isinstance(a, float) and (not isinstance(b, float) or abs(a - b) > 1e-3)
    c.hit("probe/F25/" + ("reproduced" if reproduced else "not-reproduced"))
    what = ("two goals share a function key with different function_nominal (p1 x>=2 nominal 1, p2 x<=8 nominal 10, "
            "p3 min x): min x = %s, with equal nominals %s" % (b, a))
    if any(k["id"] == "F25" for k in c.known):
        c.known_probe("F25", reproduced, what)
    else:
        c.notes.append("probe F25 (%s): %s [not listed in known_findings.jsonl]"
                       % ("reproduced" if reproduced else "not reproduced", what))
    return reproduced, res


# ---------------------------------------------------------------------------------------------
# stream C: simulation get_var / set_var


def sim_model_text(rng, k):
    """a small Modelica model with nominals and negated aliases"""
    nx = rng.randint(1, 3)
    lines = ["model M%d" % k]
    noms = {}
    for i in range(nx):
        nom = rng.choice(NOMS)
        noms["x%d" % i] = nom
        lines.append("  Real x%d(start=%s, nominal=%s);" % (i, rng.randint(-3, 3), repr(nom)))
    aliases = {}
    for i in range(nx):
        if rng.random() < 0.7:
            sgn = rng.choice([1, -1])
            aliases["a%d" % i] = ("x%d" % i, sgn)
            lines.append("  Real a%d;" % i)
    lines.append("  Real w(nominal=%s);" % repr(rng.choice(NOMS)))
    lines.append("  input Real u(fixed=true);")
    lines.append("equation")
    for i in range(nx):
        lines.append("  der(x%d) = -%s * x%d + u;" % (i, rng.choice([0.5, 1.0, 0.25]), i))
    for a, (x, sgn) in aliases.items():
        lines.append("  %s = %s%s;" % (a, "-" if sgn < 0 else "", x))
    lines.append("  w = x0 + 2.0 * u;")
    lines.append("end M%d;" % k)
    return "\n".join(lines) + "\n", nx, noms, aliases


def stream_sim(c, n):
    from rtctools.simulation.simulation_problem import SimulationProblem

    rng = c.rng
    tmp = tempfile.mkdtemp(prefix="C08_sim_")
    lines, meta = [], []
    try:
        for k in range(n):
            text, nx, noms, aliases = sim_model_text(rng, k)
            with open(os.path.join(tmp, "M%d.mo" % k), "w") as f:
                f.write(text)

            class Sm(SimulationProblem):
                def compiler_options(self):
                    o = super().compiler_options()
                    o["cache"] = False
                    return o

            case = {"model": text}
            try:
                with quiet_fd():
                    s = Sm(model_folder=tmp, model_name="M%d" % k, input_folder=tmp, output_folder=tmp)
                    s.setup_experiment(0.0, 10.0, 1.0)
                    s.set_var("u", 0.5)
                    s.initialize()
            except Exception as e:
                c.hit("sim/setup-raise")
                c.fail("simulation model could not be set up: %s" % type(e).__name__, case, str(e)[:200])
                continue
            c.programs += 1
            names = ["x%d" % i for i in range(nx)] + list(aliases) + ["w"]
            # the model needs (index, sign, nominal) of each name: index is an abstract entry id here
            # (the canonical variable), sign from the alias relation, nominal through the public getter
            ent = {}
            for nm in names:
                canon, sign = s.alias_relation.canonical_signed(nm)
                ent[nm] = dict(index=sorted(set(names)).index(canon) if canon in names else names.index(nm),
                               sign=int(sign), nominal=fr(float(s.get_variable_nominal(nm))))
            script, real_gets = [], []
            for _ in range(rng.randint(4, 10)):
                nm = rng.choice(names)
                if rng.random() < 0.5:
                    v = rng.randint(-40, 40) / 4
                    s.set_var(nm, v)
                    script.append(dict(k="set", var=ent[nm], v=fr(v)))
                    # the property itself: the value just set is read back in physical units
                    got = float(s.get_var(nm))
                    if abs(got - v) > 1e-9 * max(1.0, abs(v)):
                        c.fail("get_var after set_var does not return the physical value", case,
                               {"variable": nm, "set": v, "got": got, "nominal": float(s.get_variable_nominal(nm))})
                    for other, (x, sgn) in aliases.items():
                        base = other if nm == x else (x if nm == other else None)
                        if base is not None:
                            g2 = float(s.get_var(base))
                            exp = sgn * v
                            if abs(g2 - exp) > 1e-9 * max(1.0, abs(v)):
                                c.fail("value set through one alias is not the signed physical value through the "
                                       "other", case, {"set": nm, "read": base, "v": v, "got": g2})
                else:
                    real_gets.append(float(s.get_var(nm)))
                    script.append(dict(k="get", var=ent[nm]))
            c.count(("sim", nx, len(aliases), tuple(sorted(noms.values()))))
            c.hit("sim/scripts")
            # every get before the first set of that entry reads the initial state: restrict the
            # comparison to gets of entries set earlier in the script
            seen, keep, gi = set(), [], 0
            for op in script:
                if op["k"] == "set":
                    seen.add(op["var"]["index"])
                else:
                    keep.append(op["var"]["index"] in seen)
                    gi += 1
            lines.append(dict(op="sim", n=len(names) + 5, ops=script))
            meta.append((case, real_gets, keep))
        outs = c.model(lines) if lines else []
        if outs is not None:
            for mo, (case, real_gets, keep) in zip(outs, meta):
                for a, b, kp in zip(mo, real_gets, keep):
                    if kp and not same(a, b):
                        c.disagree("simulation get_var after a script of set_var", case, a, b)
    finally:
        shutil.rmtree(tmp, ignore_errors=True)


# ---------------------------------------------------------------------------------------------


def run(c):
    logging.getLogger("rtctools").setLevel(logging.CRITICAL)
    c.rule = (
        "A: random synthetic problems as in C05 (all bound kinds, histories, vector variables, ensembles) plus "
        "affine objective / path / point constraints and seeds, each transcribed with two independent nominal "
        "assignments (scalar and per component, 1e-3..1e4); B: 1-state goal-programming problems (HiGHS), target "
        "goal then minimisation goal (orders 1, 2), two function-nominal assignments; C: generated Modelica "
        "models with nominals and (negated) aliases, random set_var/get_var scripts.  distinct = (stream, sizes, "
        "nominal kinds per variable, outcome)"
    )
    c.assumptions = [
        "CasADi evaluates the expressions it is given; Jacobian / g(0) of an affine instance determine its rows",
        "HiGHS returns an optimal point of the LP it is given (stream B: order-1 goals, function nominals "
        "1e-3..1e4, achieved goal values compared at 1e-6); order-2 goals are solved with IPOPT, function "
        "nominals 0.25..4, compared at 1e-3 (termination tolerance, not exact optimality)",
        "rows are arbitrary functions of the decoded trajectory in the model; that the code touches the decision "
        "vector only through nominal * X is what stream A checks on every generated instance",
        "nominals are positive (negative nominals under negated aliases: F2, repaired in 7f4289d)",
    ]
    c.prove(extra=gen_bounds_kernel(c))  # + the per-variable bound / seed kernels translated from the source
    run_pairs(c, c.n(40, 400))
    stream_gp(c, c.n(40, 300))
    probe_f25(c)
    stream_sim(c, c.n(3, 20))
    c.notes.append("pairs of real runs are samples; the unbounded claim is carried by the theorems "
                   "(rows_nominal_free, feasible_transfer, box_nominal_free, goal_nominal_order, sim_get_set)")


def replay(c, rp):
    c.prove(extra=gen_bounds_kernel(c))  # + the per-variable bound / seed kernels translated from the source
    for f in rp.get("failures", []) + rp.get("correspondence_disagreements", []):
        print("replay:", f.get("what"))
        print(str(f.get("case"))[:2000])
