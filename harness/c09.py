"""
C09 — simulation steps satisfy the backward-Euler model equations.

Proof obligations: lean/RtcVerif/Props/C09.lean (model lean/RtcVerif/Model/C09Sim.lean).

Correspondence / oracle (every run, real code from $RTC_REPO/src):
  * generated `.mo` models (harness/c09_gen.py; linear and mildly nonlinear; aliases incl. negated,
    nominals, parameters, inputs) are compiled by pymoca into a scratch dir and run through the
    real `SimulationProblem` (stream `plain`: arbitrary start time, varying `dt`, inputs set by
    `set_var`) and through the IO mixins (stream `io`: simulation `CSVMixin` with generated CSV
    files, and a hand-made `IOMixin` subclass with t0 in the middle of the import series and NaN
    gaps); after `initialize()` and after every `update()` all variables are read through `get_var`;
  * ORACLE (independent, plain Python on the coefficient table the `.mo` was printed from): model
    equations at t+dt, derivative variables = difference quotients, alias equations, time
    advance, inputs taken at t+dt; initial equations and fixed start values after `initialize()`;
    outputs recorded at every step incl. t0 (extract_results / exported CSV vs the get_var log);
    unsolvable steps / initialisations raise; simulation = optimisation transcription with
    theta = 1 and fixed controls (real IPOPT solve);
  * stream `rootfinder`: generated models with a square-root type algebraic `q1*q1 = affine(inputs[, state])`
    under every rootfinder rootfinder_options() documents (default nlpsol/ipopt, explicit nlpsol dictionary,
    fast_newton, newton; CasADi's error_on_fail on and off); the input drives steps out of the solvable range
    and back.  Every update() that returns is checked against the step residual, a step without a solution
    must raise (any exception type), a failed update() leaves the unknowns untouched (theorems
    C09_failure_raises, C09_returns_iff_root, C09_history_returned_steps) and the run goes on;
  * MODEL (Lean driver): the model's step residual / initial constraints evaluated on the same
    (scaled) state vectors must agree with the oracle's evaluation (1e-9), and for affine models
    the model's own `update` / IO loop with an exact rational root finder must reproduce the real
    trajectories (1e-6).
"""
import csv as pycsv
import datetime
import logging
import math
import os
import random
import shutil
import tempfile
from fractions import Fraction

import numpy as np

from . import c09_gen as G
from .common import fr, quiet_fd, unfr
from .translate_c09 import gen_sim_step

RES_TOL = 1e-7  # residual tolerance relative to the row scale (solver output)
TRAJ_TOL = 1e-6  # trajectories that went through two different solvers
EVAL_TOL = 1e-9  # same formula evaluated in float and in exact arithmetic


def call(fn, *a, **k):
    try:
        with quiet_fd():
            return ("ok", fn(*a, **k))
    except Exception as e:  # the implementation raised
        return ("raise", "%s: %s" % (type(e).__name__, str(e)[:160]))


# ------------------------------------------------------------------------------------------------
# real-code classes (public API only)


def sim_classes():
    from rtctools.simulation.csv_mixin import CSVMixin
    from rtctools.simulation.io_mixin import IOMixin
    from rtctools.simulation.pi_mixin import PIMixin
    from rtctools.simulation.simulation_problem import SimulationProblem, Variable

    class Plain(SimulationProblem):
        c09_extras = []

        def compiler_options(self):
            o = super().compiler_options()
            o["cache"] = False
            o["library_folders"] = []
            return o

        def extra_variables(self):
            return [Variable(e["n"], nominal=e["nom"]) for e in self.c09_extras]

        def extra_equations(self):
            import casadi as ca

            v = self.get_variables()
            eqs = []
            for e in self.c09_extras:
                tot = 0
                for cf, fs in e["terms"]:
                    t = ca.MX(float(cf))
                    for f in fs:
                        t = t * (v["time"] if f == "@t" else ca.sin(v["time"]) if f == "@sin" else v[f])
                    tot = tot + t
                eqs.append(tot)
            return eqs

    class Logged:
        """records get_var of every name after initialize() and after every update()"""

        def initialize(self, config_file=None):
            super().initialize(config_file)
            self.c09_log.append({n: float(self.get_var(n)) for n in self.c09_names})

        def update(self, dt):
            super().update(dt)
            self.c09_log.append({n: float(self.get_var(n)) for n in self.c09_names})

    class CSVSim(Logged, CSVMixin, Plain):
        timeseries_import_basename = "timeseries_import"
        timeseries_export_basename = "timeseries_export"

    class MemIO(IOMixin):
        """IO mixin fed from memory: t0 may lie inside the import series, NaN gaps allowed"""

        def read(self):
            d = self.c09_data
            ref = datetime.datetime(2021, 3, 4, 5, 0, 0)
            self.io.reference_datetime = ref
            dts = [ref + datetime.timedelta(seconds=x) for x in d["times_sec"]]
            for k, v in d["series"].items():
                self.io.set_timeseries(k, dts, np.array(v, dtype=float))
            for k, v in d["params"].items():
                self.io.set_parameter(k, v)

        def write(self):
            self.c09_written = True

    class MemSim(Logged, MemIO, Plain):
        pass

    class PISim(Logged, PIMixin, Plain):
        timeseries_import_basename = "timeseries_import"
        timeseries_export_basename = "timeseries_export"

    return Plain, CSVSim, MemSim, PISim


def snap(sim, names):
    return {n: float(sim.get_var(n)) for n in names}


# ------------------------------------------------------------------------------------------------
# oracle helpers


def row_scale(spec):
    """nominal magnitude per name: residual rows are judged against terms of nominal size"""
    nm = {s["n"]: s["nom"] for s in spec["states"]}
    nm.update({a["n"]: a["nom"] for a in spec["algs"]})
    nm.update({e["n"]: e["nom"] for e in spec.get("extras", [])})
    for al in spec["aliases"]:
        nm[al["n"]] = nm[al["of"]]
    return nm


def scaled_residuals(spec, terms_list, vals, nm, der_override=None):
    """[(residual, scale)]: scale = 1 + sum |coef| * prod max(|factor|, nominal of the factor)"""
    out = []
    for terms in terms_list:
        parts, sc = [], 0.0
        for c, fs in terms:
            v, m = float(c), abs(float(c))
            for f in fs:
                if der_override is not None and f in der_override:
                    x = der_override[f]
                else:
                    x = G.factor_value(f, vals)
                v *= x
                m *= max(abs(x), nm.get(f, 0.0))
            parts.append(v)
            sc += m
        out.append((math.fsum(parts), 1.0 + sc))
    return out


WORST = {"residual/tolerance": 0.0, "derivative/tolerance": 0.0, "xcheck/tolerance": 0.0}


def check_step(c, case, spec, prev, cur, dt, what):
    """the property at one step, on get_var values; returns the oracle's residual list
    (model equations, then derivative rows) for the comparison with the Lean model"""
    nm = row_scale(spec)
    ok = True
    # time advance
    if abs(cur["time"] - (prev["time"] + dt)) > 1e-12 * max(1.0, abs(cur["time"])):
        c.fail("%s: time is not t + dt after update()" % what, case, {"prev": prev["time"], "dt": dt, "now": cur["time"]})
        ok = False
    # every derivative equals the difference quotient
    dq = {}
    for st in spec["states"]:
        x = st["n"]
        q = (cur[x] - prev[x]) / dt
        dq["der(%s)" % x] = q
        sc = 1.0 + abs(q) + (abs(cur[x]) + abs(prev[x]) + st["nom"]) / abs(dt)
        WORST["derivative/tolerance"] = max(WORST["derivative/tolerance"], abs(cur["der(%s)" % x] - q) / (RES_TOL * sc))
        if not abs(cur["der(%s)" % x] - q) <= RES_TOL * sc:
            c.fail("%s: der(%s) is not (x(t+dt)-x(t))/dt" % (what, x), case,
                   {"der": cur["der(%s)" % x], "quotient": q, "x_prev": prev[x], "x": cur[x], "dt": dt})
            ok = False
    # model equations at t+dt with the difference quotients as derivatives
    res = scaled_residuals(spec, [eq["terms"] for eq in spec["eqs"]], cur, nm, dq)
    for eq, (r, sc) in zip(spec["eqs"], res):
        WORST["residual/tolerance"] = max(WORST["residual/tolerance"], abs(r) / (RES_TOL * sc))
        if not abs(r) <= RES_TOL * sc:
            c.fail("%s: model equation for %s not satisfied at t+dt" % (what, eq["of"]), case,
                   {"residual": r, "scale": sc, "values": cur, "prev": prev, "dt": dt})
            ok = False
    # user-defined extra equations
    res = scaled_residuals(spec, [e["terms"] for e in spec.get("extras", [])], cur, nm, dq)
    for e, (r, sc) in zip(spec.get("extras", []), res):
        if not abs(r) <= RES_TOL * sc:
            c.fail("%s: extra equation for %s not satisfied at t+dt" % (what, e["n"]), case,
                   {"residual": r, "scale": sc, "values": cur})
            ok = False
    # alias equations hold exactly
    for al in spec["aliases"]:
        sg = -1.0 if al["neg"] else 1.0
        if cur[al["n"]] != sg * cur[al["of"]]:
            c.fail("%s: alias %s differs from %s%s" % (what, al["n"], "-" if al["neg"] else "", al["of"]), case,
                   {al["n"]: cur[al["n"]], al["of"]: cur[al["of"]]})
            ok = False
    return ok


def check_init(c, case, spec, v0, expected_fixed, what):
    nm = row_scale(spec)
    res = scaled_residuals(spec, [eq["terms"] for eq in spec["eqs"]], v0, nm)
    for eq, (r, sc) in zip(spec["eqs"], res):
        if not abs(r) <= RES_TOL * sc:
            c.fail("%s: model equation for %s not satisfied after initialize()" % (what, eq["of"]), case,
                   {"residual": r, "scale": sc, "values": v0})
    res = scaled_residuals(spec, [eq["terms"] for eq in spec["init_eqs"]], v0, nm)
    for k, (r, sc) in enumerate(res):
        if not abs(r) <= RES_TOL * sc:
            c.fail("%s: initial equation %d not satisfied after initialize()" % (what, k), case,
                   {"residual": r, "scale": sc, "values": v0})
    res = scaled_residuals(spec, [e["terms"] for e in spec.get("extras", [])], v0, nm)
    for e, (r, sc) in zip(spec.get("extras", []), res):
        if not abs(r) <= RES_TOL * sc:
            c.fail("%s: extra equation for %s not satisfied after initialize()" % (what, e["n"]), case,
                   {"residual": r, "scale": sc, "values": v0})
    for n, e in expected_fixed.items():
        if not abs(v0[n] - e) <= 1e-9 * max(1.0, abs(e), nm.get(n, 1.0)):
            c.fail("%s: fixed start value of %s not honoured" % (what, n), case, {"expected": e, "got": v0[n]})
    for al in spec["aliases"]:
        sg = -1.0 if al["neg"] else 1.0
        if v0[al["n"]] != sg * v0[al["of"]]:
            c.fail("%s: alias %s differs from its target after initialize()" % (what, al["n"]), case, v0)


# ------------------------------------------------------------------------------------------------
# wire helpers (Lean model side).  Layout of the model's state vector is the harness's own order:
#   states, algebraics, derivatives | time, inputs..., sin(time) pseudo-input, parameters


class Wire:
    def __init__(self, spec, pvals):
        self.spec = spec
        self.S = [s["n"] for s in spec["states"]]
        self.A = [a["n"] for a in spec["algs"]]
        self.U = list(spec["inputs"])
        self.P = [p["n"] for p in spec["params"]]
        self.E = [e["n"] for e in spec.get("extras", [])]
        self.nom = ([s["nom"] for s in spec["states"]] + [a["nom"] for a in spec["algs"]]
                    + [1.0] * len(self.S) + [e["nom"] for e in spec.get("extras", [])])
        self.nX = 2 * len(self.S) + len(self.A) + len(self.E)
        self.model = G.wire_model(spec, fr)
        self.pvals = [pvals[p] for p in self.P]
        self.idx = {}
        for i, n in enumerate(self.S + self.A + ["der(%s)" % s for s in self.S] + self.E):
            self.idx[n] = (i, False)
        self.idx["time"] = (self.nX, False)
        for k, u in enumerate(self.U):
            self.idx[u] = (self.nX + 1 + k, False)
        self.i_sin = self.nX + 1 + len(self.U)
        for l, p in enumerate(self.P):
            self.idx[p] = (self.i_sin + 1 + l, False)
        for al in spec["aliases"]:
            i, _ = self.idx[al["of"]]
            self.idx[al["n"]] = (i, bool(al["neg"]))

    def base(self):
        return {"model": self.model,
                "nom": [[i, fr(v)] for i, v in enumerate(self.nom) if v != 1.0],
                "p": [fr(x) for x in self.pvals]}

    def rawX(self, v):
        """scaled unknowns as the implementation stores them: physical / nominal"""
        xs = [v[n] for n in self.S + self.A + ["der(%s)" % s for s in self.S] + self.E]
        return [x / m for x, m in zip(xs, self.nom)]

    def rest(self, v):
        return [v["time"]] + [v[u] for u in self.U] + [math.sin(v["time"])]

    def sv(self, v):
        return self.rawX(v) + self.rest(v) + list(self.pvals)


def frs(xs):
    return [fr(x) for x in xs]


def close(model_val, impl_val, tol, scale=1.0):
    m = float(unfr(model_val)) if isinstance(model_val, str) else float(model_val)
    return abs(m - float(impl_val)) <= tol * max(1.0, scale, abs(m), abs(float(impl_val)))


# ------------------------------------------------------------------------------------------------
# stream `plain`: SimulationProblem driven through set_var / update


def affine_ok(spec):
    return G.is_affine(spec)


def stream_plain(c, spec, tmp, rng, pending, nsteps):
    Plain = sim_classes()[0]
    G.write_mo(spec, tmp)
    names = G.all_names(spec)
    case = {"stream": "plain", "spec": spec}
    if spec.get("extras"):
        Plain = type("PlainX", (Plain,), {"c09_extras": spec["extras"]})
        c.hit("plain/with-extra-equations")
    r = call(Plain, model_folder=tmp, model_name=spec["name"], input_folder=tmp, output_folder=tmp)
    c.programs += 1
    if r[0] == "raise":
        c.fail("model does not load: " + r[1], case)
        return None
    sim = r[1]
    have = sim.get_variables()
    missing = [n for n in names if n not in have]
    if missing:
        c.fail("model variables not available through get_var: %s" % missing, case)
        return None
    for v in spec["states"] + spec["algs"] + spec.get("extras", []):
        if sim.alias_relation.canonical_signed(v["n"])[0] != v["n"]:
            c.hit("plain/accidental-alias")  # e.g. `a1 = 1.0 * x1`: shares the canonical variable's nominal
            continue
        if float(sim.get_variable_nominal(v["n"])) != v["nom"]:
            c.disagree("nominal of %s" % v["n"], case, v["nom"], float(sim.get_variable_nominal(v["n"])))
    start = rng.choice([0.0, 0.0, 3.0, -2.5, 10.0])
    dt0 = rng.choice([1.0, 0.5, 0.25, 2.0, 0.125])
    useq = [[G.dy(rng, -2, 2) for _ in spec["inputs"]] for _ in range(nsteps + 1)]
    dts = [rng.choice([dt0, dt0, -1.0, 0.5, 1.5, 0.25]) for _ in range(nsteps)]
    case.update(start=start, dt0=dt0, inputs=useq, dts=dts)
    sim.setup_experiment(start, start + 1000.0, dt0)
    for u, val in zip(spec["inputs"], useq[0]):
        sim.set_var(u, val)
    r = call(sim.initialize)
    if r[0] == "raise":
        # every generated model has a consistent initial state: count, and let the model decide
        # a nonlinear model may genuinely have no (reachable) solution: raising is what the property
        # asks for then.  An affine generated model always has a consistent initial state.
        c.hit("plain/init-raise")
        if affine_ok(spec):
            c.disagree("initialize() raised on an affine (consistent) model: " + r[1], case, "returned", "raise")
        return None
    v0 = snap(sim, names)
    pv = {p["n"]: v0[p["n"]] for p in spec["params"]}
    for p in spec["params"]:
        if v0[p["n"]] != p["v"]:
            c.fail("parameter %s does not carry its declared value" % p["n"], case, {"declared": p["v"], "got": v0[p["n"]]})
    if v0["time"] != start:
        c.fail("time after initialize() is not the experiment start", case, {"start": start, "time": v0["time"]})
    check_init(c, case, spec, v0, G.fixed_starts(spec), "plain")
    c.count(("plain-init", spec["name"], spec["nonlinear"], len(spec["states"]), len(spec["algs"]), len(spec["aliases"])))
    w = Wire(spec, pv)
    nm = row_scale(spec)
    # model: initial constraints evaluated at the returned state
    allinit = [e["terms"] for e in spec["eqs"] + spec["init_eqs"] + spec.get("extras", [])]
    exp = [x[0] for x in scaled_residuals(spec, allinit, v0, nm)]
    scs = [x[1] for x in scaled_residuals(spec, allinit, v0, nm)]
    line = dict(op="init_constraints", sv=frs(w.sv(v0)), X=frs(w.rawX(v0)), **w.base())

    def cmp_init(out, exp=exp, scs=scs, case=case):
        if not isinstance(out, list) or len(out) != len(exp) or not all(
                close(m, e, EVAL_TOL, s) for m, e, s in zip(out, exp, scs)):
            c.disagree("initial constraints (model vs oracle evaluation)", case, out, exp)

    pending.append((line, cmp_init))
    log = [v0]
    post = []  # state right after every update() (log entries may be overwritten by a later set_var)
    cur_dt = dt0
    steps_wire = []
    raised_at = None
    plan = []  # per step: (input values, (name, value) set on a state or None, effective dt)
    settable = [s_["n"] for s_ in spec["states"]] + [a["n"] for a in spec["aliases"]
                                                      if a["of"] in [s_["n"] for s_ in spec["states"]]]
    for k in range(nsteps):
        prev = log[-1]
        for u, val in zip(spec["inputs"], useq[k + 1]):
            sim.set_var(u, val)
        extra_sets = []
        ext = None
        if rng.random() < 0.3:
            # BMI-style use: the caller overwrites a state (possibly through an alias) between steps;
            # the next step must start from exactly that value
            name = rng.choice(settable)
            val = G.dy(rng, -3, 3) * nm[name]
            sim.set_var(name, val)
            c.hit("plain/set_var-state")
            got = float(sim.get_var(name))
            if not abs(got - val) <= 1e-12 * max(1.0, abs(val)):
                c.fail("get_var(%s) after set_var(%s, v) does not return v" % (name, name), dict(case, step=k),
                       {"set": val, "got": got, "nominal": nm[name]})
            prev = snap(sim, names)
            log[-1] = prev
            extra_sets.append({"idx": w.idx[name][0], "neg": w.idx[name][1], "v": fr(val)})
            ext = (name, val)
        dta = dts[k]
        dt = dta if dta > 0 else cur_dt
        cur_dt = dt
        plan.append((useq[k + 1], ext, dt))
        r = call(sim.update, dta)
        steps_wire.append({"dt": fr(dta), "set": [{"idx": w.idx[u][0], "neg": False, "v": fr(val)}
                                                    for u, val in zip(spec["inputs"], useq[k + 1])]
                           + extra_sets
                           + [{"idx": w.i_sin, "neg": False, "v": fr(math.sin(prev["time"] + dt))}]})
        if r[0] == "raise":
            raised_at = k
            c.hit("plain/step-raise")
            break
        cur = snap(sim, names)
        log.append(cur)
        post.append(cur)
        for u, val in zip(spec["inputs"], useq[k + 1]):
            if cur[u] != val:
                c.fail("input %s changed during update()" % u, case, {"set": val, "got": cur[u]})
        check_step(c, dict(case, step=k), spec, prev, cur, dt, "plain")
        c.count(("plain-step", spec["name"], k, dta > 0))
        c.hit("plain/steps")
        # model residual at this step
        dq_rows = [cur["der(%s)" % s] - (cur[s] - prev[s]) / dt for s in w.S]
        rr = scaled_residuals(spec, [e["terms"] for e in spec["eqs"]], cur, nm)
        rg = scaled_residuals(spec, [e["terms"] for e in spec.get("extras", [])], cur, nm)
        exp = [x[0] for x in rr] + dq_rows + [x[0] for x in rg]
        scs = ([x[1] for x in rr] + [1.0 + abs(cur["der(%s)" % s]) + (abs(cur[s]) + abs(prev[s])) / dt for s in w.S]
               + [x[1] for x in rg])
        line = dict(op="residual", X=frs(w.rawX(cur)), dt=fr(dt),
                    consts=frs(w.rawX(prev) + w.rest(cur)), **w.base())

        def cmp_res(out, exp=exp, scs=scs, case=dict(case, step=k)):
            if not isinstance(out, list) or len(out) != len(exp) or not all(
                    close(m, e, EVAL_TOL, s) for m, e, s in zip(out, exp, scs)):
                c.disagree("step residual (model vs oracle evaluation)", case, out, exp)

        pending.append((line, cmp_res))
    # ---- reset(): puts the state right after initialize() back, any number of times; a run re-started
    #      after a reset with the same inputs repeats the first run
    def do_reset(tag):
        r = call(sim.reset)
        if r[0] == "raise":
            c.fail("%s: reset() raised: %s" % (tag, r[1]), case)
            return False
        now = snap(sim, names)
        bad = {n_: {"after_reset": now[n_], "after_initialize": v0[n_]} for n_ in names if now[n_] != v0[n_]}
        c.count(("plain-reset", spec["name"], tag))
        c.hit("plain/reset")
        if bad:
            c.fail("%s: after reset() get_var differs from its value right after initialize()" % tag, case, bad)
            return False
        if float(sim.get_current_time()) != start:
            c.fail("%s: current time after reset() is not the start time" % tag, case,
                   {"time": float(sim.get_current_time()), "start": start})
            return False
        return True

    def wire_step(ins, ext, dt, tprev, reset):
        st = {"dt": fr(dt), "reset": bool(reset),
              "set": [{"idx": w.idx[u][0], "neg": False, "v": fr(val)} for u, val in zip(spec["inputs"], ins)]}
        if ext:
            st["set"].append({"idx": w.idx[ext[0]][0], "neg": w.idx[ext[0]][1], "v": fr(ext[1])})
        st["set"].append({"idx": w.i_sin, "neg": False, "v": fr(math.sin(tprev + dt))})
        return st

    if do_reset("first reset") and raised_at is None and post:
        first = list(post)
        m = min(len(plan), rng.randint(2, 4))
        ok = True
        for k in range(m):
            ins, ext, dt = plan[k]
            for u, val in zip(spec["inputs"], ins):
                sim.set_var(u, val)
            if ext:
                sim.set_var(ext[0], ext[1])
            tprev = float(sim.get_var("time"))
            r = call(sim.update, dt)
            steps_wire.append(wire_step(ins, ext, dt, tprev, k == 0))
            if r[0] == "raise":
                c.fail("re-run after reset() raised where the first run returned: " + r[1], dict(case, step=k))
                raised_at = len(steps_wire) - 1
                ok = False
                break
            cur = snap(sim, names)
            post.append(cur)
            bad = {n_: {"first_run": first[k][n_], "after_reset": cur[n_]} for n_ in names
                   if not abs(cur[n_] - first[k][n_]) <= 1e-9 * max(1.0, abs(first[k][n_]), nm.get(n_, 1.0))}
            c.count(("plain-reset-rerun", spec["name"], k))
            if bad:
                c.fail("trajectory re-simulated after reset() differs from the first run (same inputs, same dt)",
                       dict(case, step=k), bad)
                ok = False
                break
        # second reset, then a run with another step size
        if ok and do_reset("second reset"):
            dtc = rng.choice([d for d in (0.5, 0.75, 1.25, 2.0) if d != plan[0][2]])
            for k in range(2):
                ins = [G.dy(rng, -2, 2) for _ in spec["inputs"]]
                for u, val in zip(spec["inputs"], ins):
                    sim.set_var(u, val)
                prev = snap(sim, names)
                r = call(sim.update, dtc)
                steps_wire.append(wire_step(ins, None, dtc, prev["time"], k == 0))
                if r[0] == "raise":
                    raised_at = len(steps_wire) - 1
                    c.hit("plain/step-raise")
                    break
                cur = snap(sim, names)
                post.append(cur)
                check_step(c, dict(case, step="after second reset %d" % k), spec, prev, cur, dtc, "plain")
                c.count(("plain-reset-step", spec["name"], k))
    # model get_var (index, sign, nominal) on the last state vector vs the real get_var of every name
    last = log[-1]
    qn = [n_ for n_ in names if n_ in w.idx]
    line = dict(op="getvars", sv=frs(w.sv(last)), q=[[w.idx[n_][0], w.idx[n_][1]] for n_ in qn], **w.base())

    def cmp_get(out, qn=qn, last=last, case=case):
        if not isinstance(out, list) or len(out) != len(qn) or not all(
                close(m, last[n_], 1e-12) for m, n_ in zip(out, qn)):
            c.disagree("get_var of all names (model vs implementation)", case, out, [last[n_] for n_ in qn])

    pending.append((line, cmp_get))
    # affine models: the model's own update with the exact root finder reproduces the run
    if affine_ok(spec):
        c.hit("plain/affine-runs")
        line = dict(op="steps", sv=frs(w.sv(v0)), dt=fr(dt0), steps=steps_wire, **w.base())

        def cmp_steps(out, post=post, raised_at=raised_at, case=case, w=w):
            if not isinstance(out, list):
                c.disagree("steps (model output malformed)", case, out, None)
                return
            for k, o in enumerate(out):
                if o["status"] == "raise":
                    if raised_at != k:
                        c.disagree("update(): model raises at step %d, implementation %s" % (k, "raised at %s" % raised_at), case, "raise", "ok")
                    return
                if raised_at == k:
                    c.disagree("update(): implementation raised at step %d, model has a unique root" % k, case, "ok", "raise")
                    return
                impl = w.sv(post[k])
                mod = o["sv"]
                # compare in physical units, relative to the nominal
                for i, (m, x) in enumerate(zip(mod, impl)):
                    if i == w.i_sin:
                        continue
                    if not abs(float(unfr(m)) - x) <= TRAJ_TOL * max(1.0, abs(x)):
                        c.disagree("update(): state vector entry %d after step %d" % (i, k), case, [float(unfr(q)) for q in mod], impl)
                        return

        pending.append((line, cmp_steps))
    return log


# ------------------------------------------------------------------------------------------------
# stream `io`: the IO mixins (CSV files / in-memory series)


def write_csv_inputs(folder, t0, dt, cols):
    os.makedirs(folder, exist_ok=True)
    names = list(cols)
    n = len(cols[names[0]])
    with open(os.path.join(folder, "timeseries_import.csv"), "w") as f:
        f.write(",".join(["Time"] + names) + "\n")
        for j in range(n):
            t = t0 + datetime.timedelta(seconds=dt * j)
            f.write(",".join([t.strftime("%Y-%m-%d %H:%M:%S")] + [repr(float(cols[k][j])) for k in names]) + "\n")


PI_NS = "http://www.wldelft.nl/fews/PI"


def write_pi_inputs(folder, ref, dt, pre, series, ids, pover):
    """rtcDataConfig.xml, timeseries_import.xml (forecast date = ref, `pre` stamps before it, NaN as
    missing value), rtcParameterConfig.xml"""
    os.makedirs(folder, exist_ok=True)
    with open(os.path.join(folder, "rtcDataConfig.xml"), "w") as f:
        f.write('<?xml version="1.0" encoding="UTF-8"?>\n<rtcDataConfig xmlns="http://www.wldelft.nl/fews">\n')
        for n in ids:
            f.write('<timeSeries id="%s"><PITimeSeries><locationId>Loc</locationId><parameterId>%s</parameterId>'
                    '</PITimeSeries></timeSeries>\n' % (n, n.upper()))
        f.write("</rtcDataConfig>\n")
    n = len(next(iter(series.values())))
    stamps = [ref + datetime.timedelta(seconds=dt * (j - pre)) for j in range(n)]
    d = lambda t: 'date="%s" time="%s"' % (t.strftime("%Y-%m-%d"), t.strftime("%H:%M:%S"))  # noqa
    with open(os.path.join(folder, "timeseries_import.xml"), "w") as f:
        f.write('<TimeSeries xmlns="%s" version="1.2">\n<timeZone>0.0</timeZone>\n' % PI_NS)
        for name, vals in series.items():
            f.write("<series><header><type>instantaneous</type><locationId>Loc</locationId><parameterId>%s</parameterId>"
                    '<timeStep unit="second" multiplier="%d"/><startDate %s/><endDate %s/><forecastDate %s/>'
                    "<missVal>-999.0</missVal><units>m</units></header>\n"
                    % (name.upper(), dt, d(stamps[0]), d(stamps[-1]), d(ref)))
            for t, v in zip(stamps, vals):
                f.write('<event %s value="%s" flag="0"/>\n' % (d(t), "-999.0" if math.isnan(v) else repr(float(v))))
            f.write("</series>\n")
        f.write("</TimeSeries>\n")
    with open(os.path.join(folder, "rtcParameterConfig.xml"), "w") as f:
        f.write('<parameters xmlns="%s" version="1.5">\n<group id="g" name="g" readonly="false">\n' % PI_NS)
        for k, v in dict(pover, c09_unused=1.0).items():
            f.write('<parameter id="%s"><dblValue>%s</dblValue></parameter>\n' % (k, repr(float(v))))
        f.write("</group>\n</parameters>\n")


def read_pi_export(path):
    """{PARAMETERID: [(datetime, value)]} with plain ElementTree"""
    import xml.etree.ElementTree as ET

    root = ET.parse(path).getroot()
    out = {}
    for ser in root.findall("{%s}series" % PI_NS):
        pid = ser.find("{%s}header/{%s}parameterId" % (PI_NS, PI_NS)).text
        out[pid] = [(datetime.datetime.strptime(e.get("date") + " " + e.get("time"), "%Y-%m-%d %H:%M:%S"), float(e.get("value")))
                    for e in ser.findall("{%s}event" % PI_NS)]
    return out


def stream_io(c, spec, tmp, rng, pending, nsteps, variant):
    _, CSVSim, MemSim, PISim = sim_classes()
    mdir = os.path.join(tmp, "model")
    idir = os.path.join(tmp, "input_" + spec["name"])
    odir = os.path.join(tmp, "output_" + spec["name"])
    os.makedirs(odir, exist_ok=True)
    G.write_mo(spec, mdir)
    names = G.all_names(spec)
    if variant == "mem":
        dt = rng.choice([1.0, 0.5, 2.0, 0.25, 3.0])
    else:
        dt = rng.choice([1, 1, 2, 3, 5, 60, 3600])
    n = nsteps + 1
    pre = 0 if variant == "csv" else rng.choice([0, 1, 2, 3])  # import stamps before t0 (forecast date inside the series)
    times_sec = [dt * (j - pre) for j in range(n + pre)]
    series = {u: [G.dy(rng, -2, 2) for _ in times_sec] for u in spec["inputs"]}
    # parameter overrides from the input files, initial state for non-fixed states
    pover = {p["n"]: G.dy(rng, -2, 2) for p in spec["params"] if rng.random() < 0.4}
    pv = {p["n"]: pover.get(p["n"], p["v"]) for p in spec["params"]}
    istate = {}
    if variant == "csv":
        for st in spec["states"]:
            # (a non-zero Modelica start attribute takes precedence over initial_state.csv, as documented
            #  in SimulationProblem.initialize: only states without a start attribute are given one here)
            if st["mode"] == "free0" and rng.random() < 0.7:
                istate[st["n"]] = G.dy(rng, -3, 3) * st["nom"]
    if variant != "csv":
        # NaN gaps (after t0): the input keeps its previous value
        for u in spec["inputs"]:
            for j in range(pre + 1, len(times_sec)):
                if rng.random() < 0.15:
                    series[u][j] = float("nan")
    case = {"stream": "io/" + variant, "spec": spec, "dt": dt, "times_sec": times_sec, "series": series,
            "parameters": pover, "initial_state": istate}
    if variant == "csv":
        t0 = datetime.datetime(2020, 2, 27, 22, 0, 0)
        write_csv_inputs(idir, t0, dt, series)
        if pover:
            with open(os.path.join(idir, "parameters.csv"), "w") as f:
                f.write(",".join(pover) + "\n" + ",".join(repr(float(v)) for v in pover.values()) + "\n")
        if istate:
            with open(os.path.join(idir, "initial_state.csv"), "w") as f:
                f.write(",".join(istate) + "\n" + ",".join(repr(float(v)) for v in istate.values()) + "\n")
        cls = CSVSim
    elif variant == "pi":
        t0 = datetime.datetime(2019, 12, 31, 23, 0, 0)
        write_pi_inputs(idir, t0, dt, pre, series, list(spec["inputs"]) + list(spec["outputs"]), pover)
        cls = PISim
    else:
        os.makedirs(idir, exist_ok=True)
        cls = MemSim
    r = call(cls, model_folder=mdir, model_name=spec["name"], input_folder=idir, output_folder=odir)
    c.programs += 1
    if r[0] == "raise":
        c.fail("model does not load: " + r[1], case)
        return
    sim = r[1]
    sim.c09_names = names
    sim.c09_log = []
    sim.c09_data = {"times_sec": times_sec, "series": series, "params": pover}
    r = call(sim.simulate)
    log = sim.c09_log
    if r[0] == "raise":
        c.hit("io/raise")
        if affine_ok(spec):
            c.disagree("simulate() raised on an affine (uniquely solvable) model: " + r[1], case, "returned", "raise")
        return
    c.count(("io", variant, spec["name"], spec["nonlinear"], len(spec["outputs"]), pre, bool(pover), bool(istate)))
    c.hit("io/" + variant)
    # ---- oracle: one log entry (and one output record) per step including t0
    if len(log) != n:
        c.fail("io: %d states logged for %d steps (+ t0)" % (len(log), nsteps), case)
        return
    for p, val in pv.items():
        if log[0][p] != val:
            c.fail("io: parameter %s does not carry the value from the input files" % p, case, {"expected": val, "got": log[0][p]})
    exp_fixed = dict(G.fixed_starts(spec))
    for st in spec["states"]:
        if st["mode"] == "pstart":
            exp_fixed[st["n"]] = pv[st["pstart"]]
    exp_fixed.update(istate)
    check_init(c, case, spec, log[0], exp_fixed, "io")
    # inputs: value of the series at the time of the state (t0 + j*dt); NaN keeps the previous one
    for u in spec["inputs"]:
        lastv = None
        for j in range(n):
            sv_ = series[u][pre + j]
            if not math.isnan(sv_):
                lastv = sv_
            if log[j][u] != lastv:
                c.fail("io: input %s at step %d is not the series value at t0 + %d*dt" % (u, j, j), case,
                       {"expected": lastv, "got": log[j][u]})
                break
    for j in range(n):
        if log[j]["time"] != dt * j:
            c.fail("io: time of record %d is not t0 + %d*dt" % (j, j), case, {"got": log[j]["time"], "dt": dt})
            break
    for j in range(1, n):
        check_step(c, dict(case, step=j - 1), spec, log[j - 1], log[j], float(dt), "io")
        c.count(("io-step", spec["name"], j))
    res = sim.extract_results()
    outs = list(sim.get_output_variables())
    if sorted(outs) != sorted(spec["outputs"]):
        c.fail("io: output variables differ from the declared outputs", case, {"declared": spec["outputs"], "got": outs})
    for o in spec["outputs"]:
        try:
            vals = [float(x) for x in res[o]]
        except KeyError:
            c.fail("io: output %s missing from extract_results()" % o, case)
            continue
        want = [log[j][o] for j in range(n)]
        if len(vals) != n:
            c.fail("io: output %s has %d records for %d steps (+ t0)" % (o, len(vals), nsteps), case, vals)
        elif vals != want:
            c.fail("io: recorded output %s differs from get_var at the same steps" % o, case, {"recorded": vals, "get_var": want})
    if variant == "csv":
        path = os.path.join(odir, "timeseries_export.csv")
        try:
            rows = list(pycsv.reader(open(path)))
        except OSError:
            rows = None
        if not rows:
            c.fail("io: no exported CSV file", case)
        else:
            head, body = rows[0], rows[1:]
            if len(body) != n:
                c.fail("io: exported file has %d rows for %d steps (+ t0)" % (len(body), nsteps), case)
            elif sorted(head[1:]) != sorted(spec["outputs"]):
                c.fail("io: exported columns differ from the declared outputs", case, head)
            else:
                for j, row in enumerate(body):
                    tt = (t0 + datetime.timedelta(seconds=dt * j)).strftime("%Y-%m-%d %H:%M:%S")
                    if row[0] != tt:
                        c.fail("io: exported time stamp %d is not t0 + %d*dt" % (j, j), case, {"got": row[0], "expected": tt})
                        break
                    bad = [(h, x, log[j][h]) for h, x in zip(head[1:], row[1:])
                           if not abs(float(x) - log[j][h]) <= 5.1e-7 + 1e-12 * abs(log[j][h])]
                    if bad:
                        c.fail("io: exported value differs from get_var at the same step", case, {"row": j, "bad": bad})
                        break
    elif variant == "pi":
        path = os.path.join(odir, "timeseries_export.xml")
        try:
            exp = read_pi_export(path)
        except Exception as e:
            exp = None
            c.fail("io: exported PI file unreadable: %s" % e, case)
        if exp is not None:
            for o in spec["outputs"]:
                ev = exp.get(o.upper())
                if ev is None:
                    c.fail("io: output %s missing from the exported PI file" % o, case, sorted(exp))
                    continue
                want_t = [t0 + datetime.timedelta(seconds=dt * j) for j in range(n)]
                if [t for t, _ in ev] != want_t:
                    c.fail("io: exported PI time stamps of %s are not t0 + j*dt, j = 0..%d" % (o, nsteps), case,
                           [str(t) for t, _ in ev])
                elif not all(abs(v - log[j][o]) <= 1e-12 * max(1.0, abs(v)) for j, (_, v) in enumerate(ev)):
                    c.fail("io: exported PI value of %s differs from get_var at the same step" % o, case,
                           {"file": [v for _, v in ev], "get_var": [log[j][o] for j in range(n)]})
    elif not getattr(sim, "c09_written", False):
        c.fail("io: write() not called by simulate()", case)
    # ---- model: the IO loop with the exact root finder (affine models)
    w = Wire(spec, pv)
    if affine_ok(spec):
        c.hit("io/affine-runs")
        ser = [{"idx": w.idx[u][0], "neg": False, "vals": [None if math.isnan(x) else fr(x) for x in series[u]]}
               for u in spec["inputs"]]
        ser.append({"idx": w.i_sin, "neg": False, "vals": [fr(math.sin(t)) for t in times_sec]})
        sv0 = w.sv(log[0])
        # before initialize() the unknowns hold guesses; the model's NLP oracle answers with X0
        line = dict(op="run", sv0=frs([0.0] * w.nX + sv0[w.nX:]), X0=frs(w.rawX(log[0])),
                    timesSec=frs(times_sec), series=ser, outs=[[w.idx[o][0], w.idx[o][1]] for o in spec["outputs"]],
                    dts=frs([-1.0] * nsteps), dtImport=fr(dt), **w.base())

        def cmp_run(out, case=case, log=log, n=n, spec=spec, dt=dt):
            if not isinstance(out, dict) or out.get("status") != "ok":
                c.disagree("io run: model did not return", case, out, "ok")
                return
            if [unfr(t) for t in out["times"]] != [Fraction(dt) * j for j in range(n)]:
                c.disagree("io run: simulation times", case, out["times"], [dt * j for j in range(n)])
            nm = row_scale(spec)
            for o, mo in zip(spec["outputs"], out["out"]):
                want = [log[j][o] for j in range(n)]
                if len(mo) != n or not all(close(m, x, TRAJ_TOL, 0.0) or abs(float(unfr(m)) - x) <= TRAJ_TOL * nm[o]
                                           for m, x in zip(mo, want)):
                    c.disagree("io run: output %s" % o, case, [float(unfr(m)) for m in mo], want)

        pending.append((line, cmp_run))
    else:
        nm = row_scale(spec)
        for j in range(1, n):
            prev, cur = log[j - 1], log[j]
            rr = scaled_residuals(spec, [e["terms"] for e in spec["eqs"]], cur, nm)
            exp = [x[0] for x in rr] + [cur["der(%s)" % s] - (cur[s] - prev[s]) / dt for s in w.S]
            scs = [x[1] for x in rr] + [1.0 + abs(cur["der(%s)" % s]) + (abs(cur[s]) + abs(prev[s])) / dt for s in w.S]
            line = dict(op="residual", X=frs(w.rawX(cur)), dt=fr(float(dt)), consts=frs(w.rawX(prev) + w.rest(cur)), **w.base())

            def cmp_res(out, exp=exp, scs=scs, case=dict(case, step=j - 1)):
                if not isinstance(out, list) or len(out) != len(exp) or not all(
                        close(m, e, EVAL_TOL, s) for m, e, s in zip(out, exp, scs)):
                    c.disagree("step residual (model vs oracle evaluation)", case, out, exp)

            pending.append((line, cmp_res))


def uses_sin(spec):
    return any(f == "@sin" for eq in spec["eqs"] + spec["init_eqs"] + spec.get("extras", [])
               for _c, fs in eq["terms"] for f in fs)


def stream_io_steps(c, spec, tmp, rng, pending):
    """IOMixin driven by explicit update(dt) calls whose dt differs from the import spacing (coarser
    steps, sub-steps, mixed with update(-1)), also on a non-equidistant import axis: the inputs of a
    step are the series values at index bisect_left(times_sec, t + dt) (the first import stamp not
    before the new time; a NaN keeps the previous value) and the backward-Euler equations hold with them"""
    import bisect

    MemSim = sim_classes()[2]
    mdir = os.path.join(tmp, "model")
    idir = os.path.join(tmp, "input_" + spec["name"])
    os.makedirs(idir, exist_ok=True)
    G.write_mo(spec, mdir)
    names = G.all_names(spec)
    g = rng.choice([1.0, 0.5, 2.0, 0.25])
    pre = rng.choice([0, 1, 2])
    nstamps = 16
    uneven = rng.random() < 0.35
    times_sec = [-g * pre + g * j for j in range(pre + 1)]  # ..., -g, 0
    while len(times_sec) < pre + nstamps:
        times_sec.append(times_sec[-1] + (g * rng.choice([1, 0.5, 2, 1.5]) if uneven and len(times_sec) > max(pre, 1) + 0 else g))
    if len(times_sec) < 2:
        times_sec.append(g)
    dt_import = times_sec[1] - times_sec[0]
    series = {u: [G.dy(rng, -2, 2) for _ in times_sec] for u in spec["inputs"]}
    for u in spec["inputs"]:
        for j in range(pre + 1, len(times_sec)):
            if rng.random() < 0.12:
                series[u][j] = float("nan")
    # the plan of update() arguments
    plan, t = [], 0.0
    for _ in range(8):
        dta = rng.choice([-1.0, g, 2 * g, g / 2, g / 2, 1.5 * g, 3 * g])
        eff = dt_import if dta < 0 else dta
        if t + eff > times_sec[-1]:
            break
        plan.append((dta, eff, t + eff, bisect.bisect_left(times_sec, t + eff)))
        t = t + eff
    case = {"stream": "io/memstep", "spec": spec, "grid": g, "times_sec": times_sec, "series": series,
            "update_args": [p_[0] for p_ in plan]}
    r = call(MemSim, model_folder=mdir, model_name=spec["name"], input_folder=idir, output_folder=idir)
    c.programs += 1
    if r[0] == "raise":
        c.fail("model does not load: " + r[1], case)
        return
    sim = r[1]
    sim.c09_names, sim.c09_log = names, []
    sim.c09_data = {"times_sec": times_sec, "series": series, "params": {}}
    r = call(lambda: (sim.pre(), sim.initialize()))
    if r[0] == "raise":
        c.hit("io/raise")
        if affine_ok(spec):
            c.disagree("initialize() raised on an affine (consistent) model: " + r[1], case, "returned", "raise")
        return
    log = sim.c09_log
    check_init(c, case, spec, log[0], G.fixed_starts(spec), "io/memstep")
    lastv = {}
    for u in spec["inputs"]:
        v = series[u][pre]
        lastv[u] = v
        if log[0][u] != v:
            c.fail("io: input %s at t0 is not the series value at t0" % u, case, {"expected": v, "got": log[0][u]})
    done = 0
    for k, (dta, eff, tnew, idx) in enumerate(plan):
        r = call(sim.update, dta)
        if r[0] == "raise":
            c.hit("io/raise")
            if affine_ok(spec):
                c.disagree("update(%s) raised on an affine (uniquely solvable) model: %s" % (dta, r[1]), dict(case, step=k),
                           "returned", "raise")
            break
        done += 1
        prev, cur = log[-2], log[-1]
        c.count(("io-memstep", spec["name"], k, dta < 0, eff == dt_import, tnew in times_sec))
        c.hit("io/memstep-" + ("import-dt" if eff == dt_import else "coarser" if eff > dt_import else "sub-step"))
        if cur["time"] != tnew:
            c.fail("io: time after update(%s) is not t + dt" % dta, dict(case, step=k), {"expected": tnew, "got": cur["time"]})
        for u in spec["inputs"]:
            v = series[u][idx]
            if not math.isnan(v):
                lastv[u] = v
            if cur[u] != lastv[u]:
                c.fail("io: input %s used by the step to t + dt = %s is not the import value at the first stamp not "
                       "before t + dt (index %d)" % (u, tnew, idx), dict(case, step=k),
                       {"expected": lastv[u], "got": cur[u], "t_new": tnew, "stamp": times_sec[idx]})
        check_step(c, dict(case, step=k), spec, prev, cur, eff, "io/memstep")
    res = sim.extract_results()
    for o in spec["outputs"]:
        try:
            vals = [float(x) for x in res[o]]
        except KeyError:
            c.fail("io: output %s missing from extract_results()" % o, case)
            continue
        want = [l[o] for l in log]
        if len(vals) != done + 1:
            c.fail("io: output %s has %d records for %d updates (+ t0)" % (o, len(vals), done), case, vals)
        elif vals != want:
            c.fail("io: recorded output %s differs from get_var at the same steps" % o, case, {"recorded": vals, "get_var": want})
    # model: the IO loop with the explicit dt arguments (affine models without the sin(time) pseudo-input)
    if affine_ok(spec) and not uses_sin(spec) and done == len(plan) and plan:
        w = Wire(spec, {p["n"]: log[0][p["n"]] for p in spec["params"]})
        c.hit("io/affine-runs")
        ser = [{"idx": w.idx[u][0], "neg": False, "vals": [None if math.isnan(x) else fr(x) for x in series[u]]}
               for u in spec["inputs"]]
        sv0 = w.sv(log[0])
        line = dict(op="run", sv0=frs([0.0] * w.nX + sv0[w.nX:]), X0=frs(w.rawX(log[0])), timesSec=frs(times_sec),
                    series=ser, outs=[[w.idx[o][0], w.idx[o][1]] for o in spec["outputs"]],
                    dts=frs([p_[0] for p_ in plan]), dtImport=fr(dt_import), **w.base())

        def cmp_run(out, case=case, log=log, spec=spec, plan=plan):
            if not isinstance(out, dict) or out.get("status") != "ok":
                c.disagree("io run (explicit dt): model did not return", case, out, "ok")
                return
            if [float(unfr(t_)) for t_ in out["times"]] != [0.0] + [p_[2] for p_ in plan]:
                c.disagree("io run (explicit dt): simulation times", case, out["times"], [0.0] + [p_[2] for p_ in plan])
            nm = row_scale(spec)
            for o, mo in zip(spec["outputs"], out["out"]):
                want = [l[o] for l in log]
                if len(mo) != len(want) or not all(abs(float(unfr(m)) - x) <= TRAJ_TOL * max(1.0, abs(x), nm[o])
                                                   for m, x in zip(mo, want)):
                    c.disagree("io run (explicit dt): output %s" % o, case, [float(unfr(m)) for m in mo], want)

        pending.append((line, cmp_run))


# ------------------------------------------------------------------------------------------------
# stream `xcheck`: simulation vs optimisation transcription (theta = 1, controls fixed)


def stream_xcheck(c, spec, tmp, rng, nsteps):
    from rtctools.optimization.collocated_integrated_optimization_problem import (
        CollocatedIntegratedOptimizationProblem,
    )
    from rtctools.optimization.modelica_mixin import ModelicaMixin
    from rtctools.optimization.timeseries import Timeseries

    Plain = sim_classes()[0]
    G.write_mo(spec, tmp)
    names = G.all_names(spec)
    dt = rng.choice([1.0, 0.5, 0.25, 2.0])
    ts = np.array([dt * j for j in range(nsteps + 1)])
    useq = {u: [G.dy(rng, -2, 2) for _ in ts] for u in spec["inputs"]}
    case = {"stream": "xcheck", "spec": spec, "dt": dt, "inputs": useq}
    r = call(Plain, model_folder=tmp, model_name=spec["name"], input_folder=tmp, output_folder=tmp)
    c.programs += 1
    if r[0] == "raise":
        c.fail("model does not load: " + r[1], case)
        return
    sim = r[1]
    sim.setup_experiment(0.0, ts[-1], dt)
    for u in spec["inputs"]:
        sim.set_var(u, useq[u][0])
    r = call(sim.initialize)
    if r[0] == "raise":
        c.hit("xcheck/sim-raise")
        if affine_ok(spec):
            c.disagree("initialize() raised on an affine (consistent) model: " + r[1], case, "returned", "raise")
        return
    log = [snap(sim, names)]
    for j in range(1, len(ts)):
        for u in spec["inputs"]:
            sim.set_var(u, useq[u][j])
        r = call(sim.update, dt)
        if r[0] == "raise":
            c.hit("xcheck/sim-raise")
            return
        log.append(snap(sim, names))

    class Opt(ModelicaMixin, CollocatedIntegratedOptimizationProblem):
        def times(self, variable=None):
            return ts

        def pre(self):
            pass

        def post(self):
            pass

        def bounds(self):
            b = super().bounds()
            for u in spec["inputs"]:
                s = Timeseries(ts, np.array(useq[u]))
                b[u] = (s, s)
            return b

        def objective(self, ensemble_member):
            import casadi as ca

            return ca.MX(0)

        def seed(self, ensemble_member):
            sd = super().seed(ensemble_member)
            for n_ in [s["n"] for s in spec["states"]] + [a["n"] for a in spec["algs"]]:
                sd[n_] = Timeseries(ts, np.array([l[n_] for l in log]) * (1.0 + 0.05))
            return sd

        def compiler_options(self):
            o = super().compiler_options()
            o["cache"] = False
            o["library_folders"] = []
            return o

        def solver_options(self):
            o = super().solver_options()
            o["ipopt"] = dict(o.get("ipopt", {}), print_level=0, tol=1e-10, constr_viol_tol=1e-10)
            o["print_time"] = False
            return o

    r = call(Opt, model_folder=tmp, model_name=spec["name"], input_folder=tmp, output_folder=tmp)
    if r[0] == "raise":
        c.fail("optimisation problem does not load: " + r[1], case)
        return
    opt = r[1]
    if getattr(opt, "theta", None) != 1:
        c.hit("xcheck/theta-not-1")
        return
    r = call(opt.optimize)
    if r[0] == "raise" or not r[1]:
        c.hit("xcheck/opt-failed")
        if affine_ok(spec):
            c.disagree("optimisation transcription with fixed controls did not solve: %s" % (r[1],), case, "ok", r[1])
        return
    res = opt.extract_results()
    nm = row_scale(spec)
    c.count(("xcheck", spec["name"], spec["nonlinear"], len(spec["states"]), len(spec["algs"])))
    c.hit("xcheck/compared")
    for n_ in [s["n"] for s in spec["states"]] + [a["n"] for a in spec["algs"]] + [a["n"] for a in spec["aliases"]]:
        a = np.array([l[n_] for l in log])
        try:
            b = np.asarray(res[n_], dtype=float)
        except KeyError:
            c.fail("xcheck: %s missing from the optimisation results" % n_, case)
            continue
        if len(a) == len(b):
            WORST["xcheck/tolerance"] = max(WORST["xcheck/tolerance"], float(np.max(
                np.abs(a - b) / (TRAJ_TOL * np.maximum(nm.get(n_, 1.0), np.maximum(np.abs(a), 1.0))))))
        if len(a) != len(b) or not np.all(np.abs(a - b) <= TRAJ_TOL * np.maximum(nm.get(n_, 1.0), np.maximum(np.abs(a), 1.0))):
            c.fail("simulation and theta=1 optimisation transcription give different trajectories for %s" % n_, case,
                   {"simulation": a.tolist(), "optimisation": b.tolist()})


# ------------------------------------------------------------------------------------------------
# stream `unsolvable`: steps / initialisations without a solution must raise


UNSOLVABLE = {
    # a*a + 1 = u has no real root once u < 1
    "U1": ("""model U1
  Real x1(start=1.0, fixed=true, nominal=%(nom)s);
  Real a1(start=1.0);
  input Real u1;
equation
  der(x1) = -x1 + a1;
  a1*a1 + 1.0 = u1;
end U1;
""", "nonlinear-step"),
    # singular linear system, consistent only while u1 = u2
    "U2": ("""model U2
  Real x1(start=1.0, fixed=true, nominal=%(nom)s);
  Real a1;
  Real a2;
  input Real u1;
  input Real u2;
equation
  der(x1) = -x1 + a1;
  a1 + a2 = u1;
  2.0*a1 + 2.0*a2 = 2.0*u2;
end U2;
""", "singular-step"),
    # fixed start value contradicts an initial equation
    "U3": ("""model U3
  Real x1(start=1.0, fixed=true, nominal=%(nom)s);
  input Real u1;
initial equation
  x1 = 2.0;
equation
  der(x1) = -x1 + u1;
end U3;
""", "init"),
    # exp(a) = u has no root for u <= 0 ... written with a square: (a-1)^2 = u - 3
    "U4": ("""model U4
  Real x1(start=0.5, fixed=true, nominal=%(nom)s);
  Real a1(start=2.0);
  input Real u1;
equation
  der(x1) = -2.0*x1 + a1;
  (a1 - 1.0)*(a1 - 1.0) = u1 - 3.0;
end U4;
""", "nonlinear-step"),
}


def stream_unsolvable(c, tmp, rng, pending):
    Plain = sim_classes()[0]
    for name, (src, kind) in UNSOLVABLE.items():
        nom = rng.choice([1.0, 10.0, 0.125])
        folder = os.path.join(tmp, "uns_" + name)
        os.makedirs(folder, exist_ok=True)
        with open(os.path.join(folder, name + ".mo"), "w") as f:
            f.write(src % {"nom": repr(nom)})
        case = {"stream": "unsolvable", "model": name, "kind": kind, "nominal": nom}
        r = call(Plain, model_folder=folder, model_name=name, input_folder=folder, output_folder=folder)
        c.programs += 1
        if r[0] == "raise":
            c.fail("model does not load: " + r[1], case)
            continue
        sim = r[1]
        names = list(sim.get_variables().keys())
        dt = rng.choice([1.0, 0.5, 2.0])
        sim.setup_experiment(0.0, 100.0, dt)
        good = {"U1": 2.0, "U2": 2.0, "U3": 1.0, "U4": 4.25}[name]
        for u in ("u1", "u2"):
            if u in names:
                sim.set_var(u, good)
        r = call(sim.initialize)
        c.count(("unsolvable", name, kind))
        if kind == "init":
            c.hit("unsolvable/init")
            if r[0] != "raise":
                c.fail("initialize() returned although fixed start value and initial equation contradict", case, snap(sim, names))
            continue
        if r[0] == "raise":
            c.disagree("initialize() raised on a solvable model: " + r[1], case, "returned", "raise")
            continue
        # a solvable step first (U2 excepted: its system is singular, the model's exact solver refuses it)
        if name != "U2":
            r = call(sim.update, dt)
            if r[0] == "raise":
                c.disagree("update() raised on a solvable step: " + r[1], case, "returned", "raise")
                continue
        before = snap(sim, names)
        bad = {"U1": 0.5, "U2": 0.5, "U4": 2.0}[name]
        sim.set_var("u1", bad)
        r = call(sim.update, dt)
        c.hit("unsolvable/step")
        if r[0] != "raise":
            c.fail("update() returned from a step that has no solution (u1 = %s)" % bad, case, snap(sim, names))
            continue
        after = snap(sim, names)
        # the model: unknowns unchanged, time advanced (C09_failure_raises)
        for n_ in names:
            exp = before[n_] + dt if n_ == "time" else (bad if n_ == "u1" else before[n_])
            if after[n_] != exp:
                c.disagree("object state after a failed update(): %s" % n_, case, exp, after[n_])
    # model side: the singular step makes the model's update raise as well
    line = {"op": "steps", "model": {"nS": 1, "nA": 2, "nE": 0, "nU": 2, "nP": 0,
                                      "F": [[{"c": "1", "f": [["d", 0]]}, {"c": "1", "f": [["x", 0]]}, {"c": "-1", "f": [["a", 0]]}],
                                            [{"c": "1", "f": [["a", 0]]}, {"c": "1", "f": [["a", 1]]}, {"c": "-1", "f": [["u", 0]]}],
                                            [{"c": "2", "f": [["a", 0]]}, {"c": "2", "f": [["a", 1]]}, {"c": "-2", "f": [["u", 1]]}]],
                                      "Finit": [], "G": []},
            "nom": [], "p": [], "sv": ["1", "1", "1", "0", "0", "2", "2"], "dt": "1",
            "steps": [{"dt": "1", "set": [{"idx": 5, "neg": False, "v": "1/2"}]}]}

    def cmp(out):
        if not (isinstance(out, list) and len(out) == 1 and out[0]["status"] == "raise"
                and out[0]["sv"] == ["1", "1", "1", "0", "1", "1/2", "2"]):
            c.disagree("model: singular inconsistent step must raise, unknowns kept, time advanced", line, out, "raise")

    pending.append((line, cmp))


# ------------------------------------------------------------------------------------------------
# stream `rootfinder`: every rootfinder the documentation of rootfinder_options() names (default nlpsol/ipopt,
# an explicit nlpsol dictionary, fast_newton, newton; with and without CasADi's own error_on_fail) on models
# with a square-root type algebraic `q1*q1 = affine(inputs[, state])`: the input drives steps out of the
# solvable range and back.  Oracle: every update() that RETURNS satisfies the property's step residual
# (check_step); a step whose right-hand side is negative by a margin has no solution and must raise (any
# exception type); a failed update() leaves the unknowns untouched and the time advanced (the model's
# `update`, theorem C09_failure_raises), and the run goes on from there.


ROOTFINDERS = ["fast_newton", "newton", "default", "fast_newton-opts", "newton-casadi-raises", "nlpsol-explicit",
               "fast_newton-casadi-raises"]


def rootfinder_dict(key, sim):
    if key == "default":
        return None
    if key == "nlpsol-explicit":
        return {"solver": "nlpsol", "solver_options": {"nlpsol": "ipopt", "error_on_fail": False,
                                                        "nlpsol_options": {"ipopt.print_level": 0, "print_time": False,
                                                                           "ipopt.tol": 1e-10}}}
    if key == "fast_newton":
        return {"solver": "fast_newton", "solver_options": {"error_on_fail": False}}
    if key == "newton":
        return {"solver": "newton", "solver_options": {"error_on_fail": False}}
    if key == "fast_newton-opts":
        return {"solver": "fast_newton", "solver_options": {"error_on_fail": False, "max_iter": 60, "abstol": 1e-11}}
    if key == "newton-casadi-raises":
        return {"solver": "newton", "solver_options": {"error_on_fail": True}}
    if key == "fast_newton-casadi-raises":
        return {"solver": "fast_newton", "solver_options": {}}
    raise KeyError(key)


SQ_MARGIN = 0.25  # |right-hand side| / nq^2 of the generated solvable / unsolvable steps is at least this


def stream_rootfinder(c, spec, tmp, sub, pending, nsteps, key):
    rng = random.Random(sub)
    Plain = sim_classes()[0]

    class WithRootfinder(Plain):
        def rootfinder_options(self):
            o = rootfinder_dict(key, self)
            return super().rootfinder_options() if o is None else o

    G.write_mo(spec, tmp)
    names = G.all_names(spec)
    sq = spec["sqrt"]
    case = {"stream": "rootfinder", "spec": spec, "sub": sub, "rootfinder": key}
    r = call(WithRootfinder, model_folder=tmp, model_name=spec["name"], input_folder=tmp, output_folder=tmp)
    c.programs += 1
    if r[0] == "raise":
        c.fail("model does not load: " + r[1], case)
        return
    sim = r[1]
    nm = row_scale(spec)
    start = rng.choice([0.0, 0.0, 2.0, -1.5])
    dt0 = rng.choice([1.0, 0.5, 0.25, 2.0])
    fixed = G.fixed_starts(spec)

    def aim(target, xval):
        """u1 such that the right-hand side of the q1 equation is `target` (in units of nq^2) given the state value"""
        off = sq["c0"] + (sq["cx"] * xval / nm[sq["state"]] if sq["state"] else 0.0)
        return (target - off) / sq["cu"]

    def others():
        return [G.dy(rng, -2, 2) for _ in spec["inputs"][1:]]

    x0 = fixed.get(sq["state"], 0.0) if sq["state"] else 0.0
    u_init = [aim(rng.choice([0.25, 1.0, 2.25]), x0)] + others()
    sim.setup_experiment(start, start + 1000.0, dt0)
    for u, val in zip(spec["inputs"], u_init):
        sim.set_var(u, val)
    r = call(sim.initialize)
    if r[0] == "raise":
        c.hit("rootfinder/init-raise")  # the initial state is found by the IPOPT NLP whatever the step rootfinder
        return
    v0 = snap(sim, names)
    check_init(c, case, spec, v0, fixed, "rootfinder")
    w = Wire(spec, {p["n"]: v0[p["n"]] for p in spec["params"]})
    # plan: solvable and unsolvable steps mixed; at least one unsolvable step followed by a solvable one
    kinds = [("bad" if rng.random() < 0.35 else "good") for _ in range(nsteps)]
    kinds[0] = "good"
    j = rng.randrange(1, nsteps - 1)
    kinds[j], kinds[j + 1] = "bad", "good"
    case.update(start=start, dt0=dt0, kinds=kinds, inputs=[u_init])
    prev = v0
    raised = returned = 0
    for k, kind in enumerate(kinds):
        # unsolvable targets are never the negative of a solvable one: with q1_prev^2 = -target * nq^2 the first
        # Newton iterate is exactly the singular point q1 = 0 (suspected finding S3, dedicated probe)
        target = rng.choice([0.25, 0.5, 1.0, 2.25, 4.0]) if kind == "good" else -rng.choice([0.3, 0.7, 1.3, 3.1, 9.7])
        ins = [aim(target, prev[sq["state"]] if sq["state"] else 0.0)] + others()
        case["inputs"].append(ins)
        for u, val in zip(spec["inputs"], ins):
            sim.set_var(u, val)
        dta = rng.choice([dt0, dt0, -1.0, 0.5, 1.5])
        dt = dta if dta > 0 else float(sim.get_time_step())
        before = snap(sim, names)
        r = call(sim.update, dta)
        # right-hand side of the q1 equation as far as it is known without solving the step
        decided = sq["state"] is None
        c.count(("rootfinder", spec["name"], key, k, kind, decided))
        if r[0] == "raise":
            raised += 1
            c.hit("rootfinder/%s/raise" % key)
            c.hit("rootfinder/raise-" + r[1].split(":")[0])
            if kind == "good" and decided:
                # a root exists (q1 = nq*sqrt(target) reachable from the previous positive q1); the remainder of
                # the model is the usual generated (affine / monotone) system
                c.hit("rootfinder/solvable-step-raised")
                if not spec.get("base_nonlinear"):
                    c.disagree("update() raised on a solvable step (rootfinder %s): %s" % (key, r[1]),
                               dict(case, step=k), "returned", "raise")
            after = snap(sim, names)
            # C09_failure_raises: unknowns unchanged, time advanced, inputs as set
            for n_ in names:
                exp = before["time"] + dt if n_ == "time" else before[n_]
                if not (after[n_] == exp or (n_ == "time" and abs(after[n_] - exp) <= 1e-12 * max(1.0, abs(exp)))):
                    c.disagree("object state after a failed update(): %s" % n_, dict(case, step=k), exp, after[n_])
            prev = after
            continue
        returned += 1
        c.hit("rootfinder/%s/return" % key)
        cur = snap(sim, names)
        if any(math.isnan(cur[n_]) for n_ in names):
            # CasADi's newton / fast_newton report success for a NaN iterate and update() only logs the NaN:
            # suspected finding S3 (the generator avoids the coincidence that produces it; listed -> attributed)
            c.hit("rootfinder/nan-state-returned")
            c.fail("update() returned a state containing NaN (rootfinder %s, %s step)" % (key, kind), dict(case, step=k),
                   {"values": cur, "prev": prev, "dt": dt}, finding=suspected_id("S3"))
            break
        if kind == "bad" and decided:
            c.fail("update() returned from a step that has no solution: q1*q1 = %s * nq^2 (rootfinder %s)" % (target, key),
                   dict(case, step=k), {"values": cur, "prev": prev, "dt": dt})
        check_step(c, dict(case, step=k), spec, prev, cur, dt, "rootfinder/" + key)
        for u, val in zip(spec["inputs"], ins):
            if cur[u] != val:
                c.fail("input %s changed during update()" % u, dict(case, step=k), {"set": val, "got": cur[u]})
        # model residual at this step (same comparison as in stream `plain`)
        dq_rows = [cur["der(%s)" % s_] - (cur[s_] - prev[s_]) / dt for s_ in w.S]
        rr = scaled_residuals(spec, [e["terms"] for e in spec["eqs"]], cur, nm)
        exp = [x[0] for x in rr] + dq_rows
        scs = [x[1] for x in rr] + [1.0 + abs(cur["der(%s)" % s_]) + (abs(cur[s_]) + abs(prev[s_])) / dt for s_ in w.S]
        line = dict(op="residual", X=frs(w.rawX(cur)), dt=fr(dt), consts=frs(w.rawX(prev) + w.rest(cur)), **w.base())

        def cmp_res(out, exp=exp, scs=scs, case=dict(case, step=k)):
            if not isinstance(out, list) or len(out) != len(exp) or not all(
                    close(m, e, EVAL_TOL, s_) for m, e, s_ in zip(out, exp, scs)):
                c.disagree("step residual (model vs oracle evaluation)", case, out, exp)

        pending.append((line, cmp_res))
        prev = cur
    if raised and returned:
        c.hit("rootfinder/runs-with-failed-and-solved-steps")


def gen_rootfinder_specs(c, n, k0):
    out = []
    for i in range(n):
        rng = random.Random(c.subseed())
        base_nl = rng.random() < 0.25
        spec = G.gen_spec(rng, k0 + i, nonlinear=base_nl, exact_init=True, big=c.big)
        spec["base_nonlinear"] = base_nl
        G.add_sqrt_alg(spec, rng, state_driven=(i % 3 == 2))
        out.append((spec, c.subseed(), ROOTFINDERS[i % len(ROOTFINDERS)]))
    return out


# ------------------------------------------------------------------------------------------------
# suspected findings (reported to the coordinator; the main generator avoids these inputs)


def probe_findings(c, tmp):
    """S1: an `output` assigned a constant is eliminated by pymoca but stays in the output list:
           IOMixin.initialize raises KeyError.
       S2: an import series named like a *state* is written into the state vector before every
           step (IOMixin.__set_input_variables loops over all variables, not the inputs).
       S3: newton / fast_newton: a Newton iterate on a singular Jacobian gives NaN with success = True;
           update() logs the NaN and returns the NaN state."""
    CSVSim = sim_classes()[1]
    t0 = datetime.datetime(2020, 1, 1)
    out = {}
    # S1
    d = os.path.join(tmp, "probe_s1")
    os.makedirs(os.path.join(d, "out"), exist_ok=True)
    with open(os.path.join(d, "K1.mo"), "w") as f:
        f.write("model K1\n  Real x1(start=1.0, fixed=true);\n  output Real a3;\n  output Real y;\n  input Real u1;\n"
                "equation\n  der(x1) = -2.0 * x1 + u1;\n  a3 = 250.0;\n  y = 2*x1;\nend K1;\n")
    write_csv_inputs(d, t0, 1, {"u1": [1.0, 2.0, 3.0]})
    r = call(CSVSim, model_folder=d, model_name="K1", input_folder=d, output_folder=os.path.join(d, "out"))
    if r[0] == "ok":
        r[1].c09_names, r[1].c09_log = ["x1"], []
        r2 = call(r[1].simulate)
        out["S1"] = (r2[0] == "raise" and "KeyError" in r2[1], r2)
    # S2
    d = os.path.join(tmp, "probe_s2")
    os.makedirs(os.path.join(d, "out"), exist_ok=True)
    with open(os.path.join(d, "K2.mo"), "w") as f:
        f.write("model K2\n  output Real x1(start=1.0, fixed=true);\n  input Real u1;\n"
                "equation\n  der(x1) = u1;\nend K2;\n")
    write_csv_inputs(d, t0, 1, {"u1": [1.0, 1.0, 1.0, 1.0], "x1": [1.0, 50.0, -7.0, 3.0]})
    r = call(CSVSim, model_folder=d, model_name="K2", input_folder=d, output_folder=os.path.join(d, "out"))
    if r[0] == "ok":
        r[1].c09_names, r[1].c09_log = ["x1", "der(x1)"], []
        r2 = call(r[1].simulate)
        if r2[0] == "ok":
            xs = [l["x1"] for l in r[1].c09_log]
            # backward Euler from x(0) = 1 with der(x) = 1: 1, 2, 3, 4
            out["S2"] = (xs != [1.0, 2.0, 3.0, 4.0], xs)
    # S3: der(x) = -x + u, y*y = u from x = y = u = 1: a solved step with u = 1 (y = 1 exactly), then u = -1: no real y.
    # The first Newton iterate is y = 1 + (-2)/(2*1) = 0 exactly (singular Jacobian), the next one NaN, which CasADi's
    # newton / fast_newton call a success
    d = os.path.join(tmp, "probe_s3")
    os.makedirs(d, exist_ok=True)
    with open(os.path.join(d, "K3.mo"), "w") as f:
        f.write("model K3\n  Real x(start=1.0, fixed=true);\n  Real y(start=1.0);\n  input Real u(fixed=true);\n"
                "equation\n  der(x) = -x + u;\n  y * y = u;\nend K3;\n")
    Plain = sim_classes()[0]
    obs = {}
    for solver in ("newton", "fast_newton"):
        K3 = type("K3" + solver, (Plain,), {"rootfinder_options": lambda self, solver=solver: {
            "solver": solver, "solver_options": {"error_on_fail": False}}})
        r = call(K3, model_folder=d, model_name="K3", input_folder=d, output_folder=d)
        if r[0] != "ok":
            continue
        sim = r[1]
        sim.setup_experiment(0.0, 10.0, 1.0)
        sim.set_var("u", 1.0)
        if call(sim.initialize)[0] != "ok" or call(sim.update, 1.0)[0] != "ok":
            continue
        sim.set_var("u", -1.0)
        r2 = call(sim.update, 1.0)
        obs[solver] = r2[1] if r2[0] == "raise" else {n_: float(sim.get_var(n_)) for n_ in ("x", "y", "der(x)")}
    if obs:
        out["S3"] = (any(isinstance(o, dict) and math.isnan(o["y"]) for o in obs.values()), obs)
    return out


# ------------------------------------------------------------------------------------------------


def stream_bisect(c, rng, pending, n):
    """`bisect.bisect_left` as used by the IO mixin vs the model's `bisectLeft` (exact)"""
    import bisect

    for _ in range(n):
        m = rng.randint(0, 8)
        step = rng.choice([1, 2, 0.5, 3600])
        t0 = rng.choice([0, -2, -3]) * step
        ts = [t0 + step * j for j in range(m)]
        t = rng.choice(ts) if ts and rng.random() < 0.6 else rng.uniform(t0 - 2 * step, t0 + (m + 1) * step)
        want = bisect.bisect_left(ts, t)
        c.count(("bisect", m, t in ts))

        def cmp(out, want=want, ts=ts, t=t):
            if out != want:
                c.disagree("bisect_left", {"ts": ts, "t": t}, out, want)

        pending.append((dict(op="bisect", ts=frs(ts), t=fr(t)), cmp))


def run_specs(c, specs_plain, specs_io, specs_x, nsteps, specs_rf=()):
    tmp = tempfile.mkdtemp(prefix="C09_")
    pending = []
    stream_bisect(c, c.rng, pending, 40)
    try:
        for spec, sub in specs_plain:
            stream_plain(c, spec, os.path.join(tmp, "plain"), random.Random(sub), pending, nsteps)
            c.sample({"stream": "plain", "model": G.write_mo(spec, os.path.join(tmp, "plain"))}, limit=2)
        for spec, sub, variant in specs_io:
            if variant == "memstep":
                stream_io_steps(c, spec, os.path.join(tmp, "io"), random.Random(sub), pending)
            else:
                stream_io(c, spec, os.path.join(tmp, "io"), random.Random(sub), pending, nsteps, variant)
        for spec, sub in specs_x:
            stream_xcheck(c, spec, os.path.join(tmp, "x"), random.Random(sub), nsteps)
        for spec, sub, key in specs_rf:
            stream_rootfinder(c, spec, os.path.join(tmp, "rf"), sub, pending, 8, key)
        stream_unsolvable(c, tmp, c.rng, pending)
        found = probe_findings(c, tmp)
    finally:
        shutil.rmtree(tmp, ignore_errors=True)
    outs = c.model([l for l, _ in pending])
    if outs is not None:
        for (line, fn), o in zip(pending, outs):
            if o in ("bad-op", "bad-json"):
                c.disagree("model driver rejected an operation", {"op": line.get("op")}, o, None)
            else:
                fn(o)
        c.hit("model/lines", len(pending))
    return found


SUSPECTED = {
    "S3": "with rootfinder_options() -> newton / fast_newton a Newton iterate that lands on a singular Jacobian turns NaN, "
          "CasADi reports success, and update() logs the NaN but returns a NaN state instead of raising",
    "S1": "IOMixin.initialize raises KeyError for an `output` variable assigned a constant (eliminated by pymoca, still listed as output)",
    "S2": "an import time series named like a state overwrites that state before every step (IOMixin sets all matching variables, not only inputs)",
}


def suspected_id(sid):
    """id of the listed finding that carries `c09_probe == sid`, or None"""
    from .common import load_known

    return next((k["id"] for k in load_known() if k.get("c09_probe") == sid), None)


def report_suspected(c, found):
    """known -> KNOWN-FINDING line; fixed -> must not reproduce; unlisted -> recorded in the evidence"""
    from .common import load_known

    listed = {k["id"]: k for k in load_known()}
    notes = {}
    for sid, what in SUSPECTED.items():
        rep = found.get(sid, (False, None))
        fid = next((k for k, e in listed.items() if e.get("c09_probe") == sid), None)
        if fid is not None and listed[fid].get("status") == "known":
            c.known_probe(fid, bool(rep[0]), what)
        elif fid is not None:
            if rep[0]:
                c.fail("repaired finding %s reproduces: %s" % (fid, what), {"probe": sid}, rep[1])
        else:
            notes[sid] = {"what": what, "reproduced": bool(rep[0]), "observed": repr(rep[1])[:200]}
    if notes:
        c.extra["suspected_findings_not_listed"] = notes


def run(c):
    logging.getLogger("rtctools").setLevel(logging.CRITICAL)
    c.rule = (
        "random Modelica models printed from a coefficient table (1-3 states (4 in thorough), 0-3 algebraics, 1-2 "
        "inputs, 0-2 parameters, 0-3 aliases half of them negated and used inside equations, nominals 0.01..1000, start "
        "modes fixed / fixed at 0 / parameter start / free / none / initial equation / steady state; 40% with cubic, "
        "bilinear, sin(time), time terms; a third of the plain models with Python-side extra variables + extra "
        "equations); streams: plain update() with varying dt (positive and -1), start time != 0 and set_var on states "
        "between steps; IO mixins: CSVMixin (files incl. parameters.csv / initial_state.csv, exported CSV read back), "
        "PIMixin (generated rtcDataConfig / timeseries_import / rtcParameterConfig XML, forecast date inside the "
        "series, missing values, exported XML read back) and an in-memory IOMixin (t0 inside the series, NaN gaps; "
        "also stepped by explicit update(dt) with dt coarser / finer than the import spacing and on a non-equidistant "
        "import axis: inputs = import value at bisect_left(times, t+dt)); "
        "optimisation cross-check (ModelicaMixin + collocation, theta = 1, controls fixed by bounds, IPOPT); four "
        "unsolvable step / initialisation models; stream rootfinder: generated models + algebraic q1*q1 = affine(u1[, "
        "state]) under rootfinder_options() = default / explicit nlpsol / fast_newton / newton (error_on_fail on and "
        "off, extra solver options), 8 steps with the input aimed at solvable (rhs >= 0.25 nq^2) and unsolvable (rhs <= "
        "-0.3 nq^2) right-hand sides, at least one unsolvable step followed by a solvable one; bisect table.  "
        "distinct = (stream, model, step) tuples"
    )
    c.assumptions = [
        "pymoca delivers states and der_states in matching order and detects `a = b` / `a = -b` as aliases (re-checked per model through get_var on every name)",
        "ca.rootfinder / IPOPT report success only at a root (the oracle re-evaluates every returned state: |residual| <= 1e-7 x row scale)",
        "the initial-state NLP's choice among consistent states and IPOPT's convergence are not modelled",
        "delay() equations belong to property C16 and are not generated here",
        "exported CSV is written with 6 decimals (%f): file values compared to 5.1e-7 absolute",
        "known finding F37: an `output` that pymoca eliminates as a constant assignment makes IOMixin.initialize raise "
        "KeyError (generated models never assign a constant/known expression to a variable; dedicated probe)",
        "known finding F38: an import series named like a state overwrites that state before every step (generated "
        "import data only carries input columns, theorem hypothesis `SeriesWF`; dedicated probe)",
        "suspected finding S3 (not listed yet): with newton / fast_newton a Newton iterate that lands exactly on a "
        "singular Jacobian turns NaN, CasADi reports success and update() returns the NaN state (only logs it); the "
        "rootfinder stream avoids unsolvable right-hand sides equal to minus the previous q1^2 (dedicated probe)",
        "a non-zero Modelica start attribute takes precedence over initial_state.csv (documented in "
        "SimulationProblem.initialize): initial-state files are generated only for states without start attribute",
    ]
    c.prove(extra=gen_sim_step(c))  # + the simulation bookkeeping translated from the source
    rng = c.rng
    n_plain = c.n(18, 120)
    n_io = c.n(24, 160)
    n_x = c.n(8, 60)
    nsteps = 10
    k = 0
    specs_plain, specs_io, specs_x = [], [], []
    for _ in range(n_plain):
        specs_plain.append((G.gen_spec(random.Random(c.subseed()), k, big=c.big, with_extras=(k % 3 == 2)), c.subseed()))
        k += 1
    for i in range(n_io):
        specs_io.append((G.gen_spec(random.Random(c.subseed()), k, big=c.big), c.subseed(), ("csv", "mem", "pi", "memstep")[i % 4]))
        k += 1
    for _ in range(n_x):
        specs_x.append((G.gen_spec(random.Random(c.subseed()), k, exact_init=True, big=c.big), c.subseed()))
        k += 1
    specs_rf = gen_rootfinder_specs(c, c.n(9, 42), k)
    found = run_specs(c, specs_plain, specs_io, specs_x, nsteps, specs_rf)
    report_suspected(c, found)
    c.extra["worst_observed_over_tolerance"] = {k: float("%.3g" % v) for k, v in WORST.items()}
    c.exhaustive = False
    c.notes.append("every returned state of every run is re-checked by the independent oracle; the Lean model "
                   "is evaluated on the same state vectors (residual agreement) and, for affine models, re-runs "
                   "the whole trajectory with an exact root finder; the unbounded claim is carried by the theorems")


def replay(c, rp):
    logging.getLogger("rtctools").setLevel(logging.CRITICAL)
    c.prove(extra=gen_sim_step(c))  # + the simulation bookkeeping translated from the source
    plain, io, xs, rf = [], [], [], []
    for f in rp.get("failures", []) + rp.get("correspondence_disagreements", []) + rp.get("disagreements", []):
        case = f.get("case") or {}
        spec = case.get("spec")
        if not isinstance(spec, dict):
            continue
        for eq in spec["eqs"] + spec["init_eqs"]:
            eq["terms"] = [(t[0], list(t[1])) for t in eq["terms"]]
        st = case.get("stream", "plain")
        print("replaying", f.get("what"), "on", spec["name"], "stream", st)
        if st == "rootfinder":
            if not any(spec["name"] == q[0]["name"] and case["rootfinder"] == q[2] for q in rf):
                rf.append((spec, case["sub"], case["rootfinder"]))
        elif st.startswith("io"):
            io.append((spec, c.subseed(), st.split("/")[-1]))
        elif st == "xcheck":
            xs.append((spec, c.subseed()))
        else:
            plain.append((spec, c.subseed()))
    found = run_specs(c, plain, io, xs, 10, rf)
    report_suspected(c, found)
