"""
C09 helper: generated Modelica models from a coefficient table + an independent evaluator.

A model *spec* is plain JSON-able data.  `write_mo` prints it as a `.mo` file for pymoca; the
evaluator (`eq_residuals`) knows the equations from the same table and evaluates them on named
values (as read through `get_var`), never looking at anything rtc-tools derived from the file.

Term table.  An equation is  `sum_k coef_k * prod(factors_k) = 0`;  a factor is
    "name"        a model variable (state, algebraic, input, parameter, alias)
    "der(name)"   derivative of a state
    "@t"          time
    "@sin"        sin(time)
The equation text is printed either as `lead = -(rest)` (lead = first term, coefficient 1) or as
`all terms = 0`; both have the same solution set.
"""
import math
import os
from fractions import Fraction


def dy(rng, lo, hi, den=8):
    """random dyadic number k/den in [lo, hi], never 0"""
    while True:
        k = rng.randint(int(lo * den), int(hi * den))
        if k != 0:
            return k / den


NOMS = [1.0, 1.0, 10.0, 100.0, 0.125, 0.01, 2.5, 1000.0]


def gen_spec(rng, idx, nonlinear=None, exact_init=False, big=False, with_extras=False):
    """one random model.  exact_init: every state gets a fixed start or an initial equation
    (initial state uniquely determined; needed for the optimisation cross-check)."""
    if nonlinear is None:
        nonlinear = rng.random() < 0.4
    nS = rng.randint(1, 4 if big else 3)
    nA = rng.randint(0, 4 if big else 3)
    nU = rng.randint(1, 2)
    nP = rng.randint(0, 2)
    states = []
    for i in range(nS):
        nom = rng.choice(NOMS)
        mode = rng.choice(["fixed", "fixed", "fixed0", "free", "free0", "initeq", "steady", "pstart"])
        if exact_init and mode in ("free", "free0"):
            mode = "fixed"
        if mode == "pstart" and nP == 0:
            mode = "fixed"
        st = dict(n="x%d" % (i + 1), nom=nom, mode=mode, start=0.0)
        if mode in ("fixed", "free", "initeq"):
            st["start"] = dy(rng, -4, 4) * (nom if rng.random() < 0.7 else 1.0)
        states.append(st)
    algs = [dict(n="a%d" % (j + 1), nom=rng.choice(NOMS)) for j in range(nA)]
    inputs = ["u%d" % (k + 1) for k in range(nU)]
    params = [dict(n="p%d" % (l + 1), v=dy(rng, -2, 2)) for l in range(nP)]
    for st in states:
        if st["mode"] == "pstart":
            st["pstart"] = rng.choice(params)["n"]
    # aliases of states / algebraics (plain and negated)
    aliases = []
    base = [s["n"] for s in states] + [a["n"] for a in algs]
    for q in range(rng.randint(0, 3)):
        aliases.append(dict(n="al%d" % (q + 1), of=rng.choice(base), neg=rng.random() < 0.5))
    anames = [a["n"] for a in aliases]

    def alias_or(v):
        """sometimes refer to a variable through one of its aliases (sign compensated)"""
        cands = [a for a in aliases if a["of"] == v]
        if cands and rng.random() < 0.4:
            a = rng.choice(cands)
            return a["n"], (-1.0 if a["neg"] else 1.0)
        return v, 1.0

    eqs = []
    snames = [s["n"] for s in states]
    # scale of a variable's typical magnitude: coefficients are scaled so that terms stay O(nominal)
    nomof = {s["n"]: s["nom"] for s in states}
    nomof.update({a["n"]: a["nom"] for a in algs})
    for i, st in enumerate(states):
        x = st["n"]
        ni = st["nom"]
        terms = [(1.0, ["der(%s)" % x])]
        v, sg = alias_or(x)
        terms.append((sg * dy(rng, 0.25, 2), [v]))  # + d*x on the left  <=> der(x) = -d*x
        for j, o in enumerate(snames):
            if o != x and rng.random() < 0.5:
                v, sg = alias_or(o)
                terms.append((sg * dy(rng, -0.25, 0.25) * ni / nomof[o], [v]))
        for a in algs:
            if rng.random() < 0.4:
                v, sg = alias_or(a["n"])
                terms.append((sg * dy(rng, -0.25, 0.25) * ni / a["nom"], [v]))
        for u in inputs:
            if rng.random() < 0.7:
                terms.append((dy(rng, -2, 2) * ni, [u]))
        for p in params:
            if rng.random() < 0.4:
                terms.append((dy(rng, -1, 1) * ni, [p["n"]]))
        if rng.random() < 0.3:
            terms.append((dy(rng, -1, 1) * ni, []))
        if nonlinear:
            r = rng.random()
            if r < 0.35:
                terms.append((dy(rng, 0.125, 0.5) / (ni * ni), [x, x, x]))  # + c x^3 (monotone)
            elif r < 0.55:
                terms.append((dy(rng, -1, 1) * ni, ["@sin"]))
            elif r < 0.7 and params:
                p = rng.choice(params)
                terms.append((abs(dy(rng, 0.125, 0.5)) * (1 if p["v"] > 0 else -1), [x, p["n"]]))
            elif r < 0.85:
                terms.append((dy(rng, -0.25, 0.25) * ni, ["@t"]))
        eqs.append(dict(kind="der", of=x, terms=terms, form=rng.choice(["explicit", "explicit", "implicit"])))
    for j, a in enumerate(algs):
        nj = a["nom"]
        terms = [(1.0, [a["n"]])]
        for o in snames:
            if rng.random() < 0.6:
                v, sg = alias_or(o)
                terms.append((sg * dy(rng, -1, 1) * nj / nomof[o], [v]))
        for b in algs[:j]:
            if rng.random() < 0.4:
                v, sg = alias_or(b["n"])
                terms.append((sg * dy(rng, -0.5, 0.5) * nj / b["nom"], [v]))
        for u in inputs:
            if rng.random() < 0.4:
                terms.append((dy(rng, -2, 2) * nj, [u]))
        for p in params:
            if rng.random() < 0.3:
                terms.append((dy(rng, -1, 1) * nj, [p["n"]]))
        if rng.random() < 0.3:
            terms.append((dy(rng, -3, 3) * nj, []))
        if rng.random() < 0.25:
            o = rng.choice(snames)
            terms.append((dy(rng, -0.5, 0.5) * nj / nomof[o], ["der(%s)" % o]))  # e.g. flow = dV/dt
        if nonlinear:
            r = rng.random()
            if r < 0.3:
                o1, o2 = rng.choice(snames), rng.choice(snames)
                terms.append((dy(rng, -0.5, 0.5) * nj / (nomof[o1] * nomof[o2]), [o1, o2]))
            elif r < 0.5:
                terms.append((dy(rng, -1, 1) * nj, ["@sin"]))
            elif r < 0.65:
                o = rng.choice(snames)
                u = rng.choice(inputs)
                terms.append((dy(rng, -0.5, 0.5) * nj / nomof[o], [o, u]))
        known = set(inputs) | {p["n"] for p in params}
        if not any(f not in known for _c, fs in terms[1:] for f in fs):
            # `a = constant/known expression` would be eliminated by pymoca
            # (eliminate_constant_assignments): keep the variable alive with a state term
            o = rng.choice(snames)
            terms.append((dy(rng, -1, 1) * nj / nomof[o], [o]))
        eqs.append(dict(kind="alg", of=a["n"], terms=terms, form=rng.choice(["explicit", "explicit", "implicit"])))
    # initial equations
    init_eqs = []
    for st in states:
        if st["mode"] == "initeq":
            terms = [(1.0, [st["n"]]), (-st["start"], [])]
            if params and rng.random() < 0.5:
                terms.append((dy(rng, -1, 1) * st["nom"], [rng.choice(params)["n"]]))
            init_eqs.append(dict(terms=terms))
        elif st["mode"] == "steady":
            init_eqs.append(dict(terms=[(1.0, ["der(%s)" % st["n"]])]))
    outputs = [v for v in base + anames if rng.random() < 0.6]
    if not outputs:
        outputs = [base[0]]
    # user-defined extra variables with their defining equations (SimulationProblem.extra_variables /
    # extra_equations, written in Python, not in the .mo file)
    extras = []
    if with_extras:
        for q in range(rng.randint(1, 2)):
            ne = rng.choice(NOMS)
            terms = [(1.0, ["e%d" % (q + 1)])]
            for o in rng.sample(base + anames, min(len(base + anames), rng.randint(1, 2))):
                v, sg = alias_or(o) if o in base else (o, 1.0)
                terms.append((sg * dy(rng, -1, 1) * ne / nomof.get(o, 1.0), [v]))
            if rng.random() < 0.5:
                terms.append((dy(rng, -2, 2) * ne, [rng.choice(inputs)]))
            if extras and rng.random() < 0.5:
                terms.append((dy(rng, -0.5, 0.5) * ne / extras[-1]["nom"], [extras[-1]["n"]]))
            if nonlinear and rng.random() < 0.5:
                o = rng.choice(snames)
                terms.append((dy(rng, -0.5, 0.5) * ne / nomof[o] ** 2, [o, o]))
            if rng.random() < 0.3:
                terms.append((dy(rng, -1, 1) * ne, ["@sin" if nonlinear else "@t"]))
            extras.append(dict(n="e%d" % (q + 1), nom=ne, terms=terms))
    return dict(name="G%d" % idx, states=states, algs=algs, inputs=inputs, params=params, aliases=aliases,
                eqs=eqs, init_eqs=init_eqs, outputs=outputs, nonlinear=bool(nonlinear), extras=extras)


def add_sqrt_alg(spec, rng, state_driven):
    """adds the algebraic `q1` with the mildly nonlinear equation

        (1/nq) * q1*q1 = nq * (cu*u1 + c0 [+ cx * x_k / nom_k])

    which has a real root only while its right-hand side is >= 0: an input value can drive a step out of
    the solvable range.  `state_driven`: the right-hand side also contains a state (solvability then
    depends on the solution of the step itself).  q1 is fed back into one state equation half of the
    time.  Returns the data the harness needs to aim at a right-hand side: (cu, c0) in units of nq."""
    nq = rng.choice(NOMS)
    cu = dy(rng, 0.25, 2) * rng.choice([1.0, -1.0])
    c0 = dy(rng, -1, 1)
    terms = [(1.0 / nq, ["q1", "q1"]), (-cu * nq, ["u1"]), (-c0 * nq, [])]
    sq = dict(cu=cu, c0=c0, nq=nq, state=None)
    if state_driven:
        st = rng.choice(spec["states"])
        cx = dy(rng, 0.125, 0.5) * rng.choice([1.0, -1.0])
        terms.append((-cx * nq / st["nom"], [st["n"]]))
        sq.update(state=st["n"], cx=cx)
    spec["algs"].append(dict(n="q1", nom=nq, start=nq))
    spec["eqs"].append(dict(kind="alg", of="q1", terms=terms, form="implicit"))
    if rng.random() < 0.5:
        st = rng.choice(spec["states"])
        for eq in spec["eqs"]:
            if eq["kind"] == "der" and eq["of"] == st["n"]:
                eq["terms"].append((dy(rng, -0.25, 0.25) * st["nom"] / nq, ["q1"]))
    if rng.random() < 0.5:
        spec["outputs"].append("q1")
    spec["nonlinear"] = True
    spec["sqrt"] = sq
    return spec


def is_affine(spec):
    """every term has at most one unknown factor (state/algebraic/alias/der); inputs, parameters
    and the time functions count as known"""
    known = set(spec["inputs"]) | {p["n"] for p in spec["params"]} | {"@t", "@sin"}
    for eq in spec["eqs"] + spec["init_eqs"] + spec.get("extras", []):
        for _c, fs in eq["terms"]:
            if sum(1 for f in fs if f not in known) > 1:
                return False
    return True


# ------------------------------------------------------------------------------------------------
# printing


def num(x):
    return repr(float(x))


def term_text(c, fs):
    fac = ["sin(time)" if f == "@sin" else "time" if f == "@t" else f for f in fs]
    if not fac:
        return "(%s)" % num(c)
    return "(%s) * %s" % (num(c), " * ".join(fac))


def eq_text(eq):
    terms = eq["terms"]
    if eq.get("form", "implicit") == "explicit":
        (c0, f0), rest = terms[0], terms[1:]
        assert c0 == 1.0 and len(f0) == 1
        rhs = " + ".join(term_text(-c, fs) for c, fs in rest) or "0.0"
        return "  %s = %s;" % (f0[0], rhs)
    return "  %s = 0.0;" % " + ".join(term_text(c, fs) for c, fs in terms)


def write_mo(spec, folder):
    L = ["model %s" % spec["name"]]
    outs = set(spec["outputs"])
    for p in spec["params"]:
        L.append("  parameter Real %s = %s;" % (p["n"], num(p["v"])))
    for st in spec["states"]:
        att = []
        m = st["mode"]
        if m == "fixed":
            att += ["start=%s" % num(st["start"]), "fixed=true"]
        elif m == "fixed0":
            att += ["start=0.0", "fixed=true"]
        elif m == "pstart":
            att += ["start=%s" % st["pstart"], "fixed=true"]
        elif m in ("free", "initeq"):
            att += ["start=%s" % num(st["start"])]
        if st["nom"] != 1.0:
            att.append("nominal=%s" % num(st["nom"]))
        L.append("  %sReal %s%s;" % ("output " if st["n"] in outs else "", st["n"], "(%s)" % ", ".join(att) if att else ""))
    for a in spec["algs"]:
        att = ["start=%s" % num(a["start"])] if "start" in a else []
        att += ["nominal=%s" % num(a["nom"])] if a["nom"] != 1.0 else []
        L.append("  %sReal %s%s;" % ("output " if a["n"] in outs else "", a["n"], "(%s)" % ", ".join(att) if att else ""))
    for al in spec["aliases"]:
        L.append("  %sReal %s;" % ("output " if al["n"] in outs else "", al["n"]))
    for u in spec["inputs"]:
        L.append("  input Real %s;" % u)
    if spec["init_eqs"]:
        L.append("initial equation")
        for eq in spec["init_eqs"]:
            L.append(eq_text(eq))
    L.append("equation")
    for eq in spec["eqs"]:
        L.append(eq_text(eq))
    for al in spec["aliases"]:
        L.append("  %s = %s%s;" % (al["n"], "-" if al["neg"] else "", al["of"]))
    L.append("end %s;" % spec["name"])
    os.makedirs(folder, exist_ok=True)
    with open(os.path.join(folder, spec["name"] + ".mo"), "w") as f:
        f.write("\n".join(L) + "\n")
    return "\n".join(L)


# ------------------------------------------------------------------------------------------------
# independent evaluation


def all_names(spec):
    """every name the harness reads through get_var"""
    names = [s["n"] for s in spec["states"]] + [a["n"] for a in spec["algs"]]
    names += ["der(%s)" % s["n"] for s in spec["states"]]
    names += [a["n"] for a in spec["aliases"]] + list(spec["inputs"]) + [p["n"] for p in spec["params"]]
    names += [e["n"] for e in spec.get("extras", [])]
    return names + ["time"]


def factor_value(f, vals):
    if f == "@t":
        return vals["time"]
    if f == "@sin":
        return math.sin(vals["time"])
    return vals[f]


def eval_terms(terms, vals, der_override=None):
    """(value, scale): scale = 1 + sum |term| (the size against which a residual is judged)"""
    tot, sc = 0.0, 0.0
    parts = []
    for c, fs in terms:
        v = float(c)
        for f in fs:
            if der_override is not None and f in der_override:
                v *= der_override[f]
            else:
                v *= factor_value(f, vals)
        parts.append(v)
        sc += abs(v)
    tot = math.fsum(parts)
    return tot, 1.0 + sc


def eq_residuals(spec, vals, der_override=None):
    """list of (label, residual, scale) of the model equations (dynamic + alias equations)"""
    out = []
    for eq in spec["eqs"]:
        r, sc = eval_terms(eq["terms"], vals, der_override)
        out.append(("%s:%s" % (eq["kind"], eq["of"]), r, sc))
    for al in spec["aliases"]:
        sg = -1.0 if al["neg"] else 1.0
        out.append(("alias:" + al["n"], vals[al["n"]] - sg * vals[al["of"]], 0.0))  # exact
    return out


def init_residuals(spec, vals):
    out = []
    for k, eq in enumerate(spec["init_eqs"]):
        r, sc = eval_terms(eq["terms"], vals)
        out.append(("init:%d" % k, r, sc))
    return out


def fixed_starts(spec):
    """name -> expected value at t0 for `fixed=true` variables"""
    pv = {p["n"]: p["v"] for p in spec["params"]}
    out = {}
    for st in spec["states"]:
        if st["mode"] == "fixed":
            out[st["n"]] = st["start"]
        elif st["mode"] == "fixed0":
            out[st["n"]] = 0.0
        elif st["mode"] == "pstart":
            out[st["n"]] = pv[st["pstart"]]
    return out


def free_starts(spec):
    return {st["n"]: st["start"] for st in spec["states"] if st["mode"] == "free"}


# ------------------------------------------------------------------------------------------------
# wire form for the Lean driver: polynomial term table over slots of the model's `Env`
#   slot = ["x", i] | ["a", j] | ["d", i] | ["u", k] | ["p", l] | ["t"] ; "@sin" is passed as an
#   extra input slot (its value is computed here, the model's F is arbitrary in the inputs)


def wire_terms(spec, terms, frac):
    sidx = {s["n"]: i for i, s in enumerate(spec["states"])}
    aidx = {a["n"]: j for j, a in enumerate(spec["algs"])}
    uidx = {u: k for k, u in enumerate(spec["inputs"])}
    pidx = {p["n"]: l for l, p in enumerate(spec["params"])}
    eidx = {e["n"]: i for i, e in enumerate(spec.get("extras", []))}
    al = {a["n"]: a for a in spec["aliases"]}
    out = []
    for c, fs in terms:
        c = Fraction(float(c))
        slots = []
        for f in fs:
            if f in al:  # the harness resolves aliases itself: al = +-target
                if al[f]["neg"]:
                    c = -c
                f = al[f]["of"]
            if f == "@t":
                slots.append(["t"])
            elif f == "@sin":
                slots.append(["u", len(spec["inputs"])])
            elif f.startswith("der("):
                slots.append(["d", sidx[f[4:-1]]])
            elif f in sidx:
                slots.append(["x", sidx[f]])
            elif f in aidx:
                slots.append(["a", aidx[f]])
            elif f in uidx:
                slots.append(["u", uidx[f]])
            elif f in eidx:
                slots.append(["e", eidx[f]])
            else:
                slots.append(["p", pidx[f]])
        out.append({"c": frac(c), "f": slots})
    return out


def wire_model(spec, frac):
    return {
        "nS": len(spec["states"]), "nA": len(spec["algs"]), "nE": len(spec.get("extras", [])),
        "nU": len(spec["inputs"]) + 1, "nP": len(spec["params"]),
        "F": [wire_terms(spec, eq["terms"], frac) for eq in spec["eqs"]],
        "Finit": [wire_terms(spec, eq["terms"], frac) for eq in spec["init_eqs"]],
        "G": [wire_terms(spec, e["terms"], frac) for e in spec.get("extras", [])],
    }
