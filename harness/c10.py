"""
C10 -- a failed priority stops the run and leaves the last good results.

Proof obligations: lean/RtcVerif/Props/C10.lean (model lean/RtcVerif/Model/C10Priority.lean).
Correspondence: the real `GoalProgrammingMixin` and `SinglePassGoalProgrammingMixin` (and, as a
third variant, `MinAbsGoalProgrammingMixin` on top of the multi-pass mixin) on a small synthetic
linear problem (no Modelica) solved with IPOPT; solver failures are injected through the public
`casadi_solver` option (effective outcome = script AND real success, the model is fed the
effective outcomes).  Compared with the Lean model: the complete event log (priority_started,
solver call + outcome, priority_completed, post), the return value of optimize(), the priorities
attempted, `Goal.is_empty` of every goal, and which results `extract_results()` exposes after the
run.  The independent oracle re-states the property on the observed log and result objects; which goals are
"empty" is judged from the goal DATA (`spec_empty`: the goal has a target side and no entry of either side is
finite), never by asking the code (`Goal.is_empty` is only compared, as an observable, with the model, and is
translated: `isEmptyGen_eq_model`).  Stream `partial`: targets that are all / partly / not at all finite, as 1-D
and vector Timeseries and numpy vectors, min only / max only / both, alone at their priority and shared.
"""
import itertools
import logging
import math

import numpy as np

from .common import fr, quiet_fd

NAN = float("nan")
_CLS = None


# ---------------------------------------------------------------------------------------------
# the synthetic problem and its taps


def make_classes():
    global _CLS
    if _CLS is not None:
        return _CLS
    import casadi as ca
    from pymoca.backends.casadi.alias_relation import AliasRelation
    from rtctools._internal.alias_tools import AliasDict
    from rtctools.optimization.collocated_integrated_optimization_problem import (
        CollocatedIntegratedOptimizationProblem,
    )
    from rtctools.optimization.goal_programming_mixin import Goal, GoalProgrammingMixin
    from rtctools.optimization.min_abs_goal_programming_mixin import (
        MinAbsGoal,
        MinAbsGoalProgrammingMixin,
    )
    from rtctools.optimization.single_pass_goal_programming_mixin import SinglePassGoalProgrammingMixin
    from rtctools.optimization.timeseries import Timeseries

    class ScriptedSolver:
        """wraps the real solver; the k-th call of the run is made to fail when script[k] is False"""

        def __init__(self, script, owner):
            self.script = list(script)
            self.owner = owner
            self.calls = 0

        def __call__(self, name, solver_name, nlp, options):
            outer = self
            real = ca.nlpsol(name, solver_name, nlp, options)

            class S:
                def __call__(s, **kw):
                    return real(**kw)

                def stats(s):
                    st = dict(real.stats())
                    k = outer.calls
                    outer.calls += 1
                    scripted = outer.script[k] if k < len(outer.script) else True
                    if not scripted:
                        st["success"] = False
                        st["return_status"] = "Scripted_Failure"
                    outer.owner.events.append(("X", outer.owner.current, bool(st["success"])))
                    outer.owner.real_fail += int(scripted and not st["success"])
                    return st

            return S()

    class Lin(CollocatedIntegratedOptimizationProblem):
        """x' = -p x + u + c ;  y = x + q"""

        def __init__(self, times=None, p=0.5, q=1.0, cvals=None, script=(), goal_specs=(), skip=(), keep_soft=False, **kw):
            self._keep_soft = bool(keep_soft)
            self._times = np.array(times, dtype=float)
            self._p, self._q = p, q
            self._cvals = [np.array(cv, dtype=float) for cv in cvals]
            self._specs = list(goal_specs)
            self._skip = set(skip)
            self.events = []
            self.current = None
            self.real_fail = 0
            self.snap = {}  # priority -> (object returned at priority_completed, deep copy)
            self.raw = []  # per solver call: base-class results (copies), one dict per member
            self.started_view = []
            self.n_pre = self.n_post = 0
            self._ss = ScriptedSolver(script, self)
            x, dx, y, u = ca.MX.sym("x"), ca.MX.sym("der(x)"), ca.MX.sym("y"), ca.MX.sym("u")
            c, pp, qq, t = ca.MX.sym("c"), ca.MX.sym("p"), ca.MX.sym("q"), ca.MX.sym("time")
            self._mx = dict(time=[t], states=[x], derivatives=[dx], algebraics=[y], control_inputs=[u],
                            constant_inputs=[c], parameters=[pp, qq], lookup_tables=[])
            self._res = ca.vertcat(dx + pp * x - u - c, y - x - qq)
            self._ar = AliasRelation()
            super().__init__(**kw)

        dae_variables = property(lambda self: self._mx)
        dae_residual = property(lambda self: self._res)
        alias_relation = property(lambda self: self._ar)
        ensemble_size = property(lambda self: len(self._cvals))

        def times(self, variable=None):
            return self._times

        def parameters(self, ensemble_member):
            d = AliasDict(self._ar)
            d["p"], d["q"] = self._p, self._q
            return d

        def constant_inputs(self, ensemble_member):
            d = AliasDict(self._ar)
            d["c"] = Timeseries(self._times, self._cvals[ensemble_member])
            return d

        def bounds(self):
            b = AliasDict(self._ar)
            b["u"], b["x"], b["y"] = (-10.0, 10.0), (0.0, 10.0), (-100.0, 100.0)
            return b

        def history(self, ensemble_member):
            h = AliasDict(self._ar)
            h["x"] = Timeseries(self._times[:1], np.array([1.0]))
            return h

        def map_options(self):
            return {"mode": "unroll"}

        def solver_options(self):
            o = super().solver_options()
            o["ipopt"]["print_level"] = 0
            o["print_time"] = False
            o["casadi_solver"] = self._ss
            return o

    class RawTap:
        """below the goal-programming mixin: sees every solver call and the base-class results"""

        def optimize(self, preprocessing=True, postprocessing=True, log_solver_failure_as_error=True):
            ok = super().optimize(preprocessing=preprocessing, postprocessing=postprocessing,
                                  log_solver_failure_as_error=log_solver_failure_as_error)
            self.raw.append([copy_results(super(RawTap, self).extract_results(m)) for m in range(self.ensemble_size)])
            return ok

    class Hooks:
        """on top: the user's side of the goal-programming API"""

        def _make(self, spec, path):
            return build_goal(spec, Goal, MinAbsGoal, Timeseries, self._times)

        def goals(self):
            # the MinAbs mixin adds its converted goals in its own goals(): keep them
            return super().goals() + [self._make(s, False) for s in self._specs if s["where"] == "point"]

        def path_goals(self):
            return super().path_goals() + [self._make(s, True) for s in self._specs if s["where"] == "path"]

        def min_abs_goals(self):
            return [self._make(s, False) for s in self._specs if s["where"] == "absgoal"]

        def min_abs_path_goals(self):
            return [self._make(s, True) for s in self._specs if s["where"] == "abspath"]

        def goal_programming_options(self):
            o = super().goal_programming_options()
            if self._keep_soft:  # needed for vector goals in the multi-pass variant
                o["keep_soft_constraints"] = True
            return o

        def priority_started(self, priority):
            super().priority_started(priority)
            self.current = priority
            self.events.append(("S", priority))
            try:
                self.started_view.append((priority, self.extract_results(0)))
            except Exception:
                self.started_view.append((priority, None))
            if priority in self._skip:
                self.skip_priority = True

        def priority_completed(self, priority):
            super().priority_completed(priority)
            self.events.append(("C", priority))
            objs = [self.extract_results(m) for m in range(self.ensemble_size)]
            self.snap[priority] = (objs, [copy_results(o) for o in objs])

        def pre(self):
            self.n_pre += 1
            super().pre()

        def post(self):
            self.n_post += 1
            self.events.append(("P",))
            try:
                self.at_post = [self.extract_results(m) for m in range(self.ensemble_size)]
            except Exception as e:
                self.at_post = type(e).__name__
            super().post()

    class MP(Hooks, GoalProgrammingMixin, RawTap, Lin):
        pass

    class SP(Hooks, SinglePassGoalProgrammingMixin, RawTap, Lin):
        pass

    class MA(Hooks, MinAbsGoalProgrammingMixin, GoalProgrammingMixin, RawTap, Lin):
        pass

    _CLS = {"multi": MP, "single": SP, "minabs": MA}
    return _CLS


def copy_results(r):
    return {k: np.array(v, copy=True) for k, v in r.items()}


def results_equal(a, b):
    return set(a.keys()) == set(b.keys()) and all(
        np.asarray(a[k]).shape == np.asarray(b[k]).shape and np.array_equal(a[k], b[k], equal_nan=True) for k in a)


def build_goal(spec, Goal, MinAbsGoal, Timeseries, times):
    import casadi as ca

    var, where = spec["var"], spec["where"]
    vs = spec.get("vars") or [var]  # a vector goal (size = len(vars) > 1) stacks several states
    base = MinAbsGoal if where.startswith("abs") else Goal
    if where in ("path", "abspath"):
        fn = lambda self, pr, m: ca.vertcat(*[pr.state(v) for v in vs])  # noqa: E731
    else:
        t_at = float(times[spec.get("at", -1)])
        fn = lambda self, pr, m: ca.vertcat(*[pr.state_at(v, t_at, ensemble_member=m) for v in vs])  # noqa: E731
    G = type("G_" + var, (base,), {"function": fn})
    g = G()
    g.priority = spec["priority"]
    g.order = spec.get("order", 1)
    if len(vs) > 1:
        g.size = len(vs)

    def tgt(t):
        if t is None:
            return NAN
        if t[0] == "scalar":
            return t[1]
        if t[0] == "array":  # plain numpy vector, one entry per component of a vector goal
            return np.array(t[1], dtype=float)
        # "series": one value per time step, or (vector path goal) one row of `size` values per time step
        return Timeseries(times, np.array(t[1], dtype=float))

    if spec_has_side(spec["tmin"]) or spec_has_side(spec["tmax"]):
        g.function_range = (-1000.0, 1000.0)
    if spec["tmin"] is not None or spec["tmax"] is not None:
        g.target_min = tgt(spec["tmin"])
        g.target_max = tgt(spec["tmax"])
    return g


# --- "empty goal", re-stated from the goal's DATA (never through Goal.is_empty / has_target_*) ---


def spec_entries(t):
    """every number a target side holds (an unset side holds the single entry NaN)"""
    if t is None:
        return [NAN]
    if t[0] == "scalar":
        return [float(t[1])]
    out = []
    for x in t[1]:
        out.extend(float(y) for y in x) if isinstance(x, (list, tuple)) else out.append(float(x))
    return out


def spec_has_side(t):
    """the side is a target: given as a time series, or holding at least one finite number"""
    return t is not None and (t[0] == "series" or any(math.isfinite(x) for x in spec_entries(t)))


def spec_empty(spec):
    """a goal is empty iff it has a target side and ALL entries of BOTH target sides are non-finite (NaN / inf)"""
    if not (spec_has_side(spec["tmin"]) or spec_has_side(spec["tmax"])):
        return False  # a minimisation goal
    return not any(math.isfinite(x) for x in spec_entries(spec["tmin"]) + spec_entries(spec["tmax"]))


def wire_target(t):
    if t is None:
        return {"series": False, "v": ["nan"]}
    return {"series": t[0] == "series", "v": [fr(x) for x in spec_entries(t)]}


def wire_goal(spec):
    return {"priority": fr(float(spec["priority"])), "tmin": wire_target(spec["tmin"]), "tmax": wire_target(spec["tmax"])}


# ---------------------------------------------------------------------------------------------
# running one instance


def run_impl(case):
    cls = make_classes()[case["variant"]]
    kw = dict(times=case["times"], p=case["p"], q=case["q"], cvals=case["cvals"], script=case["script"],
              goal_specs=case["goals"], skip=case["skip"], keep_soft=case.get("keep_soft", False))
    pr = cls(**kw)
    # Goal.is_empty as the code sees it (public property), in the order the model receives the goals
    empties = []
    for s in case["goals"]:
        from rtctools.optimization.goal_programming_mixin import Goal
        from rtctools.optimization.min_abs_goal_programming_mixin import MinAbsGoal
        from rtctools.optimization.timeseries import Timeseries

        try:
            empties.append(bool(build_goal(s, Goal, MinAbsGoal, Timeseries, pr._times).is_empty))
        except Exception as e:
            return dict(kind="raise", err="Goal.is_empty raised %s: %s" % (type(e).__name__, str(e)[:200]), pr=pr, empties=empties)
    try:
        with quiet_fd():
            ret = pr.optimize()
    except Exception as e:
        return dict(kind="raise", err=type(e).__name__ + ": " + str(e)[:300], pr=pr, empties=empties)
    try:
        final = [pr.extract_results(m) for m in range(pr.ensemble_size)]
    except Exception as e:
        final = type(e).__name__
    return dict(kind="ok", ret=bool(ret), pr=pr, final=final, empties=empties)


def classify_exposed(pr, final):
    """which results does extract_results() expose: ('cached', p) / ('raw', p, ok) / ('nothing',) / ('unknown',)"""
    if isinstance(final, str):
        return ("nothing",)
    solves = [e for e in pr.events if e[0] == "X"]
    for p in reversed([e[1] for e in pr.events if e[0] == "C"]):
        objs, copies = pr.snap[p]
        if all(f is o for f, o in zip(final, objs)):
            # the cached object must hold the output of the solve at p (and must not have been touched since)
            ks = [k for k, e in enumerate(solves) if e[1] == p and e[2]]
            fresh = bool(ks) and ks[-1] < len(pr.raw) and all(
                results_equal(f, r) and results_equal(cp, r) for f, cp, r in zip(final, copies, pr.raw[ks[-1]]))
            return ("cached", p) if fresh else ("stale-cache", p)
    for k in reversed(range(len(pr.raw))):
        if all(results_equal(f, r) for f, r in zip(final, pr.raw[k])):
            return ("raw", solves[k][1], solves[k][2])
    return ("unknown",)


# ---------------------------------------------------------------------------------------------
# independent oracle: the property statement on the observed behaviour


def py_int(x):
    return int(x)


def oracle(c, case, r):
    pr = r["pr"]
    ev = [e for e in pr.events]
    bad = []
    # expected priorities: ascending distinct int() of the non-empty goals -- "empty" judged from the goal's data
    # (spec_empty: has a target side and no finite entry on either side), NOT by asking the code (Goal.is_empty)
    nonempty = [not spec_empty(s) for s in case["goals"]]
    expected = sorted({py_int(s["priority"]) for s, ne in zip(case["goals"], nonempty) if ne})
    started = [e[1] for e in ev if e[0] == "S"]
    if started != expected[:len(started)]:
        msg = "priorities attempted %r are not a prefix of the ascending distinct priorities %r of the non-empty goals" \
            % (started, expected)
        lost = [p for p in expected[:len(started) + 1] if p not in started]
        extra = [p for p in started if p not in expected]
        if lost:
            gl = [j for j, (s, ne) in enumerate(zip(case["goals"], nonempty)) if ne and py_int(s["priority"]) == lost[0]]
            msg += "; priority %r (goals %r, with finite target entries / no targets) was never started" % (lost[0], gl)
        if extra:
            msg += "; priority %r has only empty goals but was started" % extra[0]
        bad.append(msg)
    if len(set(started)) != len(started):
        bad.append("a priority was attempted twice")
    single = case["variant"] == "single"
    skip = set() if single else set(case["skip"])
    # bracketing, stop on first failure
    i, n = 0, len(ev)
    failed_at = None
    last_ok = None
    nsolve = 0
    while i < n and ev[i][0] == "S":
        p = ev[i][1]
        i += 1
        if p in skip:
            if i < n and ev[i][0] == "X":
                bad.append("priority %r was skipped in priority_started but solved" % p)
            continue
        if not (i < n and ev[i][0] == "X" and ev[i][1] == p):
            bad.append("priority_started(%r) not followed by a solve" % p)
            break
        ok = ev[i][2]
        nsolve += 1
        i += 1
        if ok:
            if not (i < n and ev[i] == ("C", p)):
                bad.append("successful priority %r has no priority_completed" % p)
                break
            i += 1
            last_ok = p
        else:
            failed_at = p
            break
    if not (i == n - 1 and ev[i] == ("P",)):
        bad.append("events after the %s: %r" % ("failed priority" if failed_at is not None else "loop", ev[i:]))
    if sum(1 for e in ev if e[0] == "P") != 1 or pr.n_post != 1 or pr.n_pre != 1:
        bad.append("pre/post ran %d/%d times" % (pr.n_pre, pr.n_post))
    if failed_at is not None:
        if r["ret"]:
            bad.append("optimize() returned True although priority %r failed" % failed_at)
    else:
        if started != expected:
            bad.append("not all priorities were attempted although none failed")
        if r["ret"] != (nsolve > 0):
            bad.append("optimize() returned %r after %d successful solves and no failure" % (r["ret"], nsolve))
    # results: exactly the snapshot taken at the LAST priority_completed (read off the hook log itself, so the
    # clause is judged whatever lies between that hook and the end of the run: removed priorities, a failed
    # attempt, both), in post() and after optimize(); never the failed attempt's values, never a mixture
    completed = [e[1] for e in ev if e[0] == "C"]
    last_c = completed[-1] if completed else None
    if last_c != last_ok and not bad:
        bad.append("last priority_completed is %r, last successful solve %r" % (last_c, last_ok))
    if last_c is not None and last_c in pr.snap:
        objs, copies = pr.snap[last_c]
        solves_all = [e for e in ev if e[0] == "X"]
        for name, res in (("after optimize()", r["final"]), ("inside post()", getattr(pr, "at_post", None))):
            if isinstance(res, str) or res is None:
                bad.append("extract_results() %s raised although priority %r completed" % (name, last_c))
            elif len(res) != len(copies) or not all(results_equal(f, cp) for f, cp in zip(res, copies)):
                what = "differ from the snapshot taken at the last priority_completed(%r)" % last_c
                if failed_at is not None and solves_all and not solves_all[-1][2] and len(pr.raw) == len(solves_all) \
                        and all(results_equal(f, rw) for f, rw in zip(res, pr.raw[-1])):
                    what = "are the FAILED attempt's values (priority %r), not the snapshot of the last completed priority %r" \
                        % (failed_at, last_c)
                bad.append("results exposed %s %s" % (name, what))
    # the snapshot of a completed priority is the raw output of that priority's own solve
    solves = [e for e in ev if e[0] == "X"]
    for k, (_, p, ok) in enumerate(solves):
        if ok and p in pr.snap and k < len(pr.raw):
            if not all(results_equal(a, b) for a, b in zip(pr.snap[p][1], pr.raw[k])):
                bad.append("results seen in priority_completed(%r) are not the output of that priority's solve" % p)
    if bad:
        c.fail("; ".join(bad[:3]), case, {"events": ev, "ret": r["ret"]})


# ---------------------------------------------------------------------------------------------
# correspondence


def model_line(case, effective_script):
    return dict(op="run", single=(case["variant"] == "single"), goals=[wire_goal(s) for s in case["goals"]],
                script=[bool(b) for b in effective_script], skip=sorted(int(p) for p in case["skip"]))


def norm_events(evs):
    return [[e[0]] + [int(e[1])] + ([bool(e[2])] if len(e) > 2 else []) if len(e) > 1 else [e[0]] for e in evs]


def check_instances(c, cases, stream):
    results, lines = [], []
    for case in cases:
        r = run_impl(case)
        results.append(r)
        if r["kind"] == "ok":
            eff = [e[2] for e in r["pr"].events if e[0] == "X"]
        else:
            eff = case["script"]
        lines.append(model_line(case, eff))
    outs = c.model(lines)
    for i, (case, r) in enumerate(zip(cases, results)):
        case_out = dict(case, stream=stream)
        v = case["variant"]
        if r["kind"] == "raise":
            c.hit("%s/%s/raise" % (stream, v))
            c.count((stream, v, "raise"))
            c.fail("optimize() raised on a well-formed goal set: " + r["err"], case_out)
            continue
        pr = r["pr"]
        ev = pr.events
        solves = [e for e in ev if e[0] == "X"]
        nfail = sum(1 for e in solves if not e[2])
        key = (stream, v, tuple(sorted(int(s["priority"]) for s in case["goals"])), tuple(r["empties"]),
               tuple(e[2] for e in solves), tuple(sorted(case["skip"])), r["ret"])
        c.count(key)
        c.hit("%s/%s/%s" % (stream, v, "success" if r["ret"] else ("failure" if nfail else "no-solve")))
        if nfail:
            pos = len(solves) - 1
            c.hit("%s/fail-at-%s" % (stream, "first" if pos == 0 else "later"))
        if pr.real_fail:
            c.hit(stream + "/real-solver-failure")
        if any(r["empties"]):
            c.hit(stream + "/has-empty-goal")
        if "tag" in case:
            c.hit(stream + "/" + case["tag"].rsplit("/", 1)[0])
            c.hit(stream + "/shape/" + case["tag"].rsplit("/", 1)[1])
        for s_ in case["goals"]:
            ent = [spec_entries(s_[k]) for k in ("tmin", "tmax") if s_[k] is not None and s_[k][0] != "scalar"]
            if any(any(map(math.isfinite, e)) and not all(map(math.isfinite, e)) for e in ent):
                alone = sum(1 for o in case["goals"] if int(o["priority"]) == int(s_["priority"]) and not spec_empty(o)) == 1
                c.hit(stream + "/partly-finite-target/" + ("alone" if alone else "shared"))
                break
        if case["skip"]:
            c.hit(stream + "/skip-hook")
            for pat in sorted(skip_patterns(ev, case["skip"])):
                c.hit("%s/%s/%s" % (stream, v, pat))
        c.sample(dict(case_out, events=ev, ret=r["ret"]), limit=6)
        oracle(c, case_out, r)
        if outs is None:
            continue
        mo = outs[i]
        exp = classify_exposed(pr, r["final"])
        what = None
        if mo["empty"] != [spec_empty(s_) for s_ in case["goals"]]:
            what = "model isEmpty vs emptiness judged from the goal data (harness/model definitions differ)"
        elif mo["empty"] != r["empties"]:
            what = "Goal.is_empty"
        elif mo["events"] != norm_events(ev):
            what = "event log"
        elif mo["ret"] != r["ret"]:
            what = "return value"
        elif [x if not isinstance(x, (bool, np.bool_)) else bool(x) for x in mo["exposed"]] != \
                [int(x) if isinstance(x, (int, np.integer)) and not isinstance(x, bool) else x for x in exp]:
            what = "results exposed after the run"
        if what:
            c.disagree("%s/%s: %s" % (stream, v, what), case_out,
                       {k: mo[k] for k in ("events", "ret", "exposed", "empty")},
                       {"events": norm_events(ev), "ret": r["ret"], "exposed": list(exp), "empty": r["empties"]})


# ---------------------------------------------------------------------------------------------
# generators


def gen_target(rng, nt, force=None, side="min"):
    kind = force or rng.choice(["none", "none", "scalar", "series", "series-nan", "series-allnan", "series-inf"])
    off = rng.choice([NAN, NAN, -math.inf if side == "min" else math.inf])  # a step without a bound
    if kind == "none":
        return None
    if kind == "scalar":
        return ("scalar", float(rng.choice([1.0, 2.0, 3.0, 4.0, 0.5])))
    if kind == "series":
        return ("series", [float(rng.choice([1.0, 2.0, 3.0])) for _ in range(nt)])
    if kind in ("series-nan", "series-inf"):
        if kind == "series-nan":
            off = NAN
        v = [float(rng.choice([1.0, 2.0, 3.0])) if rng.random() < 0.5 else off for _ in range(nt)]
        i = rng.randrange(nt)
        v[i] = 2.0
        v[(i + 1) % nt] = off  # at least one finite AND at least one non-finite entry
        return ("series", v)
    if kind == "series-allinf":
        return ("series", [rng.choice([NAN, off]) for _ in range(nt)])
    return ("series", [NAN] * nt)


def fill_entries(rng, n, fin, side):
    """n numbers for one target side: fin = 'all' (all finite) / 'some' (>= 1 finite and >= 1 non-finite) / 'none'"""
    lo = side == "min"
    val = lambda: float(rng.choice([1.0, 2.0, 3.0] if lo else [5.0, 6.0, 7.0]))  # noqa: E731
    off = lambda: rng.choice([NAN, NAN, -math.inf if lo else math.inf])  # noqa: E731
    if fin == "all":
        return [val() for _ in range(n)]
    if fin == "none":
        return [off() for _ in range(n)]
    v = [val() if rng.random() < 0.5 else off() for _ in range(n)]
    i = rng.randrange(n)
    v[i], v[(i + 1 + rng.randrange(n - 1)) % n] = val(), off()
    return v


SHAPES = ("path-series", "path-vector-series", "path-vector-array", "point-vector-array")


def shaped_target(rng, nt, shape, fin, side):
    """a Timeseries (1-D, or one row per time step for a vector goal) or a plain numpy vector, partly finite"""
    if fin is None:
        return None
    if shape == "path-series":
        return ("series", fill_entries(rng, nt, fin, side))
    if shape == "path-vector-series":
        flat = fill_entries(rng, 2 * nt, fin, side)
        return ("series", [flat[2 * i:2 * i + 2] for i in range(nt)])
    return ("array", fill_entries(rng, 2, fin, side))


def shaped_goal(rng, nt, shape, fmin, fmax, priority):
    spec = dict(var=rng.choice(["x", "y"]), where="point" if shape.startswith("point") else "path", priority=priority,
                order=rng.choice([1, 2]), tmin=shaped_target(rng, nt, shape, fmin, "min"),
                tmax=shaped_target(rng, nt, shape, fmax, "max"))
    if "vector" in shape:
        spec.update(var="xy", vars=["x", "y"])
    if spec["where"] == "point":
        spec["at"] = rng.randrange(1, nt)
    return spec


def gen_priority(rng, pool):
    p = rng.choice(pool)
    form = rng.choice(["int", "int", "int", "float", "half", "npint", "npfloat"])
    if form == "int":
        return int(p)
    if form == "float":
        return float(p)
    if form == "half":
        return p + rng.choice([0.5, 0.25, 0.75]) * (1 if p >= 0 else -1)  # int() truncates toward zero
    if form == "npint":
        return np.int64(p)
    return np.float64(p)


def gen_goal(rng, nt, pool, variant):
    if rng.random() < 0.12:  # partly / not at all finite targets of every shape, also vector goals
        fins = [None, "all", "some", "some", "none"]
        fmin, fmax = rng.choice(fins), rng.choice(fins)
        if fmin is None and fmax is None:
            fmax = "some"
        return shaped_goal(rng, nt, rng.choice(SHAPES), fmin, fmax, gen_priority(rng, pool))
    where = rng.choice(["path", "path", "path", "point"])
    if variant == "minabs" and rng.random() < 0.4:
        where = rng.choice(["abspath", "absgoal"])
    spec = dict(var=rng.choice(["x", "y", "u"]), where=where, priority=gen_priority(rng, pool), order=rng.choice([1, 2]))
    if where.startswith("abs"):
        spec.update(tmin=None, tmax=None, order=1)
    elif where == "point":
        spec["at"] = rng.randrange(1, nt)
        if rng.random() < 0.5:
            spec.update(tmin=None, tmax=None)
        else:
            lo = gen_target(rng, nt, "scalar")
            spec.update(tmin=lo, tmax=None) if rng.random() < 0.5 else spec.update(tmin=None, tmax=("scalar", lo[1] + 3.0))
    else:
        r = rng.random()
        if r < 0.35:
            spec.update(tmin=None, tmax=None)  # minimisation
        elif r < 0.55:  # empty goal: targets given as series without any finite value
            spec.update(tmin=gen_target(rng, nt, "series-allnan"),
                        tmax=rng.choice([None, gen_target(rng, nt, "series-allnan")]))
            if rng.random() < 0.3:
                spec["tmin"], spec["tmax"] = spec["tmax"], spec["tmin"]
        else:
            kinds = ["scalar", "series", "series-nan", "series-inf", "series-allnan", "series-allinf", "none"]
            lo = gen_target(rng, nt, rng.choice(kinds), "min")
            hi = gen_target(rng, nt, rng.choice(kinds), "max")
            if hi is not None:  # keep max above min
                hi = (hi[0], hi[1] + 4.0) if hi[0] == "scalar" else (hi[0], [x + 4.0 for x in hi[1]])
            spec.update(tmin=lo, tmax=hi)
    if spec["tmin"] is not None or spec["tmax"] is not None:
        spec["order"] = rng.choice([1, 2])
    return spec


def gen_case(rng, variant=None, nprio=None, script=None):
    variant = variant or rng.choice(["multi", "multi", "single", "single", "minabs"])
    nt = rng.choice([3, 4])
    times = [0.0] + list(np.cumsum([rng.choice([0.5, 1.0, 2.0]) for _ in range(nt - 1)]))
    pool_all = [-7, -3, -1, 0, 1, 2, 3, 5, 10, 100]
    k = nprio if nprio is not None else rng.choice([1, 2, 2, 3, 3, 4, 5])
    pool = rng.sample(pool_all, k)
    ng = rng.randint(k, k + 3) if nprio is None else k + rng.randint(0, 2)
    goals = [gen_goal(rng, nt, pool, variant) for _ in range(ng)]
    if nprio is not None:
        # exactly `nprio` priorities: one non-empty minimisation goal per pool entry first
        for j, p in enumerate(pool):
            goals[j] = dict(var=["x", "y", "u"][j % 3], where="path", priority=p, order=2, tmin=None, tmax=None)
        for g in goals[k:]:
            g["priority"] = rng.choice(pool)
    members = rng.choice([1, 1, 2])
    if script is None:
        pf = rng.choice([0.0, 0.2, 0.35, 0.5])
        script = [rng.random() >= pf for _ in range(k + 1)]
    skip = []
    if variant != "minabs" and rng.random() < 0.3:
        prios = sorted({int(g["priority"]) for g in goals})
        skip = rng.sample(prios, rng.randint(1, min(2, len(prios))))
    return dict(variant=variant, times=times, p=rng.choice([0.25, 0.5, 1.0]), q=rng.choice([0.0, 1.0]),
                cvals=[[rng.choice([0.0, 0.5, 1.0]) for _ in times] for _ in range(members)],
                goals=goals, script=list(script), skip=skip, keep_soft=any(len(g.get("vars") or []) > 1 for g in goals))


def stream_partial(c, rng, big):
    """the goal whose targets are only PARTLY finite (or not at all): min only / max only / both sides x all / some /
    no entries finite, as 1-D Timeseries, vector-goal Timeseries, numpy vectors (path and point), ALONE at its
    priority (its emptiness decides whether the priority exists) and SHARED with another goal; between a lower
    and a higher priority of plain minimisation goals, under success / failure-at-it / failure-after-it scripts"""
    fins = [None, "all", "some", "none"]
    combos = [(a, b) for a in fins for b in fins if (a, b) != (None, None)]
    cases = []
    k = 0
    for fmin, fmax in combos:
        for placement in ("alone", "shared"):
            for shape in (SHAPES if big else [SHAPES[(k + j) % len(SHAPES)] for j in (0, 1)]):
                for variant in (("multi", "single", "minabs") if big else (("multi", "single")[k % 2],)):
                    k += 1
                    nt = rng.choice([3, 4])
                    times = [0.0] + list(np.cumsum([rng.choice([0.5, 1.0, 2.0]) for _ in range(nt - 1)]))
                    plo, pmid, phi = sorted(rng.sample([-7, -3, -1, 0, 1, 2, 3, 5, 10, 100], 3))
                    goals = [dict(var="u", where="path", priority=plo, order=2, tmin=None, tmax=None),
                             shaped_goal(rng, nt, shape, fmin, fmax, gen_priority(rng, [pmid])),
                             dict(var="x", where="path", priority=phi, order=2, tmin=None, tmax=None)]
                    if abs(int(goals[1]["priority"])) != abs(pmid):
                        goals[1]["priority"] = pmid
                    if placement == "shared":
                        goals.insert(rng.randrange(4), dict(var="y", where="path", priority=pmid, order=2, tmin=None, tmax=None))
                    rng.shuffle(goals)
                    scripts = [[True] * 3, [True, False, True], [True, True, False]]
                    for script in (scripts if (big and variant != "minabs") else [rng.choice(scripts + scripts[:1])]):
                        cases.append(dict(variant=variant, times=times, p=rng.choice([0.25, 0.5, 1.0]), q=rng.choice([0.0, 1.0]),
                                          cvals=[[rng.choice([0.0, 0.5, 1.0]) for _ in times] for _ in range(rng.choice([1, 1, 2]))],
                                          goals=goals, script=script, skip=[],
                                          tag="min:%s,max:%s/%s/%s" % (fmin, fmax, placement, shape),
                                          keep_soft=any(len(g.get("vars") or []) > 1 for g in goals)))
    check_instances(c, cases, "partial")
    return len(cases)


CORPUS = [
    # negative / gap / duplicate priorities with an empty goal at a priority of its own (DESIGN section 6 probe)
    dict(variant=v, times=[0.0, 1.0, 2.0], p=0.5, q=0.0, cvals=[[1.0, 1.0, 1.0]], skip=[], script=s,
         goals=[dict(var=var, where="path", priority=p, order=1, tmin=None, tmax=None)
                for var, p in zip(["x", "y", "u", "x", "y", "u"], [3, -5, 3, 7, 2, 7])]
         + [dict(var="x", where="path", priority=100, order=1, tmin=("series", [NAN, NAN, NAN]), tmax=None)])
    for v in ("multi", "single") for s in ([True, True, True, True], [True, False, True, True], [False], [True, True, True, False])
]


def stream_exhaustive(c, rng, maxn, variants):
    cases = []
    for v in variants:
        for n in range(1, maxn + 1):
            base = gen_case(rng, variant=v, nprio=n, script=[])
            for script in itertools.product([True, False], repeat=n):
                cases.append(dict(base, script=list(script), skip=[]))
    check_instances(c, cases, "exhaustive")
    return len(cases)


# ---------------------------------------------------------------------------------------------
# several optimize() calls on ONE instance


class RunView:
    """what the taps recorded during one optimize() call (same attribute names as the problem)"""


def run_seq_impl(case):
    from rtctools.optimization.goal_programming_mixin import Goal
    from rtctools.optimization.min_abs_goal_programming_mixin import MinAbsGoal
    from rtctools.optimization.timeseries import Timeseries

    cls = make_classes()[case["variant"]]
    pr = cls(times=case["times"], p=case["p"], q=case["q"], cvals=case["cvals"], script=[], goal_specs=[], skip=[],
             keep_soft=case.get("keep_soft", False))
    out = []
    for run in case["runs"]:
        pr.events, pr.current, pr.real_fail, pr.snap, pr.raw, pr.started_view = [], None, 0, {}, [], []
        pr.n_pre = pr.n_post = 0
        if hasattr(pr, "at_post"):
            del pr.at_post
        pr._ss.script, pr._ss.calls = list(run["script"]), 0
        pr._skip = set(run["skip"])
        pr._specs = list(run["goals"])
        try:
            empties = [bool(build_goal(s, Goal, MinAbsGoal, Timeseries, pr._times).is_empty) for s in run["goals"]]
        except Exception as e:
            out.append(dict(kind="raise", err="Goal.is_empty raised %s: %s" % (type(e).__name__, str(e)[:200]), empties=[]))
            break
        try:
            with quiet_fd():
                ret = pr.optimize()
        except Exception as e:
            out.append(dict(kind="raise", err=type(e).__name__ + ": " + str(e)[:300], empties=empties))
            break
        try:
            final = [pr.extract_results(m) for m in range(pr.ensemble_size)]
        except Exception as e:
            final = type(e).__name__
        v = RunView()
        v.events, v.snap, v.raw, v.n_pre, v.n_post = pr.events, pr.snap, pr.raw, pr.n_pre, pr.n_post
        v.real_fail, v.ensemble_size = pr.real_fail, pr.ensemble_size
        if hasattr(pr, "at_post"):
            v.at_post = pr.at_post
        out.append(dict(kind="ok", ret=bool(ret), pr=v, final=final, empties=empties))
    return out


def classify_exposed_seq(views, k, final):
    """('cached', run, p) / ('raw', run, p, ok) / ('nothing',) / ('stale-cache', run, p) / ('unknown',)"""
    if isinstance(final, str):
        return ("nothing",)
    for j in range(k, -1, -1):
        pv = views[j]["pr"]
        solves = [e for e in pv.events if e[0] == "X"]
        for p in reversed([e[1] for e in pv.events if e[0] == "C"]):
            objs, copies = pv.snap[p]
            if all(f is o for f, o in zip(final, objs)):
                ks = [i for i, e in enumerate(solves) if e[1] == p and e[2]]
                fresh = bool(ks) and ks[-1] < len(pv.raw) and all(
                    results_equal(f, r) and results_equal(cp, r) for f, cp, r in zip(final, copies, pv.raw[ks[-1]]))
                return ("cached", j, p) if fresh else ("stale-cache", j, p)
    for j in range(k, -1, -1):
        pv = views[j]["pr"]
        solves = [e for e in pv.events if e[0] == "X"]
        for i in reversed(range(len(pv.raw))):
            if all(results_equal(f, r) for f, r in zip(final, pv.raw[i])):
                return ("raw", j, solves[i][1], solves[i][2])
    return ("unknown",)


def oracle_seq(c, case_k, views, k):
    """the per-run oracle, plus: a run that completed no priority but called the solver exposes the
    output of ITS OWN last solve -- never results captured by an earlier optimize() call"""
    r = views[k]
    oracle(c, case_k, r)
    pv = r["pr"]
    if any(e[0] == "C" for e in pv.events) or not pv.raw:
        return
    for name, res in (("after optimize()", r["final"]), ("inside post()", getattr(pv, "at_post", None))):
        if isinstance(res, str) or res is None:
            c.fail("run %d: extract_results() %s raised although the solver was called" % (k, name), case_k)
            return
        if all(results_equal(f, rw) for f, rw in zip(res, pv.raw[-1])):
            continue
        what = "are not the output of this run's own (failed) solve"
        for j in range(k - 1, -1, -1):
            pj = views[j]["pr"]
            for p, (objs, copies) in pj.snap.items():
                if all(results_equal(f, cp) for f, cp in zip(res, copies)):
                    what = "are the results cached at priority %r of the EARLIER optimize() call %d" % (p, j)
        c.fail("run %d completed no priority, but the results exposed %s %s" % (k, name, what), case_k,
               {"events": pv.events, "ret": r["ret"]})
        return


def check_sequences(c, cases, stream):
    results, lines = [], []
    for case in cases:
        rs = run_seq_impl(case)
        results.append(rs)
        runs = []
        for k, run in enumerate(case["runs"]):
            eff = [e[2] for e in rs[k]["pr"].events if e[0] == "X"] if k < len(rs) and rs[k]["kind"] == "ok" else run["script"]
            runs.append(dict(goals=[wire_goal(s) for s in run["goals"]], script=[bool(b) for b in eff],
                             skip=sorted(int(p) for p in run["skip"])))
        lines.append(dict(op="seq", single=(case["variant"] == "single"), runs=runs))
    outs = c.model(lines)
    for i, (case, rs) in enumerate(zip(cases, results)):
        v = case["variant"]
        shape = []
        for k, r in enumerate(rs):
            run = case["runs"][k]
            case_k = dict(stream=stream, variant=v, times=case["times"], p=case["p"], q=case["q"], cvals=case["cvals"],
                          goals=run["goals"], script=run["script"], skip=run["skip"], run=k,
                          runs=case["runs"])
            if r["kind"] == "raise":
                c.hit("%s/%s/raise" % (stream, v))
                c.fail("optimize() call %d on the same instance raised: %s" % (k, r["err"]), case_k)
                break
            ev = r["pr"].events
            solves = [e for e in ev if e[0] == "X"]
            done = any(e[0] == "C" for e in ev)
            shape.append(("ok" if r["ret"] else ("fail-first" if solves and not done else ("fail-later" if solves else "no-solve"))))
            oracle_seq(c, case_k, rs, k)
            if outs is None:
                continue
            mo = outs[i][k]
            exp = classify_exposed_seq(rs, k, r["final"])
            exp = [int(x) if isinstance(x, (int, np.integer)) and not isinstance(x, (bool, np.bool_)) else
                   (bool(x) if isinstance(x, (bool, np.bool_)) else x) for x in exp]
            what = None
            if mo["events"] != norm_events(ev):
                what = "event log"
            elif mo["ret"] != r["ret"]:
                what = "return value"
            elif mo["exposed"] != exp:
                what = "results exposed after the call"
            if what:
                c.disagree("%s/%s: call %d: %s" % (stream, v, k, what), case_k,
                           {k2: mo[k2] for k2 in ("events", "ret", "exposed")},
                           {"events": norm_events(ev), "ret": r["ret"], "exposed": exp})
        c.count((stream, v, tuple(shape), tuple(tuple(r["script"]) for r in case["runs"]),
                 tuple(tuple(sorted(r["skip"])) for r in case["runs"])))
        c.hit("%s/%s/%d-calls" % (stream, v, len(case["runs"])))
        for a, b in zip(shape, shape[1:]):
            c.hit("%s/%s-then-%s" % (stream, a, b))
        c.sample(dict(stream=stream, variant=v, runs=[dict(script=r["script"], skip=r["skip"]) for r in case["runs"]],
                      shape=shape), limit=8)


def stream_sequences(c, rng, big):
    """2-3 optimize() calls on one instance with independent scripts / skip sets (/ goal sets) per call"""
    cases = []
    for v in ("multi", "single"):
        for n in ((1, 2, 3) if big else (1, 2)):
            base = gen_case(rng, variant=v, nprio=n, script=[])
            scripts = [list(sc) for sc in itertools.product([True, False], repeat=n)]
            for s1 in scripts:
                for s2 in scripts:
                    cases.append(dict(base, runs=[dict(goals=base["goals"], script=s1, skip=[]),
                                                  dict(goals=base["goals"], script=s2, skip=[])]))
        if big:
            base = gen_case(rng, variant=v, nprio=2, script=[])
            scripts = [list(sc) for sc in itertools.product([True, False], repeat=2)]
            for s1 in scripts:
                for s2 in scripts:
                    for s3 in scripts:
                        cases.append(dict(base, runs=[dict(goals=base["goals"], script=s, skip=[]) for s in (s1, s2, s3)]))
    # sampled longer ones: 3 priorities, 2-3 calls, skip sets, goal set changed between the calls,
    # and always some "successful call, then a call failing at its first priority"
    for j in range(150 if big else 12):
        v = rng.choice(["multi", "multi", "single"])
        n = rng.choice([2, 3, 3, 4])
        base = gen_case(rng, variant=v, nprio=n, script=[])
        prios = sorted({int(g["priority"]) for g in base["goals"]})
        runs = []
        for k in range(rng.choice([2, 3])):
            goals = base["goals"]
            if rng.random() < 0.3:  # "a goal was switched on/off in between"
                goals = [g for g in goals if rng.random() < 0.7] or goals[:1]
            sk = rng.sample(prios, rng.randint(1, 2)) if (v == "multi" and rng.random() < 0.3) else []
            runs.append(dict(goals=goals, script=[rng.random() < 0.6 for _ in range(n)], skip=sk))
        if j % 3 == 0:
            runs[0]["script"], runs[0]["skip"] = [True] * n, []
            runs[1]["script"] = [False] + runs[1]["script"][1:]
        cases.append(dict(base, runs=runs))
    check_sequences(c, cases, "sequence")
    return len(cases)


def stream_skip(c, rng, sizes, variants, sample=None):
    """priorities removed in priority_started x solver scripts: for n priorities every non-empty set of
    skipped priorities and every success/failure script over the remaining ones (completed -> skipped
    -> failed, skipped first -> ..., everything skipped, ...).  `sample`: cap per (variant, n)."""
    cases = []
    for v in variants:
        for n in sizes:
            base = gen_case(rng, variant=v, nprio=n, script=[])
            prios = sorted({int(g["priority"]) for g in base["goals"]})
            combos = []
            for k in range(1, n + 1):
                for sk in itertools.combinations(prios, k):
                    for script in itertools.product([True, False], repeat=n - k):
                        combos.append((list(sk), list(script)))
            if sample is not None and len(combos) > sample:
                combos = rng.sample(combos, sample)
            for sk, script in combos:
                cases.append(dict(base, script=script, skip=sk))
    check_instances(c, cases, "skip")
    return len(cases)


def skip_patterns(ev, skip):
    """which of the interesting hook/solver patterns a log contains"""
    out = set()
    completed_before = False
    pending_skip = False  # a skipped priority since the last solve
    for i, e in enumerate(ev):
        if e[0] == "S":
            solved = i + 1 < len(ev) and ev[i + 1][0] == "X"
            if not solved:
                pending_skip = True
                if not completed_before and not any(x[0] == "X" for x in ev[:i]):
                    out.add("skipped-first")
        elif e[0] == "X":
            if pending_skip:
                if e[2]:
                    out.add("skipped-then-success")
                else:
                    out.add("completed-skipped-failed" if completed_before else "skipped-then-failed-no-completion")
            pending_skip = False
        elif e[0] == "C":
            completed_before = True
    if pending_skip and completed_before and ev and ev[-2:][0][0] == "S":
        out.add("completed-then-skipped-last")
    if not any(e[0] == "X" for e in ev) and any(e[0] == "S" for e in ev):
        out.add("everything-skipped")
    return out


def run(c):
    logging.getLogger("rtctools").setLevel(logging.CRITICAL)
    c.rule = (
        "real GoalProgrammingMixin / SinglePassGoalProgrammingMixin / MinAbs+GoalProgrammingMixin on a synthetic linear "
        "problem (1-2 members, 3-4 time steps, IPOPT) with 1-8 goals: path/point minimisation goals, target goals with "
        "scalar / Timeseries / numpy-vector targets (vector goals: keep_soft_constraints) whose entries are all / partly / "
        "not at all finite (NaN, -inf below, +inf above; all non-finite Timeseries = empty goal), min only / max only / both, "
        "alone at their priority and shared; priorities from {-7..100} as int, float, "
        "non-integral float (int() truncation), numpy scalars, duplicates and gaps; scripted solver outcomes (effective "
        "= script AND real); skip_priority set in priority_started; exhaustive over all success/failure scripts for "
        "n priorities.  distinct = (stream, variant, priority multiset, is_empty pattern, effective outcomes, skips, return value)"
    )
    c.assumptions = [
        "the solver is an arbitrary outcome oracle; what it computes is not modelled (results are identified by the "
        "priority whose solve produced them)",
        "`skip_priority` is whatever the user hook leaves behind (modelled as an arbitrary predicate on the priority)",
        "constraint/objective construction between the hooks is outside this property (C02-C04)",
    ]
    from .translate_c10 import gen_priority_loop

    c.prove(extra=gen_priority_loop(c))  # + the two priority loops translated from the source on every run
    rng = c.rng
    check_instances(c, [dict(x) for x in CORPUS], "corpus")
    if c.big:
        n = stream_exhaustive(c, rng, 5, ("multi", "single"))
        n += stream_exhaustive(c, rng, 4, ("minabs",))
        c.exhaustive = True
        c.notes.append("all 2^n success/failure scripts for n = 1..5 priorities, multi-pass and single-pass "
                       "(n <= 4 for the MinAbs variant): %d runs; " % n)
    else:
        n = stream_exhaustive(c, rng, 3, ("multi", "single"))
        c.exhaustive = False
        c.notes.append("all 2^n success/failure scripts for n = 1..3 priorities, both variants: %d runs; " % n)
    if c.big:
        ns = stream_skip(c, rng, (1, 2, 3, 4, 5), ("multi",))
        ns += stream_skip(c, rng, (2, 3, 4), ("single",))
    else:
        ns = stream_skip(c, rng, (1, 2, 3, 4), ("multi",))
        ns += stream_skip(c, rng, (3,), ("single",), sample=10)
    c.notes.append("skip_priority stream: every non-empty set of removed priorities x every script over the remaining "
                   "ones (%d runs; complete for n <= %d priorities in the multi-pass variant); " % (ns, 5 if c.big else 4))
    npart = stream_partial(c, rng, c.big)
    c.notes.append("partial-target stream: %d runs with a goal whose target sides are all / partly / not at all finite "
                   "(NaN, -inf below, +inf above; 1-D and vector Timeseries, numpy vectors; path and point goals), alone at "
                   "its priority and shared; emptiness is judged from the goal data, never via Goal.is_empty; " % npart)
    nq = stream_sequences(c, rng, c.big)
    c.notes.append("sequence stream: %d instances optimized 2-3 times with independent scripts/skip sets per call "
                   "(all pairs of scripts for n <= %d priorities, both variants, plus sampled longer ones); " % (nq, 3 if c.big else 2))
    check_instances(c, [gen_case(rng) for _ in range(c.n(100, 3000))], "random")
    c.programs = c.evaluations
    c.notes.append("the unbounded claim (any goal set, any outcome oracle) is carried by the theorems.")


def replay(c, rp):
    logging.getLogger("rtctools").setLevel(logging.CRITICAL)
    from .translate_c10 import gen_priority_loop

    c.prove(extra=gen_priority_loop(c))  # + the two priority loops translated from the source on every run
    cases = []
    for f in rp.get("failures", []) + rp.get("disagreements", []) + rp.get("correspondence_disagreements", []):
        case = f.get("case") or {}
        if "goals" in case and "variant" in case:
            cs = {k: case[k] for k in ("variant", "times", "p", "q", "cvals", "goals", "script", "skip")}
            cs["keep_soft"] = bool(case.get("keep_soft", False))

            def num(v):
                return [num(x) for x in v] if isinstance(v, (list, tuple)) else float(v)

            for g in cs["goals"]:
                for k in ("tmin", "tmax"):
                    if g[k] is not None:
                        g[k] = (g[k][0], num(g[k][1]))
            cases.append(cs)
            print("replaying", f["what"])
    check_instances(c, [dict(x) for x in CORPUS] + cases, "replay")
