"""
C11 — time-series files round-trip: what is written is what is read.

Proof obligations: lean/RtcVerif/Props/C11.lean (record-level model lean/RtcVerif/Model/C11.lean).
Correspondence: the real `pi.Timeseries` (XML and binary, new files and re-written files),
`pi.Timeseries.resize`, `rtc.DataConfig`, `pi.ParameterConfig`, `csv.save/load`,
`netcdf.ExportDataset -> ImportDataset`, all in temp dirs, against the Lean model through
Drivers/C11.lean; independent Python oracles re-state the round-trip / padding / resize
properties on the real code's outputs (failing-input search).
"""
import datetime
import logging
import math
import os
import shutil
import tempfile
import warnings
from fractions import Fraction

import numpy as np

from . import c11_fews as W
from . import c11_more as M
from . import c11_pi as P
from .c11_pi import call, dtm, sec, xv
from .common import fr, same, unfr

NAN = float("nan")
INF = float("inf")
STEPS = [1, 7, 60, 900, 3600, 3600, 3600, 5400, 25200, 86400, 90000, 21600]


def isnan(x):
    return isinstance(x, float) and math.isnan(x)


def f32(x):
    with warnings.catch_warnings():
        warnings.simplefilter("ignore")
        return float(np.float32(x))


# ---------------------------------------------------------------------------------------------
# generators


def gen_val(rng, allow_inf=True):
    r = rng.random()
    if r < 0.15:
        return NAN
    if r < 0.27:
        return float(rng.choice([0, 1, -1, 2, 10]))
    if r < 0.5:
        return rng.randint(-4096, 4096) / 64
    if r < 0.53 and allow_inf:
        return rng.choice([INF, -INF])
    mag = 10 ** rng.uniform(-6, 8)
    v = rng.uniform(-1, 1) * mag
    return round(v, rng.randint(0, 8)) if rng.random() < 0.5 else v


def gen_vals(rng, n, allow_inf=True):
    pat = rng.random()
    if pat < 0.06:
        return [NAN] * n
    vs = [gen_val(rng, allow_inf) for _ in range(n)]
    if pat < 0.2 and n > 1:  # leading / trailing gap
        k = rng.randint(1, n - 1)
        vs = ([NAN] * k + vs[k:]) if rng.random() < 0.5 else (vs[: n - k] + [NAN] * k)
    return vs


def collides(vs, binary):
    """the PI missing-value convention: a real value equal to missVal (-999) reads back as missing"""
    return any((f32(v) if binary else v) == -999.0 for v in vs if not isnan(v))


def gen_times(rng):
    """(dt or None, stamps)"""
    start = rng.choice([0, 86400 * rng.randint(0, 6000), rng.randint(0, 10 ** 8)])
    n = rng.choice([1, 2, 3, 3, 4, 5, 6, 8, 12])
    if rng.random() < 0.75:
        d = rng.choice(STEPS)
        return d, [start + i * d for i in range(n)]
    gaps = [rng.choice([60, 3600, 7200, 10800, 86400, 100000]) for _ in range(n - 1)]
    ts = [start]
    for g in gaps:
        ts.append(ts[-1] + g)
    return None, ts


def gen_store(rng, ids, binary):
    d, times = gen_times(rng)
    n = len(times)
    E = rng.choice([1, 1, 1, 2, 2, 3])
    cens = E > 1 or rng.random() < 0.25
    fi = rng.choice([0, 0, rng.randrange(n), n - 1])
    slots = []
    for m in range(E):
        k = len(ids.names)
        sub = [v for v in range(k) if rng.random() < 0.7]
        if m == E - 1 and not sub:
            sub = [rng.randrange(k)]
        slot = []
        for v in sub:
            while True:
                vs = gen_vals(rng, n, allow_inf=True)
                if not collides(vs, binary):
                    break
            slot.append({"var": v, "unit": rng.choice(P.UNITS), "vals": [xv(x) for x in vs]})
        slots.append(slot)
    if E > 1 and rng.random() < 0.3 and len(slots[0]) > 0:  # coincidence between members
        slots[-1] = [dict(e) for e in slots[0]]
    return {"dt": d, "start": times[0], "stop": times[-1], "times": times, "forecast": times[fi], "fcIndex": fi,
            "tz": rng.choice([None, fr(0.0), fr(1.0), fr(-3.5)]), "containsEns": cens, "ensSize": E, "slots": slots}


def r32_table(st):
    tab = {}
    for sl in st["slots"]:
        for e in sl:
            for x in e["vals"]:
                v = unfr(x)
                if not isnan(v):
                    tab[x] = xv(f32(float(v)))
    return [[k, v] for k, v in sorted(tab.items())]


# ---------------------------------------------------------------------------------------------
# stream 1: new object -> write -> read  (XML and binary)


def oracle_roundtrip(orig, back, binary):
    """independent statement of the round trip on the real code's result; returns None or what differs"""
    for k in ("dt", "start", "stop", "times", "forecast", "fcIndex", "containsEns", "ensSize"):
        if orig[k] != back[k]:
            return k
    if (orig["tz"] is None) != (back["tz"] is None) or (orig["tz"] is not None and unfr(orig["tz"]) != unfr(back["tz"])):
        return "tz"
    if len(orig["slots"]) != len(back["slots"]):
        return "ensemble slots"
    for m, (a, b) in enumerate(zip(orig["slots"], back["slots"])):
        da = {e["var"]: e for e in a}
        db = {e["var"]: e for e in b}
        if set(da) != set(db):
            return "variables of member %d" % m
        for v in da:
            if da[v]["unit"] != db[v]["unit"]:
                return "unit"
            xa = [float(unfr(x)) for x in da[v]["vals"]]
            xb = [float(unfr(x)) for x in db[v]["vals"]]
            if len(xa) != len(xb):
                return "length"
            for p, q in zip(xa, xb):
                if isnan(p) != isnan(q):
                    return "missing value"
                if not isnan(p) and (f32(p) if binary else p) != q:
                    return "value"
    return None


def stream_roundtrip(c, N, tmp):
    import rtctools.data.pi as pi
    import rtctools.data.rtc as rtc

    rng = c.rng
    cases, lines = [], []
    for i in range(N):
        ids = P.gen_ids(rng)
        binary = rng.random() < 0.35
        st = gen_store(rng, ids, binary)
        d = os.path.join(tmp, "rt%d" % i)
        os.makedirs(d)
        with open(os.path.join(d, "rtcDataConfig.xml"), "w") as fh:
            fh.write(ids.config_xml())
        dc = rtc.DataConfig(d)

        def real():
            ts = P.build_real(pi, dc, d, "ts", st, ids, binary)
            with warnings.catch_warnings():
                warnings.simplefilter("ignore")
                ts.write()
            f = P.parse_xml_file(os.path.join(d, "ts.xml"), ids, os.path.join(d, "ts.bin") if binary else None)
            r = pi.Timeseries(dc, d, "ts", binary=binary)
            return f, P.real_to_store(r, ids)

        res = call(real)
        shutil.rmtree(d, ignore_errors=True)
        case = {"stream": "pi write->read", "binary": binary, "names": ids.names, "ext": ids.ext, "store": st}
        cases.append((case, res))
        lines.append({"op": "pi_roundtrip", "binary": binary, "store": st, "r32": r32_table(st) if binary else None})
        c.count(("rt", binary, st["dt"] is None, st["ensSize"], st["containsEns"], len(st["times"]),
                 st["fcIndex"] == 0, tuple(len(s) for s in st["slots"])))
        c.hit("roundtrip/" + ("binary" if binary else "xml"))
        c.hit("roundtrip/" + ("nonequidistant" if st["dt"] is None else "equidistant"))
        c.hit("roundtrip/E=%d" % st["ensSize"])
        c.sample(case, limit=3)
    outs = c.model(lines)
    for k, (case, res) in enumerate(cases):
        st, binary = case["store"], case["binary"]
        if res[0] == "raise":
            c.fail("writing / re-reading a well-formed PI series raised " + res[1], case)
            continue
        f, back = res[1]
        # the binary format has no place for the stamps of a nonequidistant series: outside the claim
        bad = None if (binary and st["dt"] is None) else oracle_roundtrip(st, back, binary)
        if binary and st["dt"] is None:
            c.hit("roundtrip/binary+nonequidistant (correspondence only)")
        if bad:
            c.fail("PI %s round trip changes the %s" % ("binary" if binary else "XML", bad), case,
                   {"read_back": back})
        if outs is None:
            continue
        mo = outs[k]
        if mo == "raise":
            c.disagree("pi write: model raises, code does not", case, mo, None)
            continue
        if P.canon_file(mo["file"]) != P.canon_file({**f, "recs": [{**r, "hdr": r["hdr"]} for r in f["recs"]]}):
            c.disagree("pi write: file contents", case, P.canon_file(mo["file"]), P.canon_file(f))
        if mo["store"] == "raise" or P.canon_store(mo["store"]) != P.canon_store(back):
            c.disagree("pi read(write s)", case, mo["store"], back)


# ---------------------------------------------------------------------------------------------
# stream 2: hand-made files (per-series ranges, virtual ensembles, forecast flooring, missVal kinds)


def gen_file(rng, ids):
    """returns (file wire form, binary flag, info) ; info['clean'] = the padding oracle applies"""
    binary = rng.random() < 0.3
    neq = rng.random() < 0.25
    n = rng.choice([2, 3, 4, 5, 6, 8, 10])
    start = rng.choice([0, 86400 * rng.randint(0, 6000), rng.randint(0, 10 ** 8)])
    if neq:
        T = [start]
        for _ in range(n - 1):
            T.append(T[-1] + rng.choice([60, 3600, 7200, 10800, 86400, 100000]))
        d = None
    else:
        d = rng.choice(STEPS)
        T = [start + i * d for i in range(n)]
    ens = rng.choice(["none", "none", "full", "full", "virtual"])
    E = 1 if ens == "none" else rng.choice([1, 2, 3])
    clean = True
    # forecast
    fmode = rng.choice(["grid", "grid", "absent", "offgrid", "far", "outside"])
    if fmode == "grid":
        fc = T[rng.randrange(n)]
    elif fmode == "absent":
        fc = None
    elif fmode == "offgrid":
        fc = T[rng.randrange(n)] + rng.choice([1, -1, 29, (d or 60) // 2, (d or 60) // 2 + 1, (d or 60) - 1])
    elif fmode == "far":
        k = rng.randint(1, 40)
        fc = T[0] + (k * d if d else 86400 * k) + rng.choice([0, 0, 1, 3599])
    else:
        fc = T[0] - rng.choice([d or 3600, 86400, 5])
    miss = rng.choice([-999.0, -999.0, NAN, 1e10, 0.0])
    recs, keys, stream = [], set(), []
    nseries = rng.randint(1, 5)
    full_seen = False
    want_clean = rng.random() < 0.6
    for j in range(nseries):
        var = rng.randrange(len(ids.names))
        if ens == "none":
            mem = None
        elif ens == "full":
            mem = rng.randrange(E)
        else:
            mem = rng.randrange(E) if (rng.random() < 0.6 or j == 0) else None
        if want_clean:
            def free(mm, vv):
                if ens == "virtual":
                    return not any(v2 == vv and (mm is None or m2 is None or m2 == mm) for (m2, v2) in keys)
                return (mm, vv) not in keys
            if not free(mem, var):
                opts = [(mm, vv) for vv in range(len(ids.names))
                        for mm in ([None] if ens == "none" else list(range(E)) + ([None] if ens == "virtual" and j else []))
                        if free(mm, vv)]
                if not opts:
                    break
                mem, var = rng.choice(opts)
        if (j == nseries - 1 and not full_seen) or (want_clean and j == 0):
            a, b = 0, n - 1
        else:
            a = rng.choice([0, 0, rng.randrange(n)])
            b = rng.choice([n - 1, n - 1, rng.randrange(a, n)])
        if a == 0 and b == n - 1:
            full_seen = True
        if (mem, var) in keys:
            clean = False  # a second series for the same slot overwrites the first
        keys.add((mem, var))
        nv = b - a + 1
        vals = [x if isnan(x) or not binary else f32(x) for x in gen_vals(rng, nv)]
        evt = T[a:b + 1]
        evs = list(vals)
        if not binary and not want_clean and rng.random() < 0.25:  # fewer / more events than announced
            clean = False
            if rng.random() < 0.5 and nv > 1:
                evt, evs = evt[:-1], evs[:-1]
            else:
                evt, evs = evt + [evt[-1] + (d or 60)], evs + [7.0]
        s0, s1 = T[a], T[b]
        if (not neq) and not want_clean and rng.random() < 0.15:  # header not on the grid: rounding rules (correspondence only)
            clean = False
            s0 += rng.choice([d // 3, -(d // 3), d // 2]) if d > 1 else 0
        hf = fc if (fc is not None and (want_clean or rng.random() < 0.7)) else None
        hq = list(ids.ext[ids.names[var]][2])
        rng.shuffle(hq)  # the order of the qualifiers in a header is irrelevant for the id lookup
        recs.append({"hdr": {"var": var, "member": mem, "step": d, "start": s0, "stop": s1, "forecast": hf,
                             "miss": xv(miss), "unit": rng.choice(P.UNITS), "quals": hq},
                     "evt": [] if binary else evt, "evs": [] if binary else [xv(x) for x in evs],
                     "_range": (a, b), "_vals": vals})
        stream += vals
    if not want_clean and rng.random() < 0.12 and len(recs) > 1:  # inconsistent forecast dates -> rejected
        recs[-1]["hdr"]["forecast"] = T[0] + 17
        recs[0]["hdr"]["forecast"] = T[0]
        clean = False
    if not want_clean and rng.random() < 0.08 and len(recs) > 1 and not neq:  # inconsistent steps -> rejected
        recs[-1]["hdr"]["step"] = d + 1
        clean = False
    # order dependence of the forecast check (noted, outside the property): a first series without
    # forecastDate fixes the forecast to its own start; a later, different forecastDate is then rejected
    if recs[0]["hdr"]["forecast"] is None and any(
            r["hdr"]["forecast"] not in (None, recs[0]["hdr"]["start"]) for r in recs[1:]):
        clean = False
    if ens == "virtual":  # a series without index lands in every member: overlaps count as overwrites
        for i1, r1 in enumerate(recs):
            for r2 in recs[i1 + 1:]:
                if r1["hdr"]["var"] == r2["hdr"]["var"] and (r1["hdr"]["member"] is None or r2["hdr"]["member"] is None):
                    clean = False
    b = None
    if binary:
        r = rng.random()
        if r < 0.15 and not want_clean:
            b = None  # placeholder file without .bin
            clean = False
        elif r < 0.3 and len(stream) > 1 and not want_clean:
            b = [xv(x) for x in stream[:-1]]
            clean = False
        else:
            b = [xv(x) for x in stream]
    f = {"tz": rng.choice([None, fr(0.0), fr(2.0)]), "recs": recs, "bin": b}
    info = {"clean": clean and full_seen, "T": T, "d": d, "fc": fc, "fmode": fmode, "miss": miss, "E": E, "ens": ens}
    return f, binary, info


def strip_private(f):
    return {**f, "recs": [{k: v for k, v in r.items() if not k.startswith("_")} for r in f["recs"]]}


def oracle_padding(f, info, back):
    """series shorter than the global range are NaN exactly outside their own range (clean files)"""
    T, miss = info["T"], info["miss"]
    if back["times"] != T or back["start"] != T[0] or back["stop"] != T[-1]:
        return "global time range"
    E = back["ensSize"]
    for r in f["recs"]:
        h = r["hdr"]
        a, b = r["_range"]
        targets = [h["member"]] if h["member"] is not None else (list(range(E)) if back["containsEns"] else [0])
        for m in targets:
            ent = [e for e in back["slots"][m] if e["var"] == h["var"]]
            if len(ent) != 1:
                return "series missing in member %d" % m
            got = [float(unfr(x)) for x in ent[0]["vals"]]
            if len(got) != len(T):
                return "padded length"
            if ent[0]["unit"] != h["unit"]:
                return "unit"
            for i, g in enumerate(got):
                if i < a or i > b:
                    if not isnan(g):
                        return "value outside the series' own range is not missing"
                else:
                    x = r["_vals"][i - a]
                    exp_nan = isnan(x) or x == miss
                    if exp_nan != isnan(g) or (not exp_nan and g != x):
                        return "value inside the series' own range"
    return None


def stream_reader(c, N, tmp):
    import rtctools.data.pi as pi
    import rtctools.data.rtc as rtc

    rng = c.rng
    cases, lines = [], []
    for i in range(N):
        ids = P.gen_ids(rng)
        f, binary, info = gen_file(rng, ids)
        d = os.path.join(tmp, "rd%d" % i)
        os.makedirs(d)
        with open(os.path.join(d, "rtcDataConfig.xml"), "w") as fh:
            fh.write(ids.config_xml())
        wf = strip_private(f)
        P.write_file(d, "ts", wf, ids)

        def real():
            dc = rtc.DataConfig(d)
            with warnings.catch_warnings():
                warnings.simplefilter("ignore")
                r = pi.Timeseries(dc, d, "ts", binary=binary)
            return P.real_to_store(r, ids)

        res = call(real)
        shutil.rmtree(d, ignore_errors=True)
        case = {"stream": "pi read", "binary": binary, "names": ids.names, "file": wf,
                "info": {k: info[k] for k in ("clean", "fmode", "ens", "E", "d")}}
        cases.append((case, res, f, info))
        lines.append({"op": "pi_read", "binary": binary, "file": wf})
        c.count(("rd", binary, info["d"] is None, info["ens"], info["E"], info["fmode"], info["clean"], len(f["recs"]),
                 tuple(r["_range"] for r in f["recs"])))
        c.hit("read/" + ("clean" if info["clean"] else "irregular"))
        c.hit("read/ens-" + info["ens"])
        c.hit("read/forecast-" + info["fmode"])
        c.hit("read/" + res[0])
        c.sample(case, limit=5)
    outs = c.model(lines)
    for k, (case, res, f, info) in enumerate(cases):
        if info["clean"] and not (case["binary"] and info["d"] is None):
            if res[0] == "raise":
                c.fail("reading a well-formed PI file raised " + res[1], case)
            else:
                bad = oracle_padding(f, info, res[1])
                if bad:
                    c.fail("PI read: " + bad, case, {"read": res[1]})
                # forecast: on the grid it is kept (any number of days after the start)
                fc, T, d = info["fc"], info["T"], info["d"]
                hfs = [r["hdr"]["forecast"] for r in f["recs"]]
                if all(h is not None for h in hfs) and fc in T:
                    if res[1]["forecast"] != fc or res[1]["fcIndex"] != T.index(fc):
                        c.fail("PI read: forecast date on the grid is moved / mis-indexed", case,
                               {"forecast": res[1]["forecast"], "index": res[1]["fcIndex"]})
                elif all(h is not None for h in hfs) and d:
                    g = res[1]["forecast"]
                    if (g - T[0]) % d != 0 or abs(2 * (g - fc)) > d:
                        c.fail("PI read: forecast date is not moved to the nearest grid point", case,
                               {"forecast": g})
        if outs is None:
            continue
        mo = outs[k]
        if mo == "raise" or res[0] == "raise":
            if (mo == "raise") != (res[0] == "raise"):
                c.disagree("pi read raise/value", case, mo, res)
            continue
        if P.canon_store(mo) != P.canon_store(res[1]):
            c.disagree("pi read", case, mo, res[1])


# ---------------------------------------------------------------------------------------------
# stream 3: sequences of set / resize / write / read


def gen_window(rng, st):
    """a new (start, stop) for resize; returns (ns, ne, on_grid)"""
    d = st["dt"]
    if d is None:
        cur = st["times"]
        i = rng.choice([0, 0, rng.randrange(len(cur))])
        j = rng.randrange(i, len(cur))
        if rng.random() < 0.1:
            return (cur[0] - 60, cur[j], True) if rng.random() < 0.5 else (cur[i], cur[-1] + 60, True)  # growing: rejected
        return cur[i], cur[j], True
    n = (st["stop"] - st["start"]) // d + 1
    a = rng.choice([0, 0, 1, -1, 2, -3, n - 1, n, n + 2, -(n + 3), rng.randint(-4, n + 5)])
    ns = st["start"] + a * d
    length = rng.choice([1, 1, 2, n, n + 1, rng.randint(1, n + 4)])
    ne = ns + (length - 1) * d
    on_grid = True
    if rng.random() < 0.07 and d > 2:
        ns += rng.choice([d // 3, d // 2, -(d // 3)])
        on_grid = False
    return ns, ne, on_grid


def spec_resize(vals, start, d, ns, ne):
    """specification: value at every stamp of the new window (own grid), NaN where there was none"""
    out = []
    t = ns
    while t <= ne:
        k = (t - start) // d
        out.append(vals[k] if (t - start) % d == 0 and 0 <= k < len(vals) else NAN)
        t += d
    return out


def stream_resize(c, N, tmp):
    import rtctools.data.pi as pi
    import rtctools.data.rtc as rtc

    rng = c.rng
    cases, lines = [], []
    for i in range(N):
        ids = P.gen_ids(rng, 3)
        st = gen_store(rng, ids, False)
        d = os.path.join(tmp, "rs%d" % i)
        os.makedirs(d)
        with open(os.path.join(d, "rtcDataConfig.xml"), "w") as fh:
            fh.write(ids.config_xml())
        dc = rtc.DataConfig(d)
        ts = P.build_real(pi, dc, d, "ts", st, ids, False)
        seq, obs, cur, ok_spec = [], [], st, True
        fails = []
        for _ in range(rng.randint(1, 4)):
            ns, ne, on_grid = gen_window(rng, cur)
            seq.append({"ns": ns, "ne": ne})
            r = call(ts.resize, dtm(ns), dtm(ne))
            if r[0] == "raise":
                obs.append("raise")
                if cur["dt"] is not None or (cur["start"] <= ns and ne <= cur["stop"]):
                    fails.append(("resize raised " + r[1], {"ns": ns, "ne": ne}))
                break  # the object may be half-modified after a rejected call
            now = {"start": sec(ts.start_datetime), "stop": sec(ts.end_datetime), "times": [sec(t) for t in ts.times],
                   "slots": [[{"var": ids.rank[k], "vals": [xv(x) for x in np.asarray(v, dtype=float)]}
                              for k, v in ts.items(m)] for m in range(len(cur["slots"]))]}
            obs.append(now)
            # oracle (equidistant, windows on the grid): values at surviving stamps, NaN on new ones
            if cur["dt"] is not None and on_grid and ok_spec:
                for m, sl in enumerate(cur["slots"]):
                    for e in sl:
                        old = [float(unfr(x)) for x in e["vals"]]
                        exp = spec_resize(old, cur["start"], cur["dt"], ns, ne)
                        got = [float(unfr(x)) for x in next(z for z in now["slots"][m] if z["var"] == e["var"])["vals"]]
                        if len(exp) != len(got) or any(
                                (isnan(a) != isnan(b)) or (not isnan(a) and a != b) for a, b in zip(exp, got)):
                            fails.append(("resize does not keep the values at the surviving stamps",
                                          {"old": old, "old_start": cur["start"], "ns": ns, "ne": ne, "got": got}))
            if cur["dt"] is not None and on_grid and ok_spec and \
                    now["times"] != list(range(ns, ne + 1, cur["dt"])):
                fails.append(("resize: the time stamps do not follow the new window", {"ns": ns, "ne": ne, "times": now["times"]}))
            if cur["dt"] is None and ok_spec:
                if now["times"] != [t for t in cur["times"] if ns <= t <= ne]:
                    fails.append(("resize (nonequidistant): the time stamps do not follow the new window",
                                  {"ns": ns, "ne": ne, "times": now["times"]}))
                T = [t for t in cur["times"]]
                for m, sl in enumerate(cur["slots"]):
                    for e in sl:
                        ot = [t for t in T if cur["start"] <= t <= cur["stop"]]
                        ov = [float(unfr(x)) for x in e["vals"]]
                        if len(ot) != len(ov):
                            fails.append(("resize (nonequidistant): values and stamps differ in number",
                                          {"stamps": ot, "values": ov}))
                            continue
                        old = dict(zip(ot, ov))
                        exp = [old[t] for t in T if ns <= t <= ne]
                        got = [float(unfr(x)) for x in next(z for z in now["slots"][m] if z["var"] == e["var"])["vals"]]
                        if len(exp) != len(got) or any(
                                (isnan(a) != isnan(b)) or (not isnan(a) and a != b) for a, b in zip(exp, got)):
                            fails.append(("resize (nonequidistant) does not keep the values at the surviving stamps",
                                          {"ns": ns, "ne": ne, "got": got, "expected": exp}))
            if not on_grid:
                ok_spec = False
            cur = {**cur, "start": now["start"], "stop": now["stop"], "times": now["times"],
                   "slots": [[{**e, "vals": next(z for z in now["slots"][m] if z["var"] == e["var"])["vals"]}
                              for e in sl] for m, sl in enumerate(cur["slots"])]}
        # finally: write and read back what was resized (equidistant, on grid, non-empty)
        back = None
        if ok_spec and cur["stop"] >= cur["start"] and obs and obs[-1] != "raise":
            def wr():
                ts.write()
                return P.real_to_store(pi.Timeseries(dc, d, "ts", binary=False), ids)
            back = call(wr)
            if back[0] == "raise":
                fails.append(("write/read after resize raised " + back[1], {}))
            else:
                b = back[1]
                exp_times = cur["times"]
                bad = None
                if b["times"] != exp_times:
                    bad = "time stamps"
                for m, sl in enumerate(cur["slots"]):
                    for e in sl:
                        got = [z for z in b["slots"][m] if z["var"] == e["var"]]
                        if len(got) != 1 or P.canon_store({**b, "slots": [[got[0]]]})["slots"][0][0][2] != \
                                P.canon_store({**b, "slots": [[e]]})["slots"][0][0][2]:
                            bad = "values"
                if bad:
                    fails.append(("write/read after resize changes the " + bad, {"read_back": b}))
        shutil.rmtree(d, ignore_errors=True)
        case = {"stream": "pi resize", "names": ids.names, "store": st, "seq": seq}
        cases.append((case, obs, fails))
        lines.append({"op": "pi_resize", "store": st, "seq": seq})
        c.count(("rs", st["dt"] is None, len(st["times"]), tuple((w["ns"] - st["start"], w["ne"] - st["stop"]) for w in seq)))
        c.hit("resize/" + ("nonequidistant" if st["dt"] is None else "equidistant"))
        c.hit("resize/steps", len(seq))
        c.sample(case, limit=3)
    outs = c.model(lines)
    for k, (case, obs, fails) in enumerate(cases):
        for what, detail in fails:
            c.fail(what, case, detail)
        if outs is None:
            continue
        for mo, ob in zip(outs[k], obs):
            if mo == "raise" or ob == "raise":
                if mo != ob:
                    c.disagree("resize raise/value", case, mo, ob)
                    break
                continue
            got = {"start": mo["start"], "stop": mo["stop"], "times": mo["times"],
                   "slots": [sorted((e["var"], tuple(map(str, (P.canon_store({**mo, "slots": [[e]]})["slots"][0][0][2]))))
                                    for e in sl) for sl in mo["slots"]]}
            imp = {"start": ob["start"], "stop": ob["stop"], "times": ob["times"],
                   "slots": [sorted((e["var"], tuple(map(str, [("nan" if isnan(float(unfr(x))) else unfr(x)) for x in e["vals"]])))
                                    for e in sl) for sl in ob["slots"]]}
            if got != imp:
                c.disagree("resize", case, got, imp)
                break


# ---------------------------------------------------------------------------------------------
# stream 3b: resize / set in any order on NEW objects (also before any series exists)


def stream_ops(c, N, tmp):
    """set / resize / move forecast / add member / WRITE (several times) in any order on a NEW object, XML and
    binary; after every write the file is read back and compared"""
    import rtctools.data.pi as pi
    import rtctools.data.rtc as rtc

    rng = c.rng
    cases, lines = [], []
    for i in range(N):
        ids = P.gen_ids(rng, 3)
        binary = rng.random() < 0.3
        st = gen_store(rng, ids, binary)
        while st["dt"] is None:
            st = gen_store(rng, ids, binary)
        d0 = st["dt"]
        init = rng.choice(["none", "none", "some members", "all"])
        if init == "none":
            st["slots"] = [[] for _ in st["slots"]]
        elif init == "some members" and len(st["slots"]) > 1:
            keep = rng.randrange(len(st["slots"]))
            st["slots"] = [sl if m == keep else [] for m, sl in enumerate(st["slots"])]
        E = len(st["slots"])
        cens = st["containsEns"]
        fc = st["forecast"]
        folder = os.path.join(tmp, "op%d" % i)
        os.makedirs(folder)
        with open(os.path.join(folder, "rtcDataConfig.xml"), "w") as fh:
            fh.write(ids.config_xml())
        dc = rtc.DataConfig(folder)
        ts = P.build_real(pi, dc, folder, "ts", st, ids, binary)
        # reference: value by stamp and unit for every stored series, the current window, forecast, members
        ref, units = {}, {}
        for m, sl in enumerate(st["slots"]):
            for e in sl:
                ref[(m, e["var"])] = dict(zip(st["times"], [float(unfr(x)) for x in e["vals"]]))
                units[(m, e["var"])] = e["unit"]
        win = (st["start"], st["stop"])
        ops, obs, fails, model_ok = [], [], [], True
        nwrites = 0
        nops = rng.randint(2, 8)
        pattern = rng.choice(["resize-first", "resizes-in-a-row", "write-change-write", "write-change-write", "any"])

        def holds(slots, readback):
            got = {(m2, e["var"]): e for m2, sl in enumerate(slots) for e in sl}
            if set(got) != set(ref):
                return "stored series: %s instead of %s" % (sorted(got), sorted(ref))
            stamps_ = list(range(win[0], win[1] + 1, d0))
            for key, byt in ref.items():
                exp = [byt.get(t, NAN) for t in stamps_]
                if readback and binary:
                    exp = [x if isnan(x) else f32(x) for x in exp]
                g = [float(unfr(x)) for x in got[key]["vals"]]
                if len(g) != len(exp) or any((isnan(a) != isnan(b)) or (not isnan(a) and a != b) for a, b in zip(exp, g)):
                    return {"series": list(key), "expected": exp, "got": g, "window": list(win)}
                if got[key]["unit"] != units[key]:
                    return {"series": list(key), "unit": got[key]["unit"], "expected_unit": units[key]}
            return None

        def readback_check(label):
            def wr():
                with warnings.catch_warnings():
                    warnings.simplefilter("ignore")
                    ts.write()
                    return P.real_to_store(pi.Timeseries(dc, folder, "ts", binary=binary), ids)
            back = call(wr)
            if back[0] == "raise":
                fails.append(("write/read (%s) raised %s" % (label, back[1]), {"ops": len(ops)}))
                return None
            b = back[1]
            stamps_ = list(range(win[0], win[1] + 1, d0))
            slots_b = b["slots"] + [[] for _ in range(E - len(b["slots"]))]
            e_exp = (max(m2 for (m2, _) in ref) + 1) if cens else 1
            bad = None
            if b["times"] != stamps_:
                bad = "time stamps %s" % b["times"]
            elif b["forecast"] != fc:
                bad = "forecast date %s instead of %s" % (b["forecast"], fc)
            elif b["ensSize"] != e_exp or b["containsEns"] != cens:
                bad = "ensemble size %s / flag %s instead of %s / %s" % (b["ensSize"], b["containsEns"], e_exp, cens)
            else:
                bad = holds(slots_b, True)
            if bad:
                fails.append(("write -> read (%s) does not reproduce the object as it is at that moment "
                              "(series, values, units, forecast date, members)" % label, bad))
            return b

        for k in range(nops):
            n = (win[1] - win[0]) // d0 + 1
            if (pattern == "resize-first" and k == 0) or (pattern == "resizes-in-a-row" and k < 3):
                kind = "resize"
            elif pattern == "write-change-write" and k in (1, 3) and ref:
                kind = "write"
            elif pattern == "write-change-write" and k == 0:
                kind = "set"
            else:
                kind = rng.choice(["resize", "set", "set", "write", "forecast", "member"])
            if kind == "write" and not ref:
                kind = "set"
            if kind == "resize":
                a = rng.choice([0, 1, -1, 2, -2, n - 1, n + 1, -(n + 1)])
                ns = win[0] + a * d0
                ne = ns + (rng.choice([1, 2, n, n + 1, rng.randint(1, n + 3)]) - 1) * d0
                o = {"op": "resize", "ns": ns, "ne": ne}
                r = call(ts.resize, dtm(ns), dtm(ne))
                if r[0] == "ok":
                    win = (ns, ne)
                    ref = {key: {t: v for t, v in byt.items() if ns <= t <= ne} for key, byt in ref.items()}
            elif kind == "set":
                m = rng.randrange(E)
                var = rng.randrange(len(ids.names))
                while True:
                    vals = gen_vals(rng, n, allow_inf=False)
                    if not collides(vals, binary):
                        break
                o = {"op": "set", "m": m, "var": var, "unit": rng.choice(P.UNITS), "vals": [xv(x) for x in vals]}
                r = call(ts.set, ids.names[var], np.array(vals, dtype=float), unit=o["unit"], ensemble_member=m)
                if r[0] == "ok":
                    ref[(m, var)] = dict(zip(range(win[0], win[1] + 1, d0), vals))
                    units[(m, var)] = o["unit"]
            elif kind == "forecast":
                t = rng.choice(list(range(win[0], win[1] + 1, d0)))
                o = {"op": "forecast", "t": t}
                r = call(setattr, ts, "forecast_datetime", dtm(t))
                if r[0] == "ok":
                    fc = t
                model_ok = False
            elif kind == "member":
                o = {"op": "member"}

                def grow():
                    ts.contains_ensemble = True
                    ts.ensemble_size = E + 1
                r = call(grow)
                if r[0] == "ok":
                    E += 1
                    cens = True
                model_ok = False
            else:
                o = {"op": "write"}
                nwrites += 1
                b = readback_check("write no. %d" % nwrites)
                r = ("ok", None)
            ops.append(o)
            c.hit("ops/" + o["op"] + (" (no series yet)" if o["op"] == "resize" and not ref else ""))
            if r[0] == "raise":
                obs.append("raise")
                fails.append(("%s raised %s on a new object" % (o["op"], r[1]), o))
                break
            if o["op"] in ("resize", "set"):
                now = {"start": sec(ts.start_datetime), "stop": sec(ts.end_datetime), "times": [sec(t) for t in ts.times],
                       "slots": [[{"var": ids.rank[kk], "unit": ts.get_unit(kk, m2), "vals": [xv(x) for x in np.asarray(v, dtype=float)]}
                                  for kk, v in ts.items(m2)] for m2 in range(E)]}
                obs.append(now)
        stamps = list(range(win[0], win[1] + 1, d0))
        last = [x for x in obs if x != "raise"]
        if last and not (obs and obs[-1] == "raise"):
            lastv = last[-1]
            if lastv["start"] != win[0] or lastv["stop"] != win[1] or lastv["times"] != stamps:
                fails.append(("after a set/resize sequence the time range is not the last window",
                              {"window": list(win), "start": lastv["start"], "stop": lastv["stop"], "times": lastv["times"]}))
        if not (obs and obs[-1] == "raise"):
            now_slots = [[{"var": ids.rank[kk], "unit": ts.get_unit(kk, m2), "vals": [xv(x) for x in np.asarray(v, dtype=float)]}
                          for kk, v in ts.items(m2)] for m2 in range(E)]
            bad = holds(now_slots, False)
            if bad:
                fails.append(("after a set/resize sequence a series does not hold the value last set for each stamp "
                              "of the current window (NaN if never set)", bad))
            if ref:
                nwrites += 1
                readback_check("final write, no. %d" % nwrites)
        c.hit("ops/writes per object", nwrites)
        shutil.rmtree(folder, ignore_errors=True)
        case = {"stream": "pi new object: set/resize/forecast/member/write sequence", "binary": binary,
                "names": ids.names, "store": st, "ops": ops}
        cases.append((case, obs, fails, model_ok))
        lines.append({"op": "pi_ops", "store": st, "ops": [o for o in ops if o["op"] in ("resize", "set")]})
        c.count(("ops", init, binary, E, len(st["times"]), tuple(o["op"] for o in ops)))
        c.hit("ops/initial series: " + init)
        c.hit("ops/" + ("binary" if binary else "xml"))
        c.sample(case, limit=1)
    outs = c.model(lines)
    for k, (case, obs, fails, model_ok) in enumerate(cases):
        for what, detail in fails:
            c.fail(what, case, detail)
        if outs is None or not model_ok:
            continue
        for mo, ob in zip(outs[k], obs):
            if mo == "raise" or ob == "raise":
                if mo != ob:
                    c.disagree("pi set/resize raise/value", case, mo, ob)
                    break
                continue
            a = P.canon_store({**mo})
            b = P.canon_store({**mo, **ob})
            if (a["start"], a["stop"], a["times"], a["slots"]) != (b["start"], b["stop"], b["times"], b["slots"]):
                c.disagree("pi set/resize sequence", case, mo, ob)
                break


# ---------------------------------------------------------------------------------------------


def run(c):
    logging.getLogger("rtctools").setLevel(logging.CRITICAL)
    c.rule = (
        "generated PI stores (1-12 stamps, steps incl. 7 h / 25 h, nonequidistant, forecast anywhere, 1-3 members, "
        "qualifiers, NaN patterns, inf) written and re-read through pi.Timeseries (XML, binary); hand-made PI files "
        "(per-series ranges, virtual ensembles, missVal kinds, forecast off-grid/days away, short streams); "
        "third-party PI files (binary: header-only XML + .bin with float32(missVal) / NaN at the missing samples; XML: missVal "
        "text; missVal per series, representable in float32 or not: -999, -999.9, -999.99, -9999.9, 0.1, 1e10, NaN …; padded "
        "series; full / virtual ensembles) read -> write -> read; "
        "resize sequences; CSV, NetCDF, ParameterConfig, DataConfig round trips.  distinct = (stream, format, "
        "sizes, ensemble layout, forecast kind, window offsets) tuples"
    )
    c.assumptions = [
        "ElementTree/defusedxml, repr(float)/float(str) (exact), np.tofile/fromfile float32, '%f' printing "
        "(correctly rounded, ties to even), genfromtxt, netCDF4/cftime are trusted libraries exercised by this run, "
        "not modelled byte-wise (record-level model)",
        "a finite value equal to the header's missVal (-999 in new files) reads back as missing: PI convention, "
        "hypothesis of C11_pi_roundtrip (witness C11_miss_collision_witness)",
        "PI binary files carry no time stamps: nonequidistant data cannot round-trip through the binary format "
        "(excluded by WF true; the reader then returns an empty stamp list, which the model reproduces)",
        "a first PI header without forecastDate fixes the forecast to its own start and a later, different "
        "forecastDate is rejected (order dependent; modelled, outside the property)",
        "stamps are whole seconds; variable / location / parameter ids contain no ':'",
        "Hdr.miss of the record-level model is the missVal in the storage type of the array it is compared with "
        "(float32(missVal) for binary files: numpy compares a float32 array with a Python float in float32); the harness "
        "performs that conversion for the model, the oracle of the third-party stream does not use it",
        "binary re-write of an object read from a file is exercised only for files whose series are in member order and "
        "have no series without member index (two defects of the update path of write() reported to the coordinator)",
        "ParameterConfig.set of a bool into a dblValue stores 'True', which get cannot parse: not modelled (not generated)",
    ]
    c.notes.append(
        "All theorems are about the record-level model; byte encoders are tied only by the correspondence.  "
        "float32 rounding is an abstract idempotent function in C11_binary (the harness passes numpy's conversion as a "
        "table).  Nonequidistant resize is proved for one call (C11_resize_neq_keeps_values), equidistant resize for "
        "every sequence of calls.  Corpus: F7, F26, F39, F40, F41 inputs are ordinary cases.  Translated on every run "
        "(besides Gen/PiAxis): Gen/PiRecords = every statement of pi.Timeseries.__init__ on an existing file (both "
        "passes over the series, stamps, forecast flooring and index, virtual ensemble, missVal, padding, units) proved "
        "equal to C11.read, and __add_header + write() of a new file proved equal to C11.write (ElementTree calls are "
        "table entries); Gen/PiParam = ParameterConfig.get / set proved equal to C11.pget / C11.pset; Gen/CsvCode = the "
        "format list of csv.save, the converter table and NaN filling keys of csv.load, _string_to_float, proved equal "
        "to the record-level CSV model (Model/C11Csv.lean; C11_csv_fmt, C11_csv_converters, C11_csv_cell_roundtrip).")
    from .translate_c11 import gen_csv_code, gen_pi_axis, gen_pi_param, gen_pi_records

    # + the time-axis kernels, the record-level reader / writer logic, ParameterConfig.get / set and csv.save /
    # csv.load translated from the source
    c.prove(extra=gen_pi_axis(c) + gen_pi_records(c) + gen_pi_param(c) + gen_csv_code(c))
    tmp = tempfile.mkdtemp(prefix="c11_")
    try:
        stream_roundtrip(c, c.n(120, 4000), tmp)
        stream_reader(c, c.n(160, 5000), tmp)
        W.stream_thirdparty(c, c.n(120, 3000), tmp)
        stream_resize(c, c.n(100, 3000), tmp)
        stream_ops(c, c.n(100, 3000), tmp)
        M.stream_rewrite(c, c.n(40, 1200), tmp, gen_store)
        M.stream_csv(c, c.n(80, 3000), tmp)
        M.stream_csv_handwritten(c, c.n(80, 3000), tmp)
        M.stream_netcdf(c, c.n(40, 1000), tmp)
        M.stream_param(c, c.n(80, 3000), tmp)
        M.stream_ids(c, c.n(80, 3000), tmp)
        M.corpus(c, tmp)
        W.probes(c, tmp)  # F57, F58, F59 (known): write() of an object read from a file
    finally:
        shutil.rmtree(tmp, ignore_errors=True)
