"""
C11, stream "third-party PI files": files as FEWS (or any other tool) writes them, not as rtc-tools does.

* binary: header-only XML plus a .bin of float32 samples in which a MISSING sample is stored as float32(missVal)
  (and sometimes as NaN); XML: <event value="missVal text"> for a missing sample;
* the header missVal varies per series and is often NOT exactly representable in float32 (-999.9, -999.99, -9999.9,
  0.1, …) besides the representable ones (-999, -9999, 1e10, -99.5) and NaN;
* series shorter than the global range (NaN padding), full and virtual ensembles, several series per file.

Each file is read, written to another folder with the object's own `write()` (update path of an object read from a
file) and read again.  Independent oracle (plain Python, from the generated samples only):
  "missing stays missing, values equal float32 of the originals (binary) / the originals (XML)" after the first read,
  and the second read returns the very same object (NaN pattern, values, units, stamps, forecast, ensemble structure).

Correspondence: the Lean model `C11.read` on the same records.  Wire convention (the comparison width): `Hdr.miss` is the
missVal IN THE STORAGE TYPE of the value array it is compared with — float32(missVal) for a binary file (numpy
compares a float32 array with a Python float in float32), missVal itself for XML (float64 array).  Theorems:
`C11_binary_missing_stays_missing`, witness `C11_binary_miss_width_witness` (comparing in float64 loses the sample).
"""
import math
import os
import shutil
import warnings

from . import c11_pi as P
from .c11_pi import call, xv
from .common import unfr

NAN = float("nan")
INF = float("inf")
# header missVal candidates: (value, exactly representable in float32?)
MISSES = [-999.0, -999.0, -999.9, -999.9, -999.99, -9999.9, -9999.0, -99999.9, 1e10, 0.1, -99.5, -1e30, 9.96921e36, NAN]
STEPS = [60, 900, 3600, 3600, 5400, 25200, 86400]


def isnan(x):
    return isinstance(x, float) and math.isnan(x)


def f32(x):
    import numpy as np

    with warnings.catch_warnings():
        warnings.simplefilter("ignore")
        return float(np.float32(x))


def _val(rng):
    r = rng.random()
    if r < 0.2:
        return float(rng.choice([0, 1, -1, 2, 10, -999, -1000, 999.9]))
    if r < 0.5:
        return rng.randint(-4096, 4096) / 64
    if r < 0.53:
        return rng.choice([INF, -INF])
    v = rng.uniform(-1, 1) * 10 ** rng.uniform(-4, 6)
    return round(v, rng.randint(0, 6)) if rng.random() < 0.6 else v


def gen_case(rng, ids):
    binary = rng.random() < 0.7
    neq = (not binary) and rng.random() < 0.25
    n = rng.choice([2, 3, 4, 5, 6, 8, 10])
    start = rng.choice([0, 86400 * rng.randint(0, 6000), rng.randint(0, 10 ** 8)])
    if neq:
        d = None
        T = [start]
        for _ in range(n - 1):
            T.append(T[-1] + rng.choice([60, 3600, 7200, 86400]))
    else:
        d = rng.choice(STEPS)
        T = [start + i * d for i in range(n)]
    ens = rng.choice(["none", "none", "full", "full", "virtual"])
    E = 1 if ens == "none" else rng.choice([1, 2, 3])
    fc = rng.choice([None, T[0], T[rng.randrange(n)]])
    same_miss = rng.random() < 0.5
    miss0 = rng.choice(MISSES)
    # distinct (member, variable) keys; a series without member index (virtual) occupies the variable in every member
    keys = []
    for var in rng.sample(range(len(ids.names)), len(ids.names)):
        if ens == "none":
            keys.append((None, var))
        elif ens == "full":
            for m in rng.sample(range(E), rng.randint(1, E)):
                keys.append((m, var))
        else:
            if rng.random() < 0.5:
                keys.append((None, var))
            else:
                for m in rng.sample(range(E), rng.randint(1, E)):
                    keys.append((m, var))
    if ens != "none" and not any(m == E - 1 for m, _ in keys):
        # the ensemble size is what the indices say
        free = [v for v in range(len(ids.names)) if not any(v2 == v for _, v2 in keys)]
        if free:
            keys.append((E - 1, free[0]))
        else:
            E = max([m for m, _ in keys if m is not None] + [0]) + 1
    if ens == "virtual" and not any(m is not None for m, _ in keys):
        ens, E = "none", 1
    keys = keys[: rng.randint(1, 5)] if rng.random() < 0.5 else keys
    if ens != "none":
        E = max([m for m, _ in keys if m is not None] + [-1]) + 1
        if E == 0:
            ens, E = "none", 1
    # rtc-tools writes the members in increasing order; third-party files need not: see KNOWN_ORDER below
    sorted_members = rng.random() < 0.8
    if sorted_members:
        keys.sort(key=lambda k: (-1 if k[0] is None else k[0]))
    series, full_seen = [], False
    for j, (mem, var) in enumerate(keys):
        if j == len(keys) - 1 and not full_seen:
            a, b = 0, n - 1
        else:
            a = rng.choice([0, 0, rng.randrange(n)])
            b = rng.choice([n - 1, n - 1, rng.randrange(a, n)])
        full_seen = full_seen or (a == 0 and b == n - 1)
        miss = miss0 if same_miss else rng.choice(MISSES)
        mstore = f32(miss) if binary else miss
        samples = []
        pat = rng.random()
        for k in range(b - a + 1):
            if pat < 0.1 or rng.random() < 0.3:
                samples.append(None)
            else:
                while True:
                    v = _val(rng)
                    vs = f32(v) if binary else v
                    if isnan(mstore) or vs != mstore:  # PI convention: a real value equal to missVal is missing
                        break
                samples.append(v)
        if pat > 0.9 and len(samples) > 1:
            samples[0] = samples[-1] = None  # leading / trailing gap inside the own range
        # how a missing sample is stored: the missVal, sometimes NaN
        raw = [(NAN if (isnan(miss) or rng.random() < 0.15) else miss) if s is None else s for s in samples]
        series.append({"member": mem, "var": var, "range": (a, b), "miss": miss, "samples": samples, "raw": raw,
                       "unit": rng.choice(P.UNITS)})
    if fc is None and series[0]["range"][0] != 0:
        # a first header without forecastDate fixes the forecast to its own start (order dependent, outside the
        # property, see the assumptions of C11): such files carry an explicit forecastDate here
        fc = T[0]
    return {"binary": binary, "d": d, "T": T, "ens": ens, "E": E, "fc": fc, "series": series,
            "tz": rng.choice([None, 0.0, 2.0]), "sorted_members": sorted_members}


def files_of(case, ids):
    """(file as written to disk, file as the model reads it)"""
    binary, T = case["binary"], case["T"]
    disk, model, stream = [], [], []
    for s in case["series"]:
        a, b = s["range"]
        hq = list(ids.ext[ids.names[s["var"]]][2])
        h = {"var": s["var"], "member": s["member"], "step": case["d"], "start": T[a], "stop": T[b],
             "forecast": case["fc"], "unit": s["unit"], "quals": hq}
        stored = [f32(x) if (binary and not isnan(x)) else x for x in s["raw"]]
        ev = {"evt": [] if binary else T[a:b + 1], "evs": [] if binary else [xv(x) for x in stored]}
        disk.append({"hdr": {**h, "miss": xv(s["miss"])}, **ev})
        # comparison width: the missVal in the storage type of the array it is compared with
        model.append({"hdr": {**h, "miss": xv(f32(s["miss"]) if binary and not isnan(s["miss"]) else s["miss"])}, **ev})
        stream += stored
    tz = None if case["tz"] is None else xv(case["tz"])
    b = [xv(x) for x in stream] if binary else None
    return {"tz": tz, "recs": disk, "bin": b}, {"tz": tz, "recs": model, "bin": b}


def expected_slots(case):
    """the property, from the generated samples only: member -> var -> list of float (NaN = missing)"""
    n, E, binary = len(case["T"]), case["E"], case["binary"]
    slots = [dict() for _ in range(E)]
    for s in case["series"]:
        a, b = s["range"]
        vals = [NAN] * a + [NAN if x is None else (f32(x) if binary else x) for x in s["samples"]] + [NAN] * (n - 1 - b)
        targets = [s["member"]] if s["member"] is not None else (list(range(E)) if case["ens"] != "none" else [0])
        for m in targets:
            slots[m][s["var"]] = (vals, s["unit"])
    return slots


def oracle(case, store, what):
    """None or a description of the first difference between the object read and the property"""
    if store["times"] != case["T"] or store["start"] != case["T"][0] or store["stop"] != case["T"][-1]:
        return what + ": global time range"
    exp = expected_slots(case)
    if store["ensSize"] != len(exp) or len(store["slots"]) != len(exp):
        return what + ": ensemble size"
    for m, sl in enumerate(store["slots"]):
        got = {e["var"]: e for e in sl}
        if set(got) != set(exp[m]):
            return what + ": variables of member %d" % m
        for var, (vals, unit) in exp[m].items():
            g = [float(unfr(x)) for x in got[var]["vals"]]
            if got[var]["unit"] != unit:
                return what + ": unit"
            if len(g) != len(vals):
                return what + ": length"
            for p, q in zip(vals, g):
                if isnan(p) and not isnan(q):
                    return what + ": a missing sample (stored as the header's missVal) came back as the number %r" % q
                if not isnan(p) and isnan(q):
                    return what + ": a value became missing"
                if not isnan(p) and p != q:
                    return what + ": value"
    return None


def stream_thirdparty(c, N, tmp):
    import rtctools.data.pi as pi
    import rtctools.data.rtc as rtc

    rng = c.rng
    cases, lines = [], []
    for i in range(N):
        ids = P.gen_ids(rng)
        case = gen_case(rng, ids)
        binary = case["binary"]
        disk, model = files_of(case, ids)
        d = os.path.join(tmp, "tp%d" % i)
        d2 = os.path.join(d, "out")
        os.makedirs(d2)
        with open(os.path.join(d, "rtcDataConfig.xml"), "w") as fh:
            fh.write(ids.config_xml())
        P.write_file(d, "ts", disk, ids)

        # KNOWN_ORDER: write() of an object read from a file emits the binary stream member by member while the reader
        # consumes it in the order of the <series> elements, and a series without member index is written once per
        # member: binary re-writes are only exercised for files whose series are in member order without virtual series
        # (both are genuine defects of the unchanged code, reported to the coordinator; minimal inputs: series
        # (A, member 1), (A, member 0) in this order; series A without index next to B of members 0 and 1)
        # Third defect of the same path (XML): a padded series without member index gets its appended <event>s once per
        # member (ET.Element('pi:event') is not found by findall('pi:event', ns) in the next member's pass); invisible
        # for equidistant files (surplus events are ignored), but a nonequidistant re-read takes its stamps from the
        # longest event list: nonequidistant files with such a series are not re-written here either.
        virt = case["ens"] != "none" and any(s["member"] is None for s in case["series"])
        if binary:
            rewrite = case["ens"] == "none" or (case["sorted_members"] and not virt)
        else:
            rewrite = not (virt and case["d"] is None)

        def real():
            dc = rtc.DataConfig(d)
            with warnings.catch_warnings():
                warnings.simplefilter("ignore")
                r = pi.Timeseries(dc, d, "ts", binary=binary)
                first = P.real_to_store(r, ids)
                second = None
                if rewrite:
                    r.write(output_folder=d2, output_filename="ts")
                    second = P.real_to_store(pi.Timeseries(dc, d2, "ts", binary=binary), ids)
            return first, second

        res = call(real)
        shutil.rmtree(d, ignore_errors=True)
        rep = {"stream": "third-party pi file", "binary": binary, "names": ids.names, "file": disk, "rewrite": rewrite,
               "missVals": sorted({repr(s["miss"]) for s in case["series"]}), "ens": case["ens"], "E": case["E"]}
        kinds = set()
        for s in case["series"]:
            kinds.add("nan" if isnan(s["miss"]) else "exact" if f32(s["miss"]) == s["miss"] else "inexact")
        c.count(("tp", binary, case["d"] is None, case["ens"], case["E"], len(case["series"]), tuple(sorted(kinds)),
                 tuple(s["range"] for s in case["series"]), tuple(sum(x is None for x in s["samples"]) for s in case["series"])))
        c.hit("third-party/" + ("binary" if binary else "xml"))
        for k in kinds:
            c.hit("third-party/missVal " + k + (" (float32)" if binary else ""))
        c.hit("third-party/ens-" + case["ens"])
        if any(s["range"] != (0, len(case["T"]) - 1) for s in case["series"]):
            c.hit("third-party/padded series")
        c.sample(rep, limit=2)
        cases.append((rep, res, case))
        lines.append({"op": "pi_read", "binary": binary, "file": model})
    outs = c.model(lines)
    for k, (rep, res, case) in enumerate(cases):
        if res[0] == "raise":
            c.fail("reading / re-writing a well-formed third-party PI file raised " + res[1], rep)
            continue
        first, second = res[1]
        bad = oracle(case, first, "read")
        if bad is None and second is not None:
            bad = oracle(case, second, "read -> write -> read")
            if bad is None and P.canon_store(first) != P.canon_store(second):
                bad = "read -> write -> read: the second read differs from the first"
        if bad:
            c.fail("PI third-party file: " + bad, rep, {"first": first, "second": second})
        if outs is None:
            continue
        mo = outs[k]
        if mo == "raise":
            c.disagree("pi read (third-party) raise/value", rep, mo, first)
        elif P.canon_store(mo) != P.canon_store(first):
            c.disagree("pi read (third-party)", rep, mo, first)


# ---------------------------------------------------------------------------------------------
# dedicated probes of the listed known findings of write() on an object read from a file (F57, F58, F59);
# these input classes are kept out of the re-write step of the main stream above


def probes(c, tmp):
    import rtctools.data.pi as pi
    import rtctools.data.rtc as rtc

    ids = P.Ids(["A", "B"], {"A": ("L", "PA", []), "B": ("L", "PB", [])})
    H = 3600

    def hdr(var, mem, step, start, stop):
        return {"var": var, "member": mem, "step": step, "start": start, "stop": stop, "forecast": None,
                "miss": xv(-999.0), "unit": "m"}

    def roundtrip(name, f, binary):
        d = os.path.join(tmp, name)
        d2 = os.path.join(d, "out")
        os.makedirs(d2)
        with open(os.path.join(d, "rtcDataConfig.xml"), "w") as fh:
            fh.write(ids.config_xml())
        P.write_file(d, "ts", f, ids)

        def real():
            dc = rtc.DataConfig(d)
            with warnings.catch_warnings():
                warnings.simplefilter("ignore")
                r = pi.Timeseries(dc, d, "ts", binary=binary)
                first = P.real_to_store(r, ids)
                r.write(output_folder=d2, output_filename="ts")
                second = P.real_to_store(pi.Timeseries(dc, d2, "ts", binary=binary), ids)
            return first, second

        res = call(real)
        shutil.rmtree(d, ignore_errors=True)
        c.count(("probe", name))
        return res

    def show(st):
        return {"times": st["times"],
                "slots": [{e["var"]: [float(unfr(x)) for x in e["vals"]] for e in sl} for sl in st["slots"]]}

    def judge(fid, res, what):
        if res[0] == "raise":
            c.known_probe(fid, True, what + ": raised " + res[1])
            return
        first, second = res[1]
        same = P.canon_store(first) == P.canon_store(second)
        c.known_probe(fid, not same, "%s: first read %s, after write() and re-read %s" % (what, show(first), show(second)))

    T3 = [0, H, 2 * H]
    # F57: binary, series not in increasing member order
    f = {"tz": None, "recs": [{"hdr": hdr(0, 1, H, 0, 2 * H), "evt": [], "evs": []},
                              {"hdr": hdr(0, 0, H, 0, 2 * H), "evt": [], "evs": []}],
         "bin": [xv(x) for x in (1.0, 2.0, 3.0, 10.0, 20.0, 30.0)]}
    judge("F57", roundtrip("f57", f, True), "binary PI file with series (A, member 1), (A, member 0)")
    # F58: binary ensemble file with a series without ensembleMemberIndex
    f = {"tz": None, "recs": [{"hdr": hdr(0, None, H, 0, 2 * H), "evt": [], "evs": []},
                              {"hdr": hdr(1, 0, H, 0, 2 * H), "evt": [], "evs": []},
                              {"hdr": hdr(1, 1, H, 0, 2 * H), "evt": [], "evs": []}],
         "bin": [xv(float(x)) for x in (1, 2, 3, 10, 20, 30, 40, 50, 60)]}
    judge("F58", roundtrip("f58", f, True), "binary PI ensemble file with A without member index, B in members 0 and 1")
    # F59: nonequidistant XML ensemble (E = 3) with a padded series without ensembleMemberIndex
    TN = [0, H, 3 * H]
    f = {"tz": None, "bin": None,
         "recs": [{"hdr": hdr(0, None, None, TN[2], TN[2]), "evt": TN[2:], "evs": [xv(7.0)]}]
         + [{"hdr": hdr(1, m, None, TN[0], TN[2]), "evt": TN, "evs": [xv(1.0 + m), xv(2.0), xv(3.0)]} for m in range(3)]}
    judge("F59", roundtrip("f59", f, False),
          "nonequidistant XML PI ensemble (3 members) with a padded series A without member index")
