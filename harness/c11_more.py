"""
C11, further streams: csv.save/load, netcdf Export->Import, pi.ParameterConfig, rtc.DataConfig,
re-writing a PI object that was read from a file, and the dedicated probes of known findings.
"""
import datetime
import math
import os
import shutil
import warnings
from fractions import Fraction

import numpy as np

from . import c11_pi as P
from .c11_pi import call, dtm, sec, xv
from .common import fr, unfr

NAN = float("nan")
INF = float("inf")


def isnan(x):
    return isinstance(x, float) and math.isnan(x)


# ---------------------------------------------------------------------------------------------
# CSV


def gen_csv_val(rng):
    r = rng.random()
    if r < 0.12:
        return NAN
    if r < 0.2:
        return rng.choice([INF, -INF]) if rng.random() < 0.3 else float(rng.choice([0, 1, -1, 12]))
    if r < 0.35:  # exact ties of the sixth decimal: odd multiples of 1/128
        return (2 * rng.randint(-2000, 2000) + 1) / 128
    if r < 0.5:
        return rng.randint(-4096, 4096) / 64
    if r < 0.6:
        return rng.uniform(-1, 1) * 1e-6  # below the printing resolution
    mag = 10 ** rng.uniform(-5, 12)
    return rng.uniform(-1, 1) * mag


def stream_csv(c, N, tmp):
    import rtctools.data.csv as csv

    rng = c.rng
    cases, lines = [], []
    for i in range(N):
        delim = rng.choice([",", ";"])
        comma = delim == ";" and rng.random() < 0.6
        with_time = rng.random() < 0.7
        ncol = rng.randint(1, 4)
        names = rng.sample(["a", "b_c", "Q.x", "H", "x1", "storage.V", "u"], ncol)
        n = rng.choice([1, 2, 3, 5, 8])
        cols = {nm: [gen_csv_val(rng) for _ in range(n)] for nm in names}
        if comma and not any(not isnan(v) and not math.isinf(v) for vs in cols.values() for v in vs):
            cols[names[0]][0] = 2.5  # the decimal comma is detected from the data
        if rng.random() < 0.1:
            cols[names[-1]] = [NAN] * n
        start = rng.choice([0, 86400 * rng.randint(0, 6000), rng.randint(0, 10 ** 8)])
        step = rng.choice([1, 60, 3600, 25200, 86400])
        times = [start + k * step for k in range(n)]
        fn = os.path.join(tmp, "c%d.csv" % i)

        def real():
            allnames = (["time"] if with_time else []) + names
            formats = (["O"] if with_time else []) + ["f8"] * ncol
            data = np.zeros(n, dtype={"names": allnames, "formats": formats})
            if with_time:
                data["time"] = [dtm(t) for t in times]
            for nm in names:
                data[nm] = cols[nm]
            csv.save(fn, data, delimiter=delim, with_time=with_time)
            if comma:  # a file as written by a tool that uses the decimal comma
                txt = open(fn).read().split("\n")
                txt = [txt[0]] + [ln.replace(".", ",") for ln in txt[1:]]
                with open(fn, "w") as fh:
                    fh.write("\n".join(txt))
            with warnings.catch_warnings():
                warnings.simplefilter("ignore")
                r = csv.load(fn, delimiter=delim, with_time=with_time)
            r = np.atleast_1d(r)
            out = {nm: [float(x) for x in r[nm]] for nm in names}
            ts = [sec(t) for t in r[r.dtype.names[0]]] if with_time else None
            return list(r.dtype.names), ts, out

        res = call(real)
        try:
            os.remove(fn)
        except OSError:
            pass
        case = {"stream": "csv", "delimiter": delim, "decimal_comma": comma, "with_time": with_time,
                "names": names, "times": times, "cols": cols}
        flat = [v for nm in names for v in cols[nm] if not isnan(v) and not math.isinf(v)]
        cases.append((case, res, flat))
        lines.append({"op": "round6", "xs": [fr(v) for v in flat]})
        c.count(("csv", delim, comma, with_time, ncol, n, tuple(sorted(set(
            "nan" if isnan(v) else "inf" if math.isinf(v) else "tie" if (v * 128) % 2 == 1 else "fin"
            for vs in cols.values() for v in vs)))))
        c.hit("csv/" + ("semicolon+comma" if comma else "semicolon" if delim == ";" else "comma"))
        c.sample(case, limit=2)
    outs = c.model(lines)
    for k, (case, res, flat) in enumerate(cases):
        names, cols = case["names"], case["cols"]
        if res[0] == "raise":
            c.fail("csv save/load raised " + res[1], case)
            continue
        rnames, ts, out = res[1]
        if rnames != (["time"] if case["with_time"] else []) + names:
            c.fail("csv round trip changes the column names", case, rnames)
        if case["with_time"] and ts != case["times"]:
            c.fail("csv round trip changes the time stamps", case, ts)
        got_flat = []
        for nm in names:
            if len(out[nm]) != len(cols[nm]):
                c.fail("csv round trip changes the number of rows", case, out)
                break
            for x, y in zip(cols[nm], out[nm]):
                if isnan(x) or math.isinf(x):
                    if not (isnan(x) and isnan(y)) and x != y:
                        c.fail("csv round trip: missing/infinite value not kept", case, {"in": x, "out": y})
                else:
                    got_flat.append(y)
                    # the property: six-decimal text precision
                    if isnan(y) or abs(Fraction(y) - Fraction(x)) > Fraction(1, 2000000) + Fraction(abs(x)) * Fraction(1, 2 ** 52):
                        c.fail("csv round trip error exceeds half a unit of the sixth decimal", case, {"in": x, "out": y})
        if outs is None or len(got_flat) != len(flat):
            continue
        for x, m, y in zip(flat, outs[k], got_flat):
            if float(unfr(m)) != y:
                c.disagree("csv print/parse vs round6", case, {"x": x, "model": m}, y)
                break


def stream_csv_handwritten(c, N, tmp):
    """files as other tools write them: full float text, EMPTY cells for missing values (single cells, partly
    empty and all-empty columns) in all three dialects, with and without the time column"""
    import rtctools.data.csv as csv

    rng = c.rng
    for i in range(N):
        dialect = rng.choice(["comma", "semicolon", "semicolon+comma"])
        delim = "," if dialect == "comma" else ";"
        with_time = rng.random() < 0.6
        ncol = rng.randint(1 if with_time else 2, 4)
        names = rng.sample(["a", "b_c", "Q.x", "H", "x1", "storage.V", "u"], ncol)
        n = rng.choice([1, 2, 3, 4, 6])
        cols, modes = {}, {}
        for nm in names:
            mode = rng.choice(["full", "single", "partly", "all-empty"])
            vals = [rng.choice([rng.uniform(-1e4, 1e4), rng.randint(-64, 64) / 16, 0.5, 1e-5 * rng.random(), 12.0])
                    for _ in range(n)]
            if mode == "single":
                vals[rng.randrange(n)] = None
            elif mode == "partly":
                vals = [None if rng.random() < 0.5 else v for v in vals]
            elif mode == "all-empty":
                vals = [None] * n
            cols[nm], modes[nm] = vals, mode
        if not with_time:  # a line of delimiters only is still a row; keep it that way
            pass
        start = rng.choice([0, 86400 * rng.randint(0, 6000), rng.randint(0, 10 ** 8)])
        step = rng.choice([60, 3600, 25200, 86400])
        times = [start + k * step for k in range(n)]

        def cell(v):
            if v is None:
                return ""
            t = repr(float(v))
            return t.replace(".", ",") if dialect == "semicolon+comma" else t

        rows = [delim.join((["time"] if with_time else []) + names)]
        for k in range(n):
            rows.append(delim.join(([dtm(times[k]).strftime("%Y-%m-%d %H:%M:%S")] if with_time else [])
                                   + [cell(cols[nm][k]) for nm in names]))
        fn = os.path.join(tmp, "h%d.csv" % i)
        with open(fn, "w") as fh:
            fh.write("\n".join(rows) + "\n")

        def real():
            with warnings.catch_warnings():
                warnings.simplefilter("ignore")
                r = np.atleast_1d(csv.load(fn, delimiter=delim, with_time=with_time))
            return (list(r.dtype.names), [sec(t) for t in r[r.dtype.names[0]]] if with_time else None,
                    {nm: [float(x) for x in r[nm]] for nm in r.dtype.names[(1 if with_time else 0):]})

        res = call(real)
        try:
            os.remove(fn)
        except OSError:
            pass
        case = {"stream": "csv hand-written", "dialect": dialect, "with_time": with_time, "text": "\n".join(rows)}
        c.count(("csvh", dialect, with_time, n, tuple(sorted(modes.values()))))
        c.hit("csv-handwritten/" + dialect + (" +time" if with_time else ""))
        for md in set(modes.values()):
            c.hit("csv-handwritten/column " + md)
        c.sample(case, limit=1)
        if res[0] == "raise":
            c.fail("csv.load of a well-formed hand-written file raised " + res[1], case)
            continue
        rnames, ts, out = res[1]
        if rnames != (["time"] if with_time else []) + names or (with_time and ts != times):
            c.fail("csv.load changes the column names / time stamps", case, {"names": rnames, "times": ts})
            continue
        for nm in names:
            exp = [NAN if v is None else float(v) for v in cols[nm]]
            got = out[nm]
            if len(got) != len(exp) or any((isnan(a) != isnan(b)) or (not isnan(a) and a != b) for a, b in zip(exp, got)):
                c.fail("csv.load: an empty cell is not read back as NaN / a value is changed (%s column)" % modes[nm],
                       case, {"column": nm, "expected": exp, "got": got})
                break


# ---------------------------------------------------------------------------------------------
# NetCDF


class _NoStations:
    attribute_variables = {}
    attributes = {}


def stream_netcdf(c, N, tmp):
    import rtctools.data.netcdf as nc

    rng = c.rng
    cases, lines = [], []
    for i in range(N):
        n = rng.choice([1, 2, 3, 5, 9, 30])
        step = rng.choice([60, 3600, 25200, 86400])
        neg = rng.choice([0, 0, 1, 2, n - 1])
        neg = min(neg, n - 1)
        times = [(k - neg) * step for k in range(n)]
        if rng.random() < 0.25:
            times = sorted(set(times + [times[-1] + 17, times[-1] + 5000]))
            n = len(times)
        fd = rng.choice([0, 86400 * rng.randint(0, 6000), rng.randint(0, 10 ** 8)]) + 10 ** 8
        ft = rng.choice([0, 0, 3600, -7200, times[len(times) // 2]])
        E = rng.choice([1, 1, 2, 3])
        stations = rng.sample(["st1", "Loc_B", "x", "reservoir.long.name"], rng.randint(1, 3))
        pars = rng.sample(["H", "Q_in", "v"], rng.randint(1, 2))
        vals = {(s, p, m): [rng.choice([NAN, rng.uniform(-1e6, 1e6), 0.0, rng.randint(-9, 9) / 8]) for _ in range(n)]
                for s in stations for p in pars for m in range(E)}
        written = {k: v for k, v in vals.items() if rng.random() < 0.85}

        def real():
            e = nc.ExportDataset(tmp, "n%d" % i)
            e.write_times(np.array(times, dtype=float), float(ft), dtm(fd))
            e.write_station_data(_NoStations, stations)
            e.write_ensemble_data(E)
            e.create_variables(pars, E)
            for (s, p, m), v in written.items():
                e.write_output_values(s, p, m, np.array(v), E)
            e.close()
            d = nc.ImportDataset(tmp, "n%d" % i)
            st = list(d.read_station_data().station_ids)
            out = {}
            for p in d.find_timeseries_variables():
                for si, s in enumerate(st):
                    for m in range(d.ensemble_size):
                        out[(s, p, m)] = [float(x) for x in d.read_timeseries_values(si, p, m)]
            return [sec(t) for t in d.read_import_times()], d.ensemble_size, st, out

        res = call(real)
        try:
            os.remove(os.path.join(tmp, "n%d.nc" % i))
        except OSError:
            pass
        case = {"stream": "netcdf", "times": times, "forecast_date": fd, "forecast_time": ft, "E": E, "stations": stations, "pars": pars,
                "values": {"/".join(map(str, k)): v for k, v in written.items()}}
        cases.append((case, res, written))
        lines.append({"op": "nc_times", "times": times, "ft": ft, "fd": fd})
        c.count(("nc", n, neg, E, len(stations), len(pars), len(written)))
        c.hit("netcdf/E=%d" % E)
        c.hit("netcdf/" + ("negative times" if neg else "from t0") + ("" if ft == 0 else ", forecast time != 0"))
        c.sample(case, limit=2)
    outs = c.model(lines)
    for k, (case, res, written) in enumerate(cases):
        if res[0] == "raise":
            c.fail("netcdf export/import raised " + res[1], case)
            continue
        ts, E, st, out = res[1]
        exp_ts = [case["forecast_date"] + t - case["forecast_time"] for t in case["times"]]
        if ts != exp_ts:
            c.fail("netcdf round trip changes the time stamps", case, ts)
        if E != case["E"] or st != case["stations"]:
            c.fail("netcdf round trip changes the ensemble size / stations", case, {"E": E, "stations": st})
        for s in case["stations"]:
            for p in case["pars"]:
                for m in range(case["E"]):
                    exp = written.get((s, p, m), [NAN] * len(case["times"]))
                    got = out.get((s, p, m))
                    if got is None or len(got) != len(exp) or any(
                            (isnan(a) != isnan(b)) or (not isnan(a) and a != b) for a, b in zip(exp, got)):
                        c.fail("netcdf round trip changes the values", case, {"key": [s, p, m], "got": got})
        if outs is not None:
            mo = outs[k]
            if mo == "raise" or mo["read"] != ts:
                c.disagree("netcdf time axis", case, mo, ts)


# ---------------------------------------------------------------------------------------------
# ParameterConfig

GROUPS = ["g0", "grp", "numerical"]
PLOCS = ["L1", "L2"]
PMODELS = ["M", "N"]
PNAMES = ["p", "q", "theta", "n_steps"]


def pconf_xml(conf):
    out = ['<pi:parameters xmlns:pi="http://www.wldelft.nl/fews/PI" version="1.5">']
    for g in conf:
        out.append('<pi:group id="%s" name="x">' % GROUPS[g["id"]])
        if g["loc"] is not None:
            out.append("<pi:locationId>%s</pi:locationId>" % PLOCS[g["loc"]])
        if g["model"] is not None:
            out.append("<pi:model>%s</pi:model>" % PMODELS[g["model"]])
        for p in g["pars"]:
            v = p["v"]
            tag = {"bool": "boolValue", "int": "intValue", "dbl": "dblValue", "str": "stringValue"}[v["t"]]
            if v["t"] == "bool":
                txt = "true" if v["v"] else "false"
            elif v["t"] == "dbl":
                txt = repr(float(unfr(v["v"])))
            else:
                txt = str(v["v"])
            out.append('<pi:parameter id="%s"><pi:%s>%s</pi:%s></pi:parameter>' % (PNAMES[p["k"]], tag, txt, tag))
        out.append("</pi:group>")
    out.append("</pi:parameters>")
    return "\n".join(out)


def gen_pval(rng):
    t = rng.choice(["bool", "int", "dbl", "dbl", "str"])
    if t == "bool":
        return {"t": t, "v": rng.random() < 0.5}
    if t == "int":
        return {"t": t, "v": rng.randint(-50, 50)}
    if t == "dbl":
        return {"t": t, "v": fr(float(rng.choice([0.0, 1.0, rng.uniform(-1e5, 1e5), rng.randint(-64, 64) / 16, 1e-12])))}
    return {"t": t, "v": rng.choice(["abc", "x y", "7"])}


def gen_parg(rng):
    t = rng.choice(["bool", "int", "dbl", "dbl"])
    if t == "bool":
        return {"t": t, "v": rng.random() < 0.5}
    if t == "int":
        return {"t": t, "v": rng.randint(-50, 50)}
    return {"t": t, "v": fr(float(rng.choice([0.0, 2.5, -2.5, rng.uniform(-1e5, 1e5), rng.randint(-64, 64) / 16, 1e-12, 7.0])))}


def obs_pval(v):
    if isinstance(v, bool):
        return {"t": "bool", "v": v}
    if isinstance(v, int):
        return {"t": "int", "v": v}
    if isinstance(v, float):
        return {"t": "dbl", "v": fr(v)}
    return {"t": "str", "v": v}


def same_pval(a, b):
    if a == "raise" or b == "raise":
        return a == b
    if a["t"] != b["t"]:
        return False
    if a["t"] == "dbl":
        x, y = unfr(a["v"]), unfr(b["v"])
        return (isnan(x) and isnan(y)) or x == y
    return a["v"] == b["v"]


def stream_param(c, N, tmp):
    import rtctools.data.pi as pi

    rng = c.rng
    cases, lines = [], []
    for i in range(N):
        conf = []
        for _ in range(rng.randint(1, 4)):
            ks = rng.sample(range(len(PNAMES)), rng.randint(1, 3))
            conf.append({"id": rng.randrange(len(GROUPS)), "loc": rng.choice([None, 0, 1]), "model": rng.choice([None, None, 0, 1]),
                         "pars": [{"k": k, "v": gen_pval(rng)} for k in ks]})
        ops = []
        for _ in range(rng.randint(2, 7)):
            g = rng.choice(conf)
            o = {"op": rng.choice(["get", "set", "set", "reload"]), "g": g["id"] if rng.random() < 0.9 else rng.randrange(len(GROUPS)),
                 "p": rng.choice(g["pars"])["k"] if rng.random() < 0.85 else rng.randrange(len(PNAMES)),
                 "loc": rng.choice([None, g["loc"], 0, 1]), "model": rng.choice([None, g["model"], 0])}
            if o["op"] == "set":
                o["a"] = gen_parg(rng)
                old = [p["v"] for gg in conf for p in gg["pars"] if p["k"] == o["p"] and p["v"]["t"] == "dbl"]
                if old and o["a"]["t"] == "bool":
                    o["a"] = {"t": "int", "v": 1}  # str(True) in a dblValue is unreadable later: not modelled
            ops.append(o)
        d = os.path.join(tmp, "pc%d" % i)
        os.makedirs(d)
        with open(os.path.join(d, "cfg.xml"), "w") as fh:
            fh.write(pconf_xml(conf))

        def real():
            pc = pi.ParameterConfig(d, "cfg")
            out = []
            for o in ops:
                kw = dict(location_id=None if o["loc"] is None else PLOCS[o["loc"]],
                          model=None if o["model"] is None else PMODELS[o["model"]])
                if o["op"] == "get":
                    r = call(pc.get, GROUPS[o["g"]], PNAMES[o["p"]], **kw)
                    out.append("raise" if r[0] == "raise" else obs_pval(r[1]))
                elif o["op"] == "set":
                    a = o["a"]
                    val = a["v"] if a["t"] != "dbl" else float(unfr(a["v"]))
                    r = call(pc.set, GROUPS[o["g"]], PNAMES[o["p"]], val, **kw)
                    out.append("raise" if r[0] == "raise" else "ok")
                else:  # write and read again
                    pc.write()
                    pc = pi.ParameterConfig(d, "cfg")
                    out.append("reloaded")
            final = []
            for (loc, model, par, val) in pc:
                final.append((loc, model, par, obs_pval(val)))
            return out, final

        res = call(real)
        shutil.rmtree(d, ignore_errors=True)
        case = {"stream": "ParameterConfig", "conf": conf, "ops": ops}
        cases.append((case, res))
        lines.append({"op": "param", "conf": conf, "ops": [o for o in ops if o["op"] != "reload"]})
        c.count(("pc", len(conf), tuple((o["op"], o.get("a", {}).get("t")) for o in ops)))
        c.hit("param/ops", len(ops))
        c.sample(case, limit=2)
    outs = c.model(lines)
    for k, (case, res) in enumerate(cases):
        if res[0] == "raise":
            c.fail("ParameterConfig sequence raised " + res[1], case)
            continue
        out, final = res[1]
        ops = case["ops"]
        # oracle: a successful typed set is what the next get (also after write/read) returns
        last = {}
        for o, r in zip(ops, out):
            key = (o["g"], o["p"], o["loc"], o["model"])
            if o["op"] == "set" and r == "ok":
                last = {kk: vv for kk, vv in last.items() if (kk[0], kk[1]) != (o["g"], o["p"])}
                last[key] = o["a"]
            elif o["op"] == "get" and key in last and r != "raise":
                a = last[key]
                av = a["v"] if a["t"] != "dbl" else unfr(a["v"])
                if r["t"] == "bool":
                    ok = a["t"] == "bool" and r["v"] == av
                elif r["t"] == "int":
                    ok = r["v"] == int(av)
                elif r["t"] == "dbl":
                    ok = unfr(r["v"]) == av
                else:
                    ok = True
                if not ok:
                    c.fail("ParameterConfig: get does not return the typed value that was set", case, {"set": a, "get": r})
        if outs is None:
            continue
        mo = outs[k]
        mres = [x if isinstance(x, str) else x for x in mo["results"]]
        ires = [x for x in out if x != "reloaded"]
        if len(mres) != len(ires) or not all(
                (a == b) if isinstance(a, str) or isinstance(b, str) else same_pval(a, b) for a, b in zip(mres, ires)):
            c.disagree("ParameterConfig get/set results", case, mres, ires)
            continue
        mfinal = [(None if g["loc"] is None else PLOCS[g["loc"]], None if g["model"] is None else PMODELS[g["model"]],
                   PNAMES[p["k"]], p["v"]) for g in mo["conf"] for p in g["pars"]]
        if len(mfinal) != len(final) or not all(
                a[:3] == b[:3] and same_pval(a[3], b[3]) for a, b in zip(mfinal, final)):
            c.disagree("ParameterConfig contents after the sequence", case, mfinal, final)


# ---------------------------------------------------------------------------------------------
# DataConfig id mapping


def stream_ids(c, N, tmp):
    import rtctools.data.rtc as rtc

    rng = c.rng
    cases, lines = [], []
    for i in range(N):
        n = rng.randint(1, 5)
        ents = []
        for j in range(n):
            ents.append({"id": rng.randrange(6) if rng.random() < 0.15 else 10 + j,
                         "ext": {"loc": rng.randrange(2), "par": rng.randrange(3),
                                 "quals": rng.sample(range(4), rng.choice([0, 0, 1, 2, 3]))}})
        if n > 1 and rng.random() < 0.15:  # same external id up to the order of the qualifiers
            ents[-1]["ext"] = {**ents[0]["ext"], "quals": list(reversed(ents[0]["ext"]["quals"]))}
        ents = [{**e, "ext": {**e["ext"], "quals": list(e["ext"]["quals"])}} for e in ents]
        heads = [{**e["ext"], "quals": list(e["ext"]["quals"])} for e in ents]
        for h in heads:
            rng.shuffle(h["quals"])
        heads.append({"loc": 1, "par": 2, "quals": [0, 3]})
        d = os.path.join(tmp, "dc%d" % i)
        os.makedirs(d)
        xml = ['<rtcDataConfig xmlns="http://www.wldelft.nl/fews">']
        for e in ents:
            x = e["ext"]
            xml.append('<timeSeries id="v%d"><PITimeSeries><locationId>L%d</locationId><parameterId>P%d</parameterId>%s'
                       "</PITimeSeries></timeSeries>" % (e["id"], x["loc"], x["par"],
                                                         "".join("<qualifierId>q%d</qualifierId>" % q for q in x["quals"])))
        xml.append("</rtcDataConfig>")
        with open(os.path.join(d, "rtcDataConfig.xml"), "w") as fh:
            fh.write("\n".join(xml))

        def real():
            import xml.etree.ElementTree as ET
            dc = rtc.DataConfig(d)
            var = []
            for h in heads:
                el = ET.Element("header")
                ET.SubElement(el, "{http://www.wldelft.nl/fews/PI}locationId").text = "L%d" % h["loc"]
                ET.SubElement(el, "{http://www.wldelft.nl/fews/PI}parameterId").text = "P%d" % h["par"]
                for q in h["quals"]:
                    ET.SubElement(el, "{http://www.wldelft.nl/fews/PI}qualifierId").text = "q%d" % q
                v = dc.variable(el)
                var.append(int(v[1:]) if v.startswith("v") else None)
            ids = []
            for e in ents:
                t = dc.pi_variable_ids("v%d" % e["id"])
                ids.append({"loc": int(t.location_id[1:]), "par": int(t.parameter_id[1:]),
                            "quals": [int(q[1:]) for q in t.qualifier_id]})
            return var, ids

        res = call(real)
        shutil.rmtree(d, ignore_errors=True)
        case = {"stream": "DataConfig", "entries": ents, "headers": heads}
        cases.append((case, res))
        lines.append({"op": "ids", "conf": ents, "headers": heads, "vars": [e["id"] for e in ents]})
        c.count(("dc", n, res[0], tuple(len(e["ext"]["quals"]) for e in ents)))
        c.hit("ids/" + res[0])
    outs = c.model(lines)
    for k, (case, res) in enumerate(cases):
        ents = case["entries"]
        if res[0] == "ok":
            var, ids = res[1]
            # oracle: the mapping is one-to-one both ways (qualifier order irrelevant for the lookup)
            for e, v, t in zip(ents, var, ids):
                if v != e["id"] or t != e["ext"]:
                    c.fail("DataConfig id mapping does not round-trip", case, {"variable": var, "ids": ids})
                    break
        if outs is None:
            continue
        mo = outs[k]
        if (res[0] == "ok") != mo["valid"]:
            c.disagree("DataConfig accept/reject", case, mo["valid"], res)
        elif res[0] == "ok":
            if mo["variable"] != res[1][0] or mo["ids"] != res[1][1]:
                c.disagree("DataConfig lookups", case, mo, res[1])


# ---------------------------------------------------------------------------------------------
# re-writing an object that was read from a file (the update path of `write`)


def stream_rewrite(c, N, tmp, gen_store):
    import rtctools.data.pi as pi
    import rtctools.data.rtc as rtc

    rng = c.rng
    for i in range(N):
        ids = P.gen_ids(rng, 3)
        binary = rng.random() < 0.3
        st = gen_store(rng, ids, binary)
        if binary and st["dt"] is None:
            continue
        d = os.path.join(tmp, "rw%d" % i)
        os.makedirs(d)
        with open(os.path.join(d, "rtcDataConfig.xml"), "w") as fh:
            fh.write(ids.config_xml())
        case = {"stream": "pi read->set->write->read", "binary": binary, "names": ids.names, "store": st}

        def real():
            dc = rtc.DataConfig(d)
            with warnings.catch_warnings():
                warnings.simplefilter("ignore")
                P.build_real(pi, dc, d, "ts", st, ids, binary).write()
                r = pi.Timeseries(dc, d, "ts", binary=binary)
                first = P.real_to_store(r, ids)
                # change one series and one unit, then write the *read* object and read again
                m = rng.randrange(len(st["slots"]))
                changed = None
                if st["slots"][m]:
                    e = rng.choice(st["slots"][m])
                    new = [float(rng.randint(-50, 50)) if rng.random() < 0.8 else NAN for _ in e["vals"]]
                    r.set(ids.names[e["var"]], np.array(new), unit="changed", ensemble_member=m)
                    changed = (m, e["var"], new)
                r.write()
                r2 = pi.Timeseries(dc, d, "ts", binary=binary)
                return first, changed, P.real_to_store(r2, ids)

        res = call(real)
        shutil.rmtree(d, ignore_errors=True)
        c.count(("rw", binary, st["dt"] is None, st["ensSize"], len(st["times"])))
        c.hit("rewrite/" + ("binary" if binary else "xml"))
        if res[0] == "raise":
            c.fail("re-writing a PI object read from a file raised " + res[1], case)
            continue
        first, changed, second = res[1]
        exp = {**first, "slots": [[dict(e) for e in sl] for sl in first["slots"]]}
        if changed:
            m, var, new = changed
            for e in exp["slots"][m]:
                if e["var"] == var:
                    e["vals"] = [xv(x) for x in new]
                    e["unit"] = "changed"
        if P.canon_store(exp) != P.canon_store(second):
            c.fail("read -> set -> write -> read does not give the object that was written", case,
                   {"expected": exp, "got": second})


# ---------------------------------------------------------------------------------------------
# corpus: the inputs of repaired findings, checked as ordinary cases


def corpus(c, tmp):
    import rtctools.data.netcdf as nc
    import rtctools.data.pi as pi
    import rtctools.data.rtc as rtc

    ids = P.Ids(["a"], {"a": ("L", "P", [])})
    d = os.path.join(tmp, "corpus")
    os.makedirs(d)
    with open(os.path.join(d, "rtcDataConfig.xml"), "w") as fh:
        fh.write(ids.config_xml())
    dc = rtc.DataConfig(d)
    H = 3600
    # F26 (fixed f5e4157): equidistant resize to a window starting more than one step after the old end
    st = {"dt": H, "start": 0, "stop": 4 * H, "times": [k * H for k in range(5)], "forecast": 0, "fcIndex": 0, "tz": None,
          "containsEns": False, "ensSize": 1, "slots": [[{"var": 0, "unit": "m", "vals": [xv(10.0 + k) for k in range(5)]}]]}
    ts = P.build_real(pi, dc, d, "ts", st, ids, False)
    ts.resize(dtm(7 * H), dtm(11 * H))
    c.count(("corpus", "F26"))
    if len(ts.get("a")) != 5 or not all(isnan(float(x)) for x in ts.get("a")):
        c.fail("pi resize: stamps 0..4 h resized to the window 7..11 h must give 5 missing values",
               {"corpus": "F26"}, list(map(float, ts.get("a"))))
    # F39 (fixed c8258f8): nonequidistant resize with a later start, then write and read
    offs = [0, 1, 3, 4, 7, 8]
    st = {"dt": None, "start": 0, "stop": 8 * H, "times": [k * H for k in offs], "forecast": 0, "fcIndex": 0, "tz": None,
          "containsEns": False, "ensSize": 1, "slots": [[{"var": 0, "unit": "m", "vals": [xv(10.0 + k) for k in offs]}]]}
    P.build_real(pi, dc, d, "ts", st, ids, False).write()
    r = pi.Timeseries(dc, d, "ts", binary=False)
    r.resize(dtm(3 * H), dtm(8 * H))
    r.write()
    r2 = pi.Timeseries(dc, d, "ts", binary=False)
    got = list(map(float, r2.get("a")))
    c.count(("corpus", "F39"))
    if got != [13.0, 14.0, 17.0, 18.0] or [sec(t) for t in r2.times] != [3 * H, 4 * H, 7 * H, 8 * H]:
        c.fail("nonequidistant pi resize(later start) -> write -> read loses / mis-stamps values",
               {"corpus": "F39"}, {"values": got, "stamps_h": [sec(t) // H for t in r2.times]})
    # F40 (fixed 2e78bfd): netcdf write_times with forecast_time != 0 and no negative time
    e = nc.ExportDataset(d, "x")
    e.write_times(np.array([0.0, 3600.0, 7200.0]), 3600.0, dtm(10 ** 8))
    e.write_station_data(_NoStations, ["s"])
    e.write_ensemble_data(1)
    e.create_variables(["v"], 1)
    e.close()
    got = [sec(t) - 10 ** 8 for t in nc.ImportDataset(d, "x").read_import_times()]
    c.count(("corpus", "F40"))
    if got != [-3600, 0, 3600]:
        c.fail("netcdf write_times([0,3600,7200], forecast_time=3600, D) must read back D-3600, D, D+3600",
               {"corpus": "F40"}, got)
    # F41 (fixed 0095ca4): station ids of different lengths
    for stn in (["x", "long_name"], ["st1", "Loc_B"]):
        def real():
            e = nc.ExportDataset(d, "x")
            e.write_times(np.array([0.0, 3600.0]), 0.0, dtm(10 ** 8))
            e.write_station_data(_NoStations, stn)
            e.write_ensemble_data(1)
            e.create_variables(["v"], 1)
            e.close()
            return list(nc.ImportDataset(d, "x").read_station_data().station_ids)
        r = call(real)
        c.count(("corpus", "F41", tuple(stn)))
        if r[0] == "raise" or r[1] != stn:
            c.fail("netcdf export/import changes station ids of different lengths", {"corpus": "F41", "stations": stn}, r)
    # F50 (fixed 3e65d4f): empty cells in a ';' file with decimal commas
    import rtctools.data.csv as csv
    fn = os.path.join(d, "f50.csv")
    with open(fn, "w") as fh:
        fh.write("time;a;b\n2020-01-01 00:00:00;1,5;\n2020-01-01 01:00:00;;2,5\n")
    r = call(lambda: np.atleast_1d(csv.load(fn, delimiter=";", with_time=True)))
    c.count(("corpus", "F50"))
    if r[0] == "raise" or not (float(r[1]["a"][0]) == 1.5 and isnan(float(r[1]["a"][1])) and isnan(float(r[1]["b"][0]))
                               and float(r[1]["b"][1]) == 2.5):
        c.fail("csv.load(';', decimal comma): empty cells must be read as NaN, not 0.0", {"corpus": "F50"},
               None if r[0] == "raise" else {k: list(map(float, r[1][k])) for k in ("a", "b")})
    # F51 (known): an empty cell in a column of integer-formatted values is read as -1 (numpy int fill);
    # the main stream writes floats with a decimal point
    with open(fn, "w") as fh:
        fh.write("a,b\n1,\n,3\n")
    r = call(lambda: np.atleast_1d(csv.load(fn, delimiter=",")))
    got = None if r[0] == "raise" else {k: list(map(float, r[1][k])) for k in ("a", "b")}
    c.known_probe("F51", got is None or not (got["a"][0] == 1.0 and isnan(got["a"][1]) and isnan(got["b"][0]) and got["b"][1] == 3.0),
                  "csv.load('a,b / 1, / ,3'): empty cells of integer-formatted columns read as %s instead of NaN" % got)
    # F7 (fixed 658d814): forecast date 28 h after the start on a 7 h grid
    f = {"tz": None, "bin": None, "recs": [{"hdr": {"var": 0, "member": None, "step": 25200, "start": 0, "stop": 5 * 25200,
                                                  "forecast": 100800, "miss": xv(-999.0), "unit": "m"},
                                          "evt": [k * 25200 for k in range(6)], "evs": [xv(float(k)) for k in range(6)]}]}
    P.write_file(d, "f7", f, ids)
    r = pi.Timeseries(dc, d, "f7", binary=False)
    c.count(("corpus", "F7"))
    if sec(r.forecast_datetime) != 100800 or r.forecast_index != 4:
        c.fail("PI forecast date 28 h after the start (7 h step) must stay on the grid with index 4",
               {"corpus": "F7"}, {"forecast": sec(r.forecast_datetime), "index": r.forecast_index})
    shutil.rmtree(d, ignore_errors=True)

