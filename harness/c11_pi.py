"""
Helpers for C11: drive the real `rtctools.data.pi.Timeseries` / `rtc.DataConfig` in temp dirs and
convert between the real objects / files and the record-level wire form of the Lean model
(`lean/RtcVerif/Model/C11.lean`).  Date-times are integer seconds relative to `BASE`.
"""
import datetime
import math
import os
import xml.etree.ElementTree as ET
from fractions import Fraction

import numpy as np

from .common import fr, unfr

BASE = datetime.datetime(2001, 1, 1)
NS = {"pi": "http://www.wldelft.nl/fews/PI"}
NAN = float("nan")


def dtm(sec):
    return BASE + datetime.timedelta(seconds=int(sec))


def sec(d):
    x = (d - BASE).total_seconds()
    assert x == int(x)
    return int(x)


def call(fn, *a, **k):
    try:
        return ("ok", fn(*a, **k))
    except Exception as e:  # the implementation rejects the input
        return ("raise", type(e).__name__)


# ---------------------------------------------------------------------------------------------
# rtcDataConfig


class Ids:
    """variables with their external PI ids; `rank` = index in Python's sorted order of names"""

    def __init__(self, names, ext):
        self.names = sorted(names)
        self.ext = ext  # name -> (loc, par, [quals])
        self.rank = {n: i for i, n in enumerate(self.names)}

    def config_xml(self):
        out = ['<?xml version="1.0" encoding="UTF-8"?>', '<rtcDataConfig xmlns="http://www.wldelft.nl/fews">']
        for n in self.names:
            loc, par, quals = self.ext[n]
            out.append('<timeSeries id="%s"><PITimeSeries><locationId>%s</locationId><parameterId>%s</parameterId>%s'
                       "</PITimeSeries></timeSeries>"
                       % (n, loc, par, "".join("<qualifierId>%s</qualifierId>" % q for q in quals)))
        out.append("</rtcDataConfig>")
        return "\n".join(out)

    def name_of_header(self, loc, par, quals):
        key = (loc, par, tuple(sorted(quals)))
        for n in self.names:
            l, p, q = self.ext[n]
            if (l, p, tuple(sorted(q))) == key:
                return n
        return None


NAME_POOL = ["a", "B", "x_1", "Q.in", "Zeta", "b10", "b9", "H", "_u", "storage.V", "q", "AA"]
LOCS = ["L1", "Res", "Loc_2"]
PARS = ["P", "Q", "H.sim", "par"]
QUALS = ["q1", "q2", "TEST", "ens"]
UNITS = ["m", "m3/s", "unit_unknown", "-", "degC"]


def gen_ids(rng, nmax=4):
    n = rng.randint(1, nmax)
    names = rng.sample(NAME_POOL, n)
    ext, used = {}, set()
    for nm in names:
        while True:
            loc, par = rng.choice(LOCS), rng.choice(PARS)
            quals = rng.sample(QUALS, rng.choice([0, 0, 1, 2, 3]))
            key = (loc, par, tuple(sorted(quals)))
            if key not in used:
                used.add(key)
                break
        ext[nm] = (loc, par, quals)
    return Ids(names, ext)


# ---------------------------------------------------------------------------------------------
# wire forms


def xv(x):
    return fr(float(x))


def store_wire(st):
    return st  # stores are generated directly in wire form (values already `fr` strings)


def real_to_store(r, ids):
    """observe a real pi.Timeseries through its public API -> model Store (wire form)"""
    slots = []
    for m in range(r.ensemble_size):
        slot = []
        for k, v in r.items(m):
            slot.append({"var": ids.rank[k], "unit": r.get_unit(k, m), "vals": [xv(x) for x in np.asarray(v, dtype=float)]})
        slots.append(slot)
    tz = r.timezone
    return {
        "dt": None if not r.dt else int(r.dt.total_seconds()),
        "start": sec(r.start_datetime),
        "stop": sec(r.end_datetime),
        "times": [sec(t) for t in r.times],
        "forecast": sec(r.forecast_datetime),
        "fcIndex": int(r.forecast_index),
        "tz": None if tz is None else fr(float(tz)),
        "containsEns": bool(r.contains_ensemble),
        "ensSize": int(r.ensemble_size),
        "slots": slots,
    }


def canon_store(s, with_times=True):
    """order-insensitive comparable form of a wire Store"""
    def cv(x):
        v = unfr(x)
        return "nan" if isinstance(v, float) and math.isnan(v) else v

    out = dict(s)
    out["slots"] = [sorted([(e["var"], e["unit"], tuple(cv(x) for x in e["vals"])) for e in sl]) for sl in s["slots"]]
    out["tz"] = None if s["tz"] is None else unfr(s["tz"])
    if not with_times:
        out.pop("times")
        out.pop("fcIndex")
    return out


def parse_xml_file(path, ids, bin_path=None):
    """what the written XML contains, as the model's `File` (wire form)"""
    root = ET.parse(path).getroot()
    tz = root.find("pi:timeZone", NS)
    recs = []
    for series in root.findall("pi:series", NS):
        h = series.find("pi:header", NS)
        loc = h.find("pi:locationId", NS).text
        par = h.find("pi:parameterId", NS).text
        quals = [q.text for q in h.findall("pi:qualifierId", NS)]
        name = ids.name_of_header(loc, par, quals)
        tsp = h.find("pi:timeStep", NS)
        step = int(tsp.get("multiplier")) if tsp.get("unit") == "second" else None
        pd = lambda el: sec(datetime.datetime.strptime(el.get("date") + " " + el.get("time"), "%Y-%m-%d %H:%M:%S"))  # noqa
        fc = h.find("pi:forecastDate", NS)
        mem = h.find("pi:ensembleMemberIndex", NS)
        evs = series.findall("pi:event", NS)
        recs.append({
            "hdr": {"var": ids.rank[name], "member": None if mem is None else int(mem.text), "step": step,
                    "start": pd(h.find("pi:startDate", NS)), "stop": pd(h.find("pi:endDate", NS)),
                    "forecast": None if fc is None else pd(fc), "miss": xv(float(h.find("pi:missVal", NS).text)),
                    "unit": h.find("pi:units", NS).text,
                    "quals": quals, "loc": loc, "par": par},
            "evt": [pd(e) for e in evs],
            "evs": [xv(float(e.get("value"))) for e in evs],
        })
    b = None
    if bin_path is not None and os.path.exists(bin_path):
        b = [xv(x) for x in np.fromfile(bin_path, dtype=np.float32)]
    return {"tz": None if tz is None else fr(float(tz.text)), "recs": recs, "bin": b}


def canon_file(f):
    def cv(x):
        v = unfr(x)
        return "nan" if isinstance(v, float) and math.isnan(v) else v

    recs = []
    for r in f["recs"]:
        h = r["hdr"]
        recs.append(((h["member"] if h["member"] is not None else -1), h["var"], h["step"], h["start"], h["stop"],
                     h["forecast"], cv(h["miss"]), h["unit"], tuple(r["evt"]), tuple(cv(x) for x in r["evs"])))
    return {"tz": None if f["tz"] is None else unfr(f["tz"]), "recs": sorted(recs, key=repr),
            "bin": None if f["bin"] is None else [cv(x) for x in f["bin"]]}


# ---------------------------------------------------------------------------------------------
# building a real object from a model Store (the way the mixins do it) and hand-made XML files


def build_real(pi, dc, folder, basename, st, ids, binary):
    ts = pi.Timeseries(dc, folder, basename, binary=binary, make_new_file=True)
    ts.times = [dtm(t) for t in st["times"]]
    ts.dt = None if st["dt"] is None else datetime.timedelta(seconds=st["dt"])
    ts.forecast_datetime = dtm(st["forecast"])
    ts.timezone = None if st["tz"] is None else float(unfr(st["tz"]))
    if st["ensSize"] > 1 or st["containsEns"]:
        ts.contains_ensemble = True
    ts.ensemble_size = st["ensSize"]
    ts.contains_ensemble = st["containsEns"]
    for m, slot in enumerate(st["slots"]):
        for e in slot:
            ts.set(ids.names[e["var"]], np.array([float(unfr(x)) for x in e["vals"]], dtype=float), unit=e["unit"],
                   ensemble_member=m)
    return ts


def fmt_dt(tag, s):
    d = dtm(s)
    return '<pi:%s date="%s" time="%s" />' % (tag, d.strftime("%Y-%m-%d"), d.strftime("%H:%M:%S"))


def text_of(x):
    v = unfr(x) if isinstance(x, str) else x
    if isinstance(v, Fraction):
        v = float(v)
    return repr(float(v)) if not math.isnan(v) else "NaN"


def file_xml(f, ids):
    """a PI XML text for the model `File` f (wire form)"""
    out = ['<pi:TimeSeries xmlns:pi="http://www.wldelft.nl/fews/PI" version="1.2">']
    if f["tz"] is not None:
        out.append("<pi:timeZone>%s</pi:timeZone>" % text_of(f["tz"]))
    for r in f["recs"]:
        h = r["hdr"]
        loc, par, quals = ids.ext[ids.names[h["var"]]]
        quals = h.get("quals", quals)
        out.append("<pi:series><pi:header><pi:type>instantaneous</pi:type>")
        out.append("<pi:locationId>%s</pi:locationId><pi:parameterId>%s</pi:parameterId>" % (loc, par))
        out += ["<pi:qualifierId>%s</pi:qualifierId>" % q for q in quals]
        if h["member"] is not None:
            out.append("<pi:ensembleMemberIndex>%d</pi:ensembleMemberIndex>" % h["member"])
        if h["step"] is None:
            out.append('<pi:timeStep unit="nonequidistant" />')
        else:
            out.append('<pi:timeStep unit="second" multiplier="%d" />' % h["step"])
        out.append(fmt_dt("startDate", h["start"]))
        out.append(fmt_dt("endDate", h["stop"]))
        if h["forecast"] is not None:
            out.append(fmt_dt("forecastDate", h["forecast"]))
        out.append("<pi:missVal>%s</pi:missVal><pi:units>%s</pi:units></pi:header>" % (text_of(h["miss"]), h["unit"]))
        for t, v in zip(r["evt"], r["evs"]):
            d = dtm(t)
            out.append('<pi:event date="%s" time="%s" value="%s" />'
                       % (d.strftime("%Y-%m-%d"), d.strftime("%H:%M:%S"), text_of(v)))
        out.append("</pi:series>")
    out.append("</pi:TimeSeries>")
    return "\n".join(out)


def write_file(folder, basename, f, ids):
    with open(os.path.join(folder, basename + ".xml"), "w") as fh:
        fh.write(file_xml(f, ids))
    if f["bin"] is not None:
        np.array([float(unfr(x)) for x in f["bin"]], dtype=np.float32).tofile(os.path.join(folder, basename + ".bin"))
