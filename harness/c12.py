"""
C12 — one time axis relative to t0; exports contain the results at the right times.

Proof obligations: lean/RtcVerif/Props/C12.lean (model lean/RtcVerif/Model/C12.lean).
Correspondence:
  stream A  a synthetic `optimization.io_mixin.IOMixin` problem (no Modelica): DataStore axis,
            times(), history(), bounds(), sequences of set_timeseries/get_timeseries for every t0
            position and ensemble size, against the Lean model;
  stream B  a tiny Modelica model (two outputs) behind CSVMixin / PIMixin (XML and binary) / NetCDFMixin with generated input
            folders (any t0 position, ensembles): after optimize() the three exports are parsed
            back and compared with extract_results(), with each other and with the model's stamps;
  stream C  simulation CSVMixin / PIMixin: feed and export stamps (also against the Lean feed/record model);
  stream D  (c12_slices.py) what bounds / history / seed / constant_inputs / parameters hand out, on a
            synthetic IOMixin problem with a parent that has its own dictionaries.
"""
import datetime
import logging
import math
import os
import shutil
import tempfile
import warnings

import numpy as np

from . import c12_models as MB
from .common import fr, quiet_fd, unfr

NAN = float("nan")
BASE = datetime.datetime(2001, 1, 1)
BIG = float(np.finfo(float).max)


def isnan(x):
    return isinstance(x, float) and math.isnan(x)


def dtm(s):
    return BASE + datetime.timedelta(seconds=int(s))


def sec(d):
    x = (d - BASE).total_seconds()
    return int(x)


def xv(x):
    return fr(float(x))


def call(fn, *a, **k):
    try:
        return ("ok", fn(*a, **k))
    except Exception as e:
        return ("raise", type(e).__name__)


def eqv(a, b):
    """two float lists equal with NaN == NaN"""
    a, b = list(a), list(b)
    return len(a) == len(b) and all((isnan(x) and isnan(y)) or x == y for x, y in zip(map(float, a), map(float, b)))


def wire_vals(vs):
    return [xv(x) for x in vs]


def same_wire(model, impl):
    return eqv([float(unfr(x)) for x in model], impl)


# ---------------------------------------------------------------------------------------------
# stream A: synthetic IOMixin problem

VARS = ["x", "u", "c", "u_Max", "u_Min", "a", "b"]


def gen_axis(rng, nmin=2):
    n = rng.choice([2, 3, 4, 5, 6, 8])
    n = max(n, nmin)
    start = rng.choice([0, 86400 * rng.randint(0, 6000), rng.randint(0, 10 ** 8)])
    if rng.random() < 0.7:
        d = rng.choice([60, 900, 3600, 3600, 25200, 86400, 90000])
        dts = [start + i * d for i in range(n)]
    else:
        dts = [start]
        for _ in range(n - 1):
            dts.append(dts[-1] + rng.choice([60, 3600, 7200, 86400, 100000]))
    k0 = rng.choice([0, n - 1, rng.randrange(n), rng.randrange(n)])
    return dts, k0


def gen_series(rng, n):
    pat = rng.random()
    vs = [rng.choice([NAN, float(rng.randint(-9, 9)), rng.uniform(-100, 100), 0.0, 1.0]) for _ in range(n)]
    if pat < 0.1:
        vs = [NAN] * n
    return vs


def make_io_class():
    import casadi as ca
    from rtctools._internal.alias_tools import AliasRelation
    from rtctools.optimization.io_mixin import IOMixin

    class P(IOMixin):
        def __init__(self, data, **kw):
            self._ar = AliasRelation()
            self._data = data
            self._syms = {n: ca.MX.sym(n) for n in ("x", "u", "c")}
            super().__init__(**kw)

        alias_relation = property(lambda self: self._ar)

        @property
        def dae_variables(self):
            s = self._syms
            return {"states": [s["x"]], "algebraics": [], "control_inputs": [s["u"]], "constant_inputs": [s["c"]],
                    "free_variables": [s["x"], s["u"]]}

        def read(self):
            dts, ref, series = self._data
            self.io.reference_datetime = ref
            for (m, var), vals in series:
                self.io.set_timeseries(var, dts, np.array(vals, dtype=float), m)

        def write(self):
            pass

    for nm in IOMixin.__abstractmethods__:
        if nm not in ("read", "write", "alias_relation", "dae_variables"):
            setattr(P, nm, lambda self, *a, **k: None)
    P.__abstractmethods__ = frozenset()
    return P


def gen_set_op(rng, ts, k0, E):
    from rtctools.optimization.timeseries import Timeseries  # noqa

    n = len(ts)
    hor = ts[k0:]
    # mostly existing members; sometimes the next one, sometimes an index that skips members (created out of order)
    r_ = rng.random()
    m = rng.randrange(E) if r_ < 0.75 else (E if r_ < 0.85 else E + rng.randint(1, 2))
    v = rng.randrange(len(VARS))
    check = rng.random() < 0.8
    kind = rng.choice(["arr", "arr", "ts_sub", "ts_sub", "ts_all", "ts_contig", "ts_bad", "arr_bad", "ts_len", "arr_short"])
    if kind == "arr_short":  # fewer values than the horizon, consistency check off: they still start at t0
        return {"op": "set", "m": m, "v": v, "times": None, "values": gen_series(rng, rng.randint(0, len(hor))),
                "check": False, "kind": kind}
    if kind == "arr":
        return {"op": "set", "m": m, "v": v, "times": None, "values": gen_series(rng, len(hor)), "check": check, "kind": kind}
    if kind == "arr_bad":
        ln = rng.choice([0, 1, len(hor) - 1, len(hor) + 1, n, n + 2])
        return {"op": "set", "m": m, "v": v, "times": None, "values": gen_series(rng, max(ln, 0)), "check": check, "kind": kind}
    if kind == "ts_all":
        return {"op": "set", "m": m, "v": v, "times": list(ts), "values": gen_series(rng, n), "check": check, "kind": kind}
    if kind == "ts_sub":  # any subset of the import stamps, in increasing order (gaps allowed)
        sub = sorted(rng.sample(range(n), rng.randint(1, n)))
        return {"op": "set", "m": m, "v": v, "times": [ts[i] for i in sub], "values": gen_series(rng, len(sub)),
                "check": check, "kind": kind}
    if kind == "ts_contig":
        i = rng.randrange(n)
        j = rng.randrange(i, n)
        return {"op": "set", "m": m, "v": v, "times": ts[i:j + 1], "values": gen_series(rng, j - i + 1), "check": check,
                "kind": kind}
    if kind == "ts_len":
        sub = sorted(rng.sample(range(n), rng.randint(1, n)))
        return {"op": "set", "m": m, "v": v, "times": [ts[i] for i in sub], "values": gen_series(rng, len(sub) + 1),
                "check": check, "kind": kind}
    # stamps that are not import stamps
    i = rng.randrange(n)
    tt = sorted(set([ts[i] + 7] + [ts[j] for j in range(n) if rng.random() < 0.4]))
    if rng.random() < 0.3:
        tt = [ts[-1] + 50]
    return {"op": "set", "m": m, "v": v, "times": tt, "values": gen_series(rng, len(tt)), "check": check, "kind": kind}


def stream_io(c, N):
    from rtctools.optimization.timeseries import Timeseries

    rng = c.rng
    P = make_io_class()
    cases, lines = [], []
    for i in range(N):
        dts, k0 = gen_axis(rng)
        n = len(dts)
        E = rng.choice([1, 1, 2, 3])
        ref = dts[k0]
        ts = [d - ref for d in dts]
        series = []
        for m in range(E):
            for var in ("x", "c", "u_Max", "u_Min"):
                if rng.random() < 0.7 or (m == E - 1 and var == "c"):
                    series.append(((m, var), gen_series(rng, n)))
        bad_ref = rng.random() < 0.05
        refdt = dtm(ref + (13 if bad_ref else 0))
        p = P(([dtm(d) for d in dts], refdt, series))
        r = call(p.pre)
        case = {"stream": "io", "dts": dts, "t0_index": k0, "E": E, "series": [[list(k), v] for k, v in series],
                "bad_ref": bad_ref}
        c.hit("io/t0 " + ("first" if k0 == 0 else "last" if k0 == n - 1 else "inside"))
        ax = call(lambda: {"times_sec": [float(x) for x in p.io.times_sec], "horizon": [float(x) for x in p.times()],
                           "initial_time": float(p.initial_time), "E": p.ensemble_size,
                           "datetimes": [sec(d) for d in p.io.datetimes]})
        obs = {"pre": r[0], "axis": ax}
        ops, res = [], []
        if r[0] == "ok" and ax[0] == "ok":
            # what was read is what is retrieved, for every member (before anything mutates the store)
            got = {}
            for (m, var), vals in series:
                g = call(lambda: p.get_timeseries(var, m))
                got[(m, var)] = None if g[0] == "raise" else ([float(x) for x in g[1].times], [float(x) for x in g[1].values])
            obs["stored"] = got
            hist = {}
            for m in range(E):
                h = call(p.history, m)
                hist[m] = None if h[0] == "raise" else {k: ([float(x) for x in v.times], [float(x) for x in v.values])
                                                       for k, v in h[1].items()}
            obs["history"] = hist
            # set / get sequences
            for _ in range(rng.randint(2, 7)):
                if rng.random() < 0.3:
                    o = {"op": "get", "m": rng.randrange(E + 2), "v": rng.randrange(len(VARS))}
                    g = call(lambda: p.get_timeseries(VARS[o["v"]], o["m"]))
                    res.append("raise" if g[0] == "raise" else [float(x) for x in g[1].values])
                else:
                    o = gen_set_op(rng, ts, k0, E)
                    vals = np.array(o["values"], dtype=float)
                    arg = vals if o["times"] is None else Timeseries(np.array(o["times"], dtype=float), vals)
                    s = call(lambda: p.set_timeseries(VARS[o["v"]], arg, ensemble_member=o["m"],
                                                      check_consistency=o["check"]))
                    if s[0] == "raise":
                        res.append("raise")
                    else:
                        g = call(lambda: p.get_timeseries(VARS[o["v"]], o["m"]))
                        res.append("raise" if g[0] == "raise" else [float(x) for x in g[1].values])
                        E = max(E, o["m"] + 1)
                ops.append(o)
                c.hit("io/op " + (o.get("kind") or "get"))
            # finally every (member, variable) is read once more: members are separate stores
            final = {}
            for m in range(E + 1):
                for vi, var in enumerate(VARS):
                    g = call(lambda: p.get_timeseries(var, m))
                    final[(m, vi)] = "raise" if g[0] == "raise" else [float(x) for x in g[1].values]
            obs["final"] = final
            obs["E_final"] = E
            # bounds last
            pre_b = {nm: call(lambda: [float(x) for x in p.get_timeseries(nm, 0).values]) for nm in ("u_Max", "u_Min")}
            b = call(p.bounds)
            post_b = {nm: call(lambda: [float(x) for x in p.get_timeseries(nm, 0).values]) for nm in ("u_Max", "u_Min")}
            obs["store_changed_by_bounds"] = [nm for nm in pre_b if pre_b[nm][0] == "ok" and (
                post_b[nm][0] != "ok" or not eqv(pre_b[nm][1], post_b[nm][1]))]
            obs["bounds"] = None if b[0] == "raise" else {
                k: [None if s is None else ([float(x) for x in s.times], [float(x) for x in s.values]) for s in v]
                for k, v in b[1].items() if k == "u"}
        case["ops"] = ops
        cases.append((case, obs, res, series, ts, k0))
        lines.append({"op": "axis", "dts": dts, "ref": sec(refdt)})
        c0 = [v for (mm, vv), v in series if mm == 0 and vv == "c"]
        um = [v for (mm, vv), v in series if mm == 0 and vv == "u_Max"]
        lines.append({"op": "history", "ts": ts, "values": wire_vals(c0[-1] if c0 else [NAN] * n)})
        lines.append({"op": "bound", "ts": ts, "values": wire_vals(um[-1] if um else [NAN] * n), "lower": False,
                      "big": fr(BIG)})
        init = [[] for _ in range(case["E"])]
        for (m, var), vals in series:
            init[m] = [e for e in init[m] if e[0] != VARS.index(var)] + [[VARS.index(var), wire_vals(vals)]]
        lines.append({"op": "ops", "ts": ts, "init": init,
                      "ops": [{**o, "values": wire_vals(o["values"])} if o["op"] == "set" else o for o in ops]})
        c.count(("io", n, k0, case["E"], bad_ref, tuple((o["op"], o.get("kind"), o.get("check")) for o in ops)))
        c.sample(case, limit=3)
    outs = c.model(lines)
    for k, (case, obs, res, series, ts, k0) in enumerate(cases):
        dts = case["dts"]
        # ---------------- oracle (the property re-stated on the real code's outputs)
        if case["bad_ref"]:
            if obs["axis"][0] != "raise":
                c.fail("a reference datetime that is not an import stamp is accepted", case, obs["axis"])
        elif obs["pre"] != "ok" or obs["axis"][0] != "ok":
            c.fail("reading well-formed series raised", case, obs)
        else:
            ax = obs["axis"][1]
            if ax["times_sec"] != [float(t) for t in ts] or ax["datetimes"] != dts:
                c.fail("seconds axis is not datetimes - reference", case, ax)
            if ax["horizon"] != [float(t) for t in ts if t >= 0] or ax["initial_time"] != 0.0 or ax["horizon"][0] != 0.0:
                c.fail("the horizon does not start at t0 / is not the stamps from t0 on", case, ax)
            for (m, var), vals in series:
                g = obs["stored"][(m, var)]
                if g is None or g[0] != [float(t) for t in ts] or not eqv(g[1], vals):
                    c.fail("a stored series is not retrieved at the corresponding offsets", case, {"key": [m, var], "got": g})
            for m, h in obs["history"].items():
                for var in ("x", "c"):
                    src = [v for (mm, vv), v in series if mm == m and vv == var]
                    if src and h is not None:
                        exp_t = [float(t) for t in ts if t <= 0]
                        if var not in h or h[var][0] != exp_t or not eqv(h[var][1], src[-1][:len(exp_t)]):
                            c.fail("history is not what lies at or before t0", case, {"member": m, "var": var, "got": h.get(var)})
            # every member has its own store: what is retrieved for (m, v) is exactly the LAST series stored for
            # (m, v), whatever was done to other members (also members created out of order / skipping indices);
            # a (m, v) never stored is absent
            last = {}
            for (m, var), vals in series:
                last[(m, VARS.index(var))] = list(vals)
            bad_iso = None
            for o, r in zip(case["ops"], res):
                key = (o["m"], o["v"])
                if o["op"] == "set":
                    if r != "raise":
                        last[key] = r  # what get returned right after the call
                elif bad_iso is None:
                    if (key in last) != (r != "raise") or (key in last and not eqv(last[key], r)):
                        bad_iso = {"get": o, "expected": last.get(key, "absent"), "got": r}
            if bad_iso is None:
                for key, r in obs.get("final", {}).items():
                    if (key in last) != (r != "raise") or (key in last and not eqv(last[key], r)):
                        bad_iso = {"member": key[0], "variable": VARS[key[1]], "expected": last.get(key, "absent"), "got": r}
                        break
            if bad_iso is not None:
                c.fail("a series stored for one ensemble member is not what is retrieved for that member "
                       "(members share / lose data)", case, bad_iso)
            # set/get: alignment
            for o, r in zip(case["ops"], res):
                if o["op"] != "set" or r == "raise":
                    if o["op"] == "set" and o["kind"] in ("arr", "arr_short", "ts_sub", "ts_all", "ts_contig"):
                        c.fail("a consistent set_timeseries call is rejected", case, o)
                    continue
                if o["kind"] in ("ts_sub", "ts_all", "ts_contig"):
                    exp = [NAN] * len(ts)
                    for t, v in zip(o["times"], o["values"]):
                        exp[ts.index(t)] = v
                    if not eqv(exp, r):
                        c.fail("set_timeseries: a value is not retrieved at its own stamp (NaN elsewhere)", case,
                               {"op": o, "got": r})
                elif o["kind"] in ("arr", "arr_short") or (
                        o["kind"] == "arr_bad" and not o["check"] and len(o["values"]) <= len(ts) - k0):
                    # value k is retrieved at times()[k]; NaN before t0 and after the last given value
                    exp = [NAN] * k0 + list(o["values"]) + [NAN] * (len(ts) - k0 - len(o["values"]))
                    if not eqv(exp, r):
                        c.fail("set_timeseries without stamps does not start at t0", case, {"op": o, "got": r})
                elif o["check"] and o["kind"] in ("ts_bad", "ts_len", "arr_bad") and not (
                        o["kind"] == "arr_bad" and len(o["values"]) == len(ts) - k0):
                    c.fail("an inconsistent set_timeseries call is accepted with check_consistency", case, {"op": o, "got": r})
            if obs.get("store_changed_by_bounds"):
                c.fail("bounds() changes the stored bound series (a stored value is no longer what is retrieved)", case,
                       obs["store_changed_by_bounds"])
            b = obs.get("bounds")
            if b and "u" in b:
                for side, name, fill in ((0, "u_Min", -BIG), (1, "u_Max", BIG)):
                    src = [v for (mm, vv), v in series if mm == 0 and vv == name]
                    # only if the series was not overwritten by an op
                    if src and not any(o["op"] == "set" and VARS[o["v"]] == name for o in case["ops"]):
                        got = b["u"][side]
                        exp_v = [fill if isnan(x) else x for x in src[-1][k0:]]
                        if got is None or got[0] != [float(t) for t in ts[k0:]] or not eqv(got[1], exp_v):
                            c.fail("bounds from %s do not bind u from t0 on" % name, case, {"got": got})
        # ---------------- correspondence
        if outs is None:
            continue
        ma, mh, mb, mo = outs[4 * k], outs[4 * k + 1], outs[4 * k + 2], outs[4 * k + 3]
        if ma == "raise" or obs["axis"][0] == "raise":
            if (ma == "raise") != (obs["axis"][0] == "raise" or obs["pre"] == "raise"):
                c.disagree("axis raise/value", case, ma, obs["axis"])
            continue
        ax = obs["axis"][1]
        if [float(x) for x in ma["times_sec"]] != ax["times_sec"] or [float(x) for x in ma["horizon"]] != ax["horizon"]:
            c.disagree("seconds axis / horizon", case, ma, ax)
        for m, h in obs.get("history", {}).items():
            if h and "c" in h and len(h["c"][0]) != ma["hist_len"]:
                c.disagree("history length", case, ma["hist_len"], h["c"])
        h0 = obs.get("history", {}).get(0)
        if h0 and "c" in h0 and any(mm == 0 and vv == "c" for (mm, vv), _ in series):
            if [float(x) for x in mh["times"]] != h0["c"][0] or not same_wire(mh["values"], h0["c"][1]):
                c.disagree("history of c (member 0)", case, mh, h0["c"])
        b = obs.get("bounds")
        if b and "u" in b and b["u"][1] is not None and any(mm == 0 and vv == "u_Max" for (mm, vv), _ in series) \
                and not any(o["op"] == "set" and VARS[o["v"]] == "u_Max" and o["m"] == 0 for o in case["ops"]):
            if [float(x) for x in mb["times"]] != b["u"][1][0] or not same_wire(mb["values"], b["u"][1][1]):
                c.disagree("upper bound series of u", case, mb, b["u"][1])
        if len(mo) != len(res) or not all((a == "raise" and b == "raise") or (a != "raise" and b != "raise" and same_wire(a, b))
                                           for a, b in zip(mo, res)):
            c.disagree("set/get sequence", case, mo, res)


# ---------------------------------------------------------------------------------------------


def run(c):
    logging.getLogger("rtctools").setLevel(logging.CRITICAL)
    warnings.filterwarnings("ignore")
    c.rule = (
        "generated import axes (2-8 stamps, equidistant and not, t0 first / inside / last), 1-3 members, series "
        "with NaN patterns; sequences of set_timeseries (bare arrays, Timeseries on any subset of the stamps, "
        "inconsistent calls, both check_consistency modes, new members) and get_timeseries; generated CSV / PI / "
        "NetCDF input folders for a one-state Modelica model, optimize()/simulate() and all exports parsed back "
        "(PI: XML and, on equidistant axes, binary flavour -- import and export --, 1-3 members, two model outputs; "
        "the PI export is also decoded without rtctools' reader: headers in document order, binary: float32 records "
        "in the same order; every (variable, member) series against extract_results(member) on the stamps from t0 on, "
        "and XML / binary / CSV / NetCDF against each other) "
        "(simulation: also the values set on the model before each solve, recorded through set_var, against the "
        "Lean feed/record model).  Stream D: a synthetic IOMixin problem over a parent with its own bounds / history "
        "/ seed / constant_inputs / parameters dictionaries; series for x, u, c and the four bound series per member "
        "with NaN patterns; every accessor called once in a shuffled order, compared with the plain-Python statement "
        "and with the Lean entry model; afterwards the whole store is read back (no accessor may change it).  "
        "distinct = (stream, back-end, #stamps, t0 index, ensemble size, op kinds / stored (member, series) set) tuples"
    )
    c.assumptions = [
        "stamps are whole seconds (datetime arithmetic exact); import stamps strictly increasing (validated by the mixins)",
        "file encoders/decoders as in C11 (trusted libraries, tied by C11's correspondence)",
        "IPOPT returns the same point for the same problem data (cross-back-end comparison at the CSV precision 1e-6)",
        "Timeseries(times, values) copies its values (timeseries.py) and SimulationProblem.update(dt) advances the model "
        "time by dt (C09): table entries of the accessor / feed-record translation",
        "NetCDF export: t0 is the first import stamp (NetCDFMixin.read always sets the reference datetime to it); with a "
        "reference moved by a subclass the NetCDF axis would run past the import range (witness theorem), CSV/PI would not",
    ]
    c.notes.append(
        "Theorems cover the axis logic (DataStore seconds axis, horizon, history, bound series, set_timeseries "
        "alignment, export stamps) for unbounded sizes; the values in the exports are tied by the oracle on real runs "
        "(extract_results() vs the three files, and the files against each other).  Interpolation of variables with "
        "their own coarser grid onto the export rows is C19's theorem, not repeated here.  Corpus: F15 (witness "
        "theorem), F45, F46 inputs are ordinary cases.  Gen/IoSlices.lean (15 generated theorems) ties the "
        "per-variable bodies of bounds / history / seed / constant_inputs / parameters, DataStore.set_timeseries / "
        "get_timeseries_sec and the feed / record dataflow of simulation IOMixin.initialize / update to "
        "Model/C12Io.lean; known findings F5 (bounds entry replaced, not intersected: modelled as the code does, "
        "its input class kept rare and checked by correspondence only), F37 / F38 (simulation feed loops over all "
        "variables: the generators keep state-named series missing after t0) are not re-reported here.")
    from .c12_slices import stream_slices
    from .translate_c12 import gen_io_axis, gen_io_slices, gen_pi_bin_order

    # + the time-axis kernels and the accessor slices translated from the source
    c.prove(extra=gen_io_axis(c) + gen_io_slices(c) + gen_pi_bin_order(c))
    stream_io(c, c.n(250, 8000))
    stream_slices(c, c.n(150, 4000))
    tmp = tempfile.mkdtemp(prefix="c12_")
    try:
        MB.stream_backends(c, c.n(16, 350), tmp)
        MB.stream_simulation(c, c.n(12, 200), tmp)
        MB.corpus(c, tmp)
    finally:
        shutil.rmtree(tmp, ignore_errors=True)
