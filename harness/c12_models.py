"""
C12 streams B and C: a tiny Modelica model behind the CSV / PI / NetCDF mixins (optimisation) and
the CSV / PI mixins (simulation), with generated input folders in temp dirs.
"""
import datetime
import math
import os
import shutil

import numpy as np

from . import c11_pi as P11
from .common import fr, quiet_fd, unfr

NAN = float("nan")
BASE = P11.BASE

MO = """
model M
  Real x(start=0.0);
  input Real u(fixed=false, min=-5.0, max=5.0);
  input Real c(fixed=true);
  output Real y;
equation
  der(x) = (u + c) / 3600.0;
  y = 2 * x;
end M;
"""

MO_SIM = """
model S
  Real x(start=0.0);
  input Real u(fixed=true);
  input Real c(fixed=true);
  output Real y;
  output Real x_out;
equation
  der(x) = (u + c) / 3600.0;
  y = 2 * x;
  x_out = x;
end S;
"""

IDS = P11.Ids(["c", "u", "u_Max", "u_Min", "x", "y", "x_out"],
              {"c": ("In", "C", []), "u": ("Ctl", "U", ["q1"]), "u_Max": ("Ctl", "U_Max", []), "u_Min": ("Ctl", "U_Min", []),
               "x": ("St", "X", []), "y": ("Out", "Y", ["q2", "q1"]), "x_out": ("Out", "X", [])})


def isnan(x):
    return isinstance(x, float) and math.isnan(x)


def dtm(s):
    return BASE + datetime.timedelta(seconds=int(s))


def sec(d):
    return int((d - BASE).total_seconds())


class _Timeout(Exception):
    pass


def _alarm(signum, frame):
    raise _Timeout("no result after the time limit")


def call(fn, *a, **k):
    """run one instance; exceptions become ('raise', ...); a run that does not end within
    RUN_LIMIT seconds (e.g. a simulation whose time step became 0 on a broken tree) is cut off"""
    import signal

    old = signal.signal(signal.SIGALRM, _alarm)
    signal.alarm(RUN_LIMIT)
    try:
        return ("ok", fn(*a, **k))
    except _Timeout as e:
        TIMEOUTS[0] += 1
        return ("raise", "Timeout: %s" % e)
    except Exception as e:
        return ("raise", "%s: %s" % (type(e).__name__, str(e)[:200]))
    finally:
        signal.alarm(0)
        signal.signal(signal.SIGALRM, old)


RUN_LIMIT = 40
TIMEOUTS = [0]  # runs cut off so far; after three a stream stops generating new instances


def eqv(a, b, tol=0.0):
    a, b = list(map(float, a)), list(map(float, b))
    return len(a) == len(b) and all(
        (isnan(x) and isnan(y)) or x == y or abs(x - y) <= tol * max(1.0, abs(x), abs(y)) for x, y in zip(a, b))


# ---------------------------------------------------------------------------------------------
# instance + input folders


def gen_instance(rng, sim=False):
    n = rng.choice([3, 4, 5, 6]) if not sim else rng.choice([3, 5, 6, 8, 9])
    d = rng.choice([1800, 3600, 3600, 7200, 25200])
    start = rng.choice([0, 86400 * rng.randint(0, 6000), rng.randint(0, 10 ** 8)])
    dts = [start + i * d for i in range(n)]
    k0 = rng.choice([0, 0, rng.randrange(n - 1), rng.randrange(n - 1)])
    if not sim and rng.random() < 0.4:
        # non-equidistant import stamps; half of them with a horizon whose FIRST step equals its MEAN step
        # (an end-point test would take such a horizon for equidistant)
        unit = rng.choice([1800, 3600])
        if rng.random() < 0.5:
            steps = rng.choice([[2, 1, 3], [2, 1, 3, 2], [2, 3, 1], [3, 1, 5, 3], [2, 1, 2, 3]])
        else:
            steps = [rng.choice([1, 2, 3, 5]) for _ in range(rng.randint(2, 4))]
            if len(set(steps)) == 1:
                steps[-1] += 1
        k0 = rng.choice([0, 0, 1, 2])
        before = [rng.choice([1, 2, 4]) for _ in range(k0)]
        dts = [start]
        for g in before + steps:
            dts.append(dts[-1] + g * unit)
        n = len(dts)
        d = None
    last_gap = (dts[k0] - dts[k0 - 1]) if k0 > 0 else 0
    E = 1 if sim else rng.choice([1, 1, 2, 3])
    members = []
    delta0 = rng.choice([0.0, 0.1, -0.2])
    c0 = round(rng.uniform(-1, 1), 3)
    for m in range(E):
        cvals = [round(rng.uniform(-1, 1), 3) for _ in range(n)]
        if k0 > 0:
            cvals[k0] = c0  # the control is shared: the initial derivative must be reachable for all members
        for i in range(k0):
            if rng.random() < 0.3:
                cvals[i] = NAN  # gaps before t0 are allowed
        x0 = round(rng.uniform(-2, 2), 3)
        xvals = [round(rng.uniform(-2, 2), 3) if i < k0 else (x0 if i == k0 else NAN) for i in range(n)]
        if k0 > 0:  # keep the initial derivative implied by the history within reach of the control bounds
            xvals[k0 - 1] = round(x0 - delta0 * last_gap / 3600.0, 6)
        s = {"c": cvals, "x": xvals}
        if sim:
            s["u"] = [round(rng.uniform(-1, 1), 3) for _ in range(n)]
        members.append(s)
    if E > 1 and rng.random() < 0.3:
        members[-1] = {k: list(v) for k, v in members[0].items()}  # coincidence between members
    umax = [rng.choice([2.0, 1.5, NAN]) for _ in range(n)] if (not sim and rng.random() < 0.6) else None
    return {"dts": dts, "d": d, "k0": k0, "E": E, "members": members, "u_Max": umax}


def fmt(x):
    return "nan" if isnan(x) else repr(float(x))


def write_csv_input(folder, inst, m, names):
    os.makedirs(folder, exist_ok=True)
    rows = ["time," + ",".join(names)]
    for i, t in enumerate(inst["dts"]):
        vals = []
        for nm in names:
            src = inst["u_Max"] if nm == "u_Max" else inst["members"][m][nm]
            vals.append(fmt(src[i]))
        rows.append(dtm(t).strftime("%Y-%m-%d %H:%M:%S") + "," + ",".join(vals))
    with open(os.path.join(folder, "timeseries_import.csv"), "w") as f:
        f.write("\n".join(rows) + "\n")


def series_names(inst, sim=False):
    names = ["c", "x"] + (["u"] if sim else [])
    if inst["u_Max"] is not None:
        names.append("u_Max")
    return names


def make_csv_folder(root, inst, sim=False):
    inp, out = os.path.join(root, "in"), os.path.join(root, "out")
    os.makedirs(inp)
    os.makedirs(out)
    names = series_names(inst, sim)
    if inst["E"] == 1:
        write_csv_input(inp, inst, 0, names)
    else:
        with open(os.path.join(inp, "ensemble.csv"), "w") as f:
            f.write("name,probability\n" + "".join("member%d,1.0\n" % m for m in range(inst["E"])))
        for m in range(inst["E"]):
            write_csv_input(os.path.join(inp, "member%d" % m), inst, m, names)
            os.makedirs(os.path.join(out, "member%d" % m))
    if sim:
        with open(os.path.join(inp, "initial_state.csv"), "w") as f:
            f.write("x\n%s\n" % fmt(inst["members"][0]["x"][inst["k0"]]))
    return inp, out


def make_pi_folder(root, inst, sim=False):
    inp, out = os.path.join(root, "in"), os.path.join(root, "out")
    os.makedirs(inp)
    os.makedirs(out)
    with open(os.path.join(inp, "rtcDataConfig.xml"), "w") as f:
        f.write(IDS.config_xml())
    with open(os.path.join(inp, "rtcParameterConfig.xml"), "w") as f:
        f.write('<pi:parameters xmlns:pi="http://www.wldelft.nl/fews/PI" version="1.5"></pi:parameters>')
    dts, k0, E = inst["dts"], inst["k0"], inst["E"]
    recs = []
    for m in range(E):
        for nm in series_names(inst, sim):
            if nm == "u_Max" and m > 0:
                continue
            src = inst["u_Max"] if nm == "u_Max" else inst["members"][m][nm]
            recs.append({"hdr": {"var": IDS.rank[nm], "member": m if E > 1 else None, "step": inst["d"], "start": dts[0],
                                 "stop": dts[-1], "forecast": dts[k0], "miss": fr(-999.0), "unit": "m"},
                         "evt": list(dts), "evs": [fr(-999.0) if isnan(v) else fr(float(v)) for v in src]})
    P11.write_file(inp, "timeseries_import", {"tz": fr(0.0), "recs": recs, "bin": None}, IDS)
    return inp, out


def make_nc_folder(root, inst):
    from netCDF4 import Dataset

    inp, out = os.path.join(root, "in"), os.path.join(root, "out")
    os.makedirs(inp)
    os.makedirs(out)
    dts, E = inst["dts"], inst["E"]
    ds = Dataset(os.path.join(inp, "timeseries_import.nc"), "w", format="NETCDF3_CLASSIC")
    ds.createDimension("time", None)
    ds.createDimension("station", 1)
    ds.createDimension("char_leng_id", 3)
    if E > 1:
        ds.createDimension("realization", E)
        r = ds.createVariable("realization", "i", ("realization",))
        r.standard_name = "realization"
        r[:] = list(range(E))
    t = ds.createVariable("time", "f8", ("time",))
    t.standard_name = "time"
    t.axis = "T"
    t.units = "seconds since %s" % dtm(dts[0])
    t[:] = [float(x - dts[0]) for x in dts]
    sid = ds.createVariable("station_id", "c", ("station", "char_leng_id"))
    sid.cf_role = "timeseries_id"
    sid[0, :] = list("loc")
    for nm in series_names(inst):
        if E > 1 and nm != "u_Max":
            v = ds.createVariable(nm, "f8", ("time", "station", "realization"), fill_value=np.nan)
            for m in range(E):
                v[:, 0, m] = np.array(inst["members"][m][nm], dtype=float)
        else:
            v = ds.createVariable(nm, "f8", ("time", "station"), fill_value=np.nan)
            src = inst["u_Max"] if nm == "u_Max" else inst["members"][0][nm]
            v[:, 0] = np.array(src, dtype=float)
    ds.close()
    return inp, out


# ---------------------------------------------------------------------------------------------
# problem classes


def opt_classes():
    from rtctools.optimization.collocated_integrated_optimization_problem import CollocatedIntegratedOptimizationProblem
    from rtctools.optimization.csv_mixin import CSVMixin
    from rtctools.optimization.modelica_mixin import ModelicaMixin
    from rtctools.optimization.netcdf_mixin import NetCDFMixin
    from rtctools.optimization.pi_mixin import PIMixin

    class Base:
        t0_index = None  # set: move the reference datetime to this import stamp (public io API)

        def read(self):
            super().read()
            if self.t0_index:
                self.io.reference_datetime = self.io.datetimes[self.t0_index]

        def objective(self, ensemble_member):
            xf = self.state_at("x", self.times()[-1], ensemble_member=ensemble_member)
            return (xf - 1.0) ** 2

        def path_objective(self, ensemble_member):
            return 1e-2 * self.state("u") ** 2

        def compiler_options(self):
            o = super().compiler_options()
            o["cache"] = False
            o["library_folders"] = []
            return o

        def solver_options(self):
            o = super().solver_options()
            o["ipopt"] = {"print_level": 0, "sb": "yes"}
            o["print_time"] = 0
            return o

    class Csv(Base, CSVMixin, ModelicaMixin, CollocatedIntegratedOptimizationProblem):
        pass

    class CsvEns(Csv):
        csv_ensemble_mode = True

    class Pi(Base, PIMixin, ModelicaMixin, CollocatedIntegratedOptimizationProblem):
        pass

    class Nc(Base, NetCDFMixin, ModelicaMixin, CollocatedIntegratedOptimizationProblem):
        def netcdf_id_to_variable(self, station_id, parameter):
            return parameter

        def netcdf_id_from_variable(self, variable_name):
            return ("loc", variable_name)

    return Csv, CsvEns, Pi, Nc


def observe(p, E):
    return {
        "datetimes": [sec(d) for d in p.io.datetimes],
        "ref": sec(p.io.reference_datetime),
        "times": [float(t) for t in p.times()],
        "results": [{k: [float(x) for x in v] for k, v in p.extract_results(m).items()} for m in range(E)],
        "outputs": sorted(s.name() for s in p.output_variables),
        "hist_x": [([float(t) for t in p.history(m)["x"].times], [float(v) for v in p.history(m)["x"].values])
                   for m in range(E)],
    }


def read_csv_export(out, E):
    import rtctools.data.csv as csv

    res = []
    for m in range(E):
        folder = out if E == 1 else os.path.join(out, "member%d" % m)
        r = np.atleast_1d(csv.load(os.path.join(folder, "timeseries_export.csv"), with_time=True))
        res.append(([sec(t) for t in r["time"]], {k: [float(x) for x in r[k]] for k in r.dtype.names[1:]}))
    return res


def read_pi_export(inp, out, E):
    import rtctools.data.pi as pi
    import rtctools.data.rtc as rtc

    r = pi.Timeseries(rtc.DataConfig(inp), out, "timeseries_export", binary=False)
    res = []
    for m in range(E):
        res.append(([sec(t) for t in r.times], {k: [float(x) for x in v] for k, v in r.items(m)}))
    return res, sec(r.forecast_datetime), r.ensemble_size


def read_nc_export(out, E):
    import rtctools.data.netcdf as nc

    d = nc.ImportDataset(out, "timeseries_export")
    ts = [sec(t) for t in d.read_import_times()]
    res = []
    for m in range(E):
        res.append((ts, {p: [float(x) for x in d.read_timeseries_values(0, p, m)] for p in d.find_timeseries_variables()}))
    return res, d.ensemble_size


# ---------------------------------------------------------------------------------------------


def check_export(c, case, backend, obs, exported, tol, what_extra=""):
    """oracle: exported stamps are reference + times(); values are the results at those stamps"""
    inst = case["instance"]
    exp_stamps = inst["dts"][inst["k0"]:]
    for m, (stamps, cols) in enumerate(exported):
        if stamps != exp_stamps:
            c.fail("%s export: time stamps are not the import stamps from t0 on%s" % (backend, what_extra), case,
                   {"member": m, "stamps": stamps, "expected": exp_stamps})
            return False
        for var in obs["outputs"]:
            if var not in cols:
                c.fail("%s export: output variable %s is missing" % (backend, var), case, sorted(cols))
                return False
            if not eqv(cols[var], obs["results"][m][var], tol):
                c.fail("%s export: values of %s differ from extract_results() at the same stamps" % (backend, var), case,
                       {"member": m, "file": cols[var], "results": obs["results"][m][var]})
                return False
    return True


def stream_backends(c, N, tmp):
    rng = c.rng
    Csv, CsvEns, Pi, Nc = opt_classes()
    mo = os.path.join(tmp, "mo")
    os.makedirs(mo)
    with open(os.path.join(mo, "M.mo"), "w") as f:
        f.write(MO)
    c.programs += 1
    lines, cases = [], []
    for i in range(N):
        if TIMEOUTS[0] >= 3:
            c.hit("backends/skipped after repeated timeouts")
            continue
        inst = gen_instance(rng)
        k0, E, dts = inst["k0"], inst["E"], inst["dts"]
        case = {"stream": "backends", "instance": inst}
        runs = {}
        for backend in ("pi", "csv", "nc"):
            if backend == "nc" and k0 > 0:
                continue  # NetCDFMixin with a moved reference datetime: see the probe
            root = os.path.join(tmp, "b%d_%s" % (i, backend))
            os.makedirs(root)

            def real():
                if backend == "csv":
                    inp, out = make_csv_folder(root, inst)
                    cls = CsvEns if E > 1 else Csv
                elif backend == "pi":
                    inp, out = make_pi_folder(root, inst)
                    cls = Pi
                else:
                    inp, out = make_nc_folder(root, inst)
                    cls = Nc
                p = cls(model_name="M", model_folder=mo, input_folder=inp, output_folder=out)
                if inst["d"] is None:
                    p.csv_equidistant = False
                if backend != "pi":
                    p.t0_index = k0
                with quiet_fd():
                    ok = p.optimize()
                obs = observe(p, E)
                obs["success"] = bool(ok)
                if backend == "csv":
                    exported = read_csv_export(out, E)
                elif backend == "pi":
                    exported, fc, es = read_pi_export(inp, out, E)
                    obs["export_forecast"] = fc
                    obs["export_E"] = es
                else:
                    exported, es = read_nc_export(out, E)
                    obs["export_E"] = es
                return obs, exported

            r = call(real)
            shutil.rmtree(root, ignore_errors=True)
            runs[backend] = r
            steps = [b - a for a, b in zip(dts[k0:], dts[k0 + 1:])]
            kind = "equidistant" if inst["d"] is not None else (
                "nonequidistant, first step = mean step" if steps[0] * len(steps) == sum(steps) else "nonequidistant")
            c.count(("backend", backend, len(dts), k0, E, inst["u_Max"] is not None, kind))
            c.hit("backends/%s %s" % (backend, kind))
            c.hit("backends/%s %s" % (backend, "t0 first" if k0 == 0 else "t0 inside"))
            c.hit("backends/E=%d" % E)
        cases.append((case, runs))
        lines.append({"op": "axis", "dts": dts, "ref": dts[k0]})
        c.sample(case, limit=2)
    outs = c.model(lines)
    for k, (case, runs) in enumerate(cases):
        inst = case["instance"]
        dts, k0, E = inst["dts"], inst["k0"], inst["E"]
        ts = [d - dts[k0] for d in dts]
        good = {}
        for backend, r in runs.items():
            if r[0] == "raise":
                c.fail("%s back-end: pre/optimize/export raised" % backend, case, r[1])
                continue
            obs, exported = r[1]
            if not obs["success"]:
                c.hit("backends/solver failed")
                continue
            # axis
            if obs["datetimes"] != dts or obs["ref"] != dts[k0] or obs["times"] != [float(t) for t in ts[k0:]]:
                c.fail("%s back-end: the axis is not seconds relative to t0 / the horizon does not start at t0" % backend,
                       case, {k2: obs[k2] for k2 in ("datetimes", "ref", "times")})
                continue
            for m in range(E):
                ht, hv = obs["hist_x"][m]
                if ht != [float(t) for t in ts[:k0 + 1]] or not eqv(hv, inst["members"][m]["x"][:k0 + 1]):
                    c.fail("%s back-end: history of x is not the series up to t0" % backend, case, obs["hist_x"][m])
            # initial condition taken at t0 for every member
            for m in range(E):
                if abs(obs["results"][m]["x"][0] - inst["members"][m]["x"][k0]) > 1e-6:
                    c.fail("%s back-end: x(t0) of member %d is not the stored value at t0" % (backend, m), case,
                           obs["results"][m]["x"])
            tol = 6e-7 if backend == "csv" else 0.0
            if check_export(c, case, backend, obs, exported, tol):
                good[backend] = (obs, exported)
            if backend == "pi" and (obs["export_forecast"] != dts[k0]):
                c.fail("pi export: forecast date is not t0", case, obs["export_forecast"])
            if backend in ("pi", "nc") and obs["export_E"] != E:
                c.fail("%s export: ensemble size differs" % backend, case, obs["export_E"])
            # correspondence with the Lean model: stamps of the export rows
            if outs is not None:
                mo_ = outs[k]
                stamps = exported[0][0]
                model_stamps = mo_["nc_export"] if backend == "nc" else mo_["export"]
                if mo_ == "raise" or stamps != model_stamps or [float(x) for x in mo_["horizon"]] != obs["times"]:
                    c.disagree("%s export stamps" % backend, case, mo_, stamps)
        # the back-ends agree with each other (same problem data -> same solution)
        names = sorted(good)
        for a in names:
            for b in names:
                if a < b:
                    for m in range(E):
                        for var in good[a][0]["outputs"]:
                            if not eqv(good[a][1][m][1][var], good[b][1][m][1][var], 2e-6):
                                c.fail("exports of the %s and %s back-ends differ" % (a, b), case,
                                       {"var": var, a: good[a][1][m][1][var], b: good[b][1][m][1][var]})


# ---------------------------------------------------------------------------------------------
# simulation


def sim_classes():
    from rtctools.simulation.csv_mixin import CSVMixin
    from rtctools.simulation.pi_mixin import PIMixin
    from rtctools.simulation.simulation_problem import SimulationProblem

    class Base:
        def compiler_options(self):
            o = super().compiler_options()
            o["cache"] = False
            o["library_folders"] = []
            return o

    class SCsv(Base, CSVMixin, SimulationProblem):
        pass

    class SPi(Base, PIMixin, SimulationProblem):
        pass

    return SCsv, SPi


def stream_simulation(c, N, tmp):
    rng = c.rng
    SCsv, SPi = sim_classes()
    mo = os.path.join(tmp, "mos")
    os.makedirs(mo)
    with open(os.path.join(mo, "S.mo"), "w") as f:
        f.write(MO_SIM)
    c.programs += 1
    for i in range(N):
        if TIMEOUTS[0] >= 3:
            c.hit("simulation/skipped after repeated timeouts")
            continue
        inst = gen_instance(rng, sim=True)
        backend = rng.choice(["csv", "pi", "pi"])
        if backend == "csv":
            inst["k0"] = 0  # the CSV mixin always starts at the first stamp
            inst["members"][0]["x"] = [inst["members"][0]["x"][0] if not isnan(inst["members"][0]["x"][0]) else 0.5] + \
                [NAN] * (len(inst["dts"]) - 1)
        k0, dts, d = inst["k0"], inst["dts"], inst["d"]
        s = inst["members"][0]
        for j in range(len(dts)):
            if isnan(s["c"][j]):
                s["c"][j] = 0.0
        case = {"stream": "simulation", "backend": backend, "instance": inst}
        root = os.path.join(tmp, "s%d" % i)
        os.makedirs(root)

        # explicit stepping: update(dt) with dt = 1, 2 or 3 import steps, mixed (plan = multiples per call)
        plan = None
        if rng.random() < 0.5 and len(dts) - k0 >= 3:
            left, plan = len(dts) - 1 - k0, []
            while left > 0:
                mlt = min(left, rng.choice([1, 2, 2, 3]))
                plan.append(mlt)
                left -= mlt
            if all(x == 1 for x in plan):
                plan[0:2] = [2]
            case["update_steps"] = [x * d for x in plan]
        new_u = None
        if backend == "pi" and rng.random() < 0.5:
            # the user replaces the input u from t0 on (values cover forecastDate .. endDate)
            new_u = [round(rng.uniform(-1, 1), 3) for _ in range(len(dts) - k0)]
            case["set_u_from_t0"] = new_u
        seen = {}

        def real():
            if backend == "csv":
                inp, out = make_csv_folder(root, inst, sim=True)
                p = SCsv(model_name="S", model_folder=mo, input_folder=inp, output_folder=out)
            else:
                inp, out = make_pi_folder(root, inst, sim=True)

                class SPiSet(SPi):
                    def pre(self):
                        super().pre()
                        if new_u is not None:
                            # with explicit coarser stepping the series is input only (the export has
                            # fewer stamps than a series covering every import stamp)
                            self.set_timeseries("u", np.array(new_u), output=plan is None)
                            seen["u"] = [float(x) for x in self.get_timeseries("u")]

                p = SPiSet(model_name="S", model_folder=mo, input_folder=inp, output_folder=out)
            with quiet_fd():
                if plan is None:
                    p.simulate()
                else:  # the user steps the model himself, with steps that are multiples of the import step
                    p.pre()
                    p.initialize()
                    for mult in plan:
                        p.update(mult * d)
                    p.post()
            er = p.extract_results()
            res = {k: [float(x) for x in er[k]] for k in ("y", "x_out")}
            times = [float(t) for t in p.times()]
            if backend == "csv":
                exported = read_csv_export(out, 1)
            else:
                exported, fc, _ = read_pi_export(inp, out, 1)
            return res, times, exported

        r = call(real)
        shutil.rmtree(root, ignore_errors=True)
        c.count(("sim", backend, len(dts), k0))
        c.hit("simulation/%s %s" % (backend, "t0 first" if k0 == 0 else "t0 inside"))
        c.sample(case, limit=1)
        if r[0] == "raise":
            c.fail("simulation %s: simulate/export raised" % backend, case, r[1])
            continue
        res, times, exported = r[1]
        if new_u is not None:
            c.hit("simulation/pi set_timeseries from t0")
            if not eqv(seen.get("u", []), [NAN] * k0 + new_u):
                c.fail("simulation PIMixin.set_timeseries: values given from t0 on are not stored from t0 on", case, seen)
            s = {**s, "u": [NAN] * k0 + new_u}
        if times != [float(t - dts[k0]) for t in dts[k0:]]:
            c.fail("simulation: times() is not the stamps from t0 on", case, times)
        reached = [k0]
        for mlt in (plan or [1] * (len(dts) - 1 - k0)):
            reached.append(reached[-1] + mlt)
        if plan is not None:
            c.hit("simulation/explicit update(dt), dt != import step")
        stamps, cols = exported[0]
        if stamps != [dts[i] for i in reached]:
            c.fail("simulation %s export: stamps are not the import stamps from t0 on" % backend, case, stamps)
            continue
        tol = 6e-7 if backend == "csv" else 0.0
        for var in ("y", "x_out"):
            if var not in cols or not eqv(cols[var], res[var], tol):
                c.fail("simulation %s export: values of %s differ from extract_results()" % (backend, var), case,
                       {"file": cols.get(var), "results": res[var]})
        # feed: the inputs of stamp t0 + j*dt drive step j (backward Euler: x_j - x_{j-1} = dt (u_j + c_j))
        x = res["x_out"]
        if abs(x[0] - s["x"][k0]) > 1e-9:
            c.fail("simulation: x(t0) is not the initial state at t0", case, x)
        if len(x) != len(reached):
            c.fail("simulation: number of recorded steps", case, x)
            continue
        for j in range(1, len(x)):
            i_now, step = reached[j], (reached[j] - reached[j - 1]) * d
            rhs = step * (s["u"][i_now] + s["c"][i_now]) / 3600.0
            if abs((x[j] - x[j - 1]) - rhs) > 1e-7 * max(1.0, abs(rhs)):
                c.fail("simulation: step %d is not driven by the inputs of its own stamp" % j, case,
                       {"x": x, "expected_increment": rhs})
                break


# ---------------------------------------------------------------------------------------------


def corpus(c, tmp):
    """inputs of repaired findings, checked as ordinary cases"""
    import random

    rng = random.Random(12)
    # F45 (fixed 8e294aa): simulation PIMixin.set_timeseries when t0 is the second of the import stamps
    SCsv, SPi = sim_classes()
    mos = os.path.join(tmp, "mos_c")
    os.makedirs(mos)
    with open(os.path.join(mos, "S.mo"), "w") as f:
        f.write(MO_SIM)
    inst = gen_instance(rng, sim=True)
    while inst["k0"] != 1:
        inst = gen_instance(rng, sim=True)
    inst["members"][0]["c"] = [0.0 if isnan(v) else v for v in inst["members"][0]["c"]]
    root = os.path.join(tmp, "c_sp")
    os.makedirs(root)
    seen = {}

    class SP2(SPi):
        def pre(self):
            super().pre()
            n = len(self.times())
            seen["r"] = call(self.set_timeseries, "u", np.arange(n) * 1.0)
            seen["stored"] = call(lambda: [float(x) for x in self.get_timeseries("u")])

    def real_sp():
        inp, out = make_pi_folder(root, inst, sim=True)
        p = SP2(model_name="S", model_folder=mos, input_folder=inp, output_folder=out)
        with quiet_fd():
            p.pre()

    call(real_sp)
    n_h = len(inst["dts"]) - 1
    ok = seen.get("r", ("raise", "not run"))[0] == "ok" and seen["stored"][0] == "ok" and \
        eqv(seen["stored"][1], [NAN] + [float(j) for j in range(n_h)])
    c.count(("corpus", "F45"))
    if not ok:
        c.fail("simulation PIMixin.set_timeseries with values from forecastDate to endDate (t0 = second stamp) "
               "does not store them from t0 on", {"corpus": "F45", "instance": inst}, seen)
    shutil.rmtree(root, ignore_errors=True)
